"""C17 -- recorded cases are faithful, filtered and ordered (SqliteRecorder / SqliteCaseReader / Case).

The recorder and the reader communicate through a database whose layout is fixed by the CREATE TABLE
statements of ``SqliteRecorder._initialize_database``.  Those SQL strings are *data* of the program:
they are parsed (tokenised, never pattern-matched as Python text) into a schema, and every other SQL
statement, row-key read, positional read and dispatch on ``record_type`` is decided against it.
The selection side (includes/excludes, record_* gates, design variables/responses) is reduced to
guard tables and compared with the option tables declared on ``recording_options``.
"""
import ast
import itertools
import re

from .. import astx, cfg as cfgm, boolx
from ..core import AnalysisError
from ..engine import rule, describe, selftest, Mutant, Twin

REC = 'openmdao/recorders/sqlite_recorder.py'
RDR = 'openmdao/recorders/sqlite_reader.py'
CASE = 'openmdao/recorders/case.py'
CREC = 'openmdao/recorders/case_recorder.py'
DRV = 'openmdao/core/driver.py'
SYS = 'openmdao/core/system.py'
SLV = 'openmdao/solvers/solver.py'
PRB = 'openmdao/core/problem.py'
RUTIL = 'openmdao/utils/record_util.py'

describe('C17',
         'Decides structural clauses of case recording. schema_write/schema_read: every INSERT/UPDATE/DELETE/'
         'SELECT of recorder and reader, every row[key] read and every data[key] of Case.__init__ agrees with '
         'the CREATE TABLE layout (SQL strings are tokenised as data).  giter/rectype/dispatch/lookup: positional '
         'reads of global_iterations rows pick the column their use needs; every record_type the recorder writes '
         'names its case table and is handled by each reader dispatch chain; each branch indexes the list of '
         'the matching case table with rowid-1; membership tests and get_case use the same table.  store/'
         'caseslots/retrieve: each case-table column receives the datum of its kind, Case reads it back into '
         'the attribute of that kind, _retrieve_data_of_kind stores under each name the value of that name from '
         'the vector of the requested kind.  gate/effective/select/checkpath/options: data[K] is filled from '
         'the K selection; (selection non-empty and retrieval enabled) as a formula over the recording options '
         'is equivalent to the options that name K (truth table); includes/excludes reach every check_path in '
         'that order; check_path implements "excluded wins, else included" on all match patterns of up to 2+2 '
         'patterns; design variables/objectives/constraints are added under exactly their options; every '
         'declared recording option is consulted and no undeclared one is.  order/route/parent/rooted: case '
         'listings are ORDER BY an INTEGER PRIMARY KEY id, the flat hierarchy walk scans global iterations '
         '0..counter and appends coordinates that start with the requested one, the global counter is bumped '
         'exactly once per case before routing requester class X to the X table, parent coordinates drop one '
         'stack level, and all sites that decide whether a recorded pathname is already rooted agree.  Does '
         'not decide numerical equality with the live model, the parsing of iteration coordinates into '
         'sources, or the MPI gather paths.',
         ['SQLite assigns INTEGER PRIMARY KEY ids 1,2,3... in insertion order (no deletes between runs)',
          'a full scan `select * from global_iterations` returns rows in ascending id (rowid table)',
          'recording_options are not changed between final_setup and recording',
          'conditions that are not recording options (non-empty vectors, discrete variables) are taken as '
          'satisfiable when guards are projected on the options'])

RECORD_TABLES = ('driver_iterations', 'problem_cases', 'system_iterations', 'solver_iterations')


# =========================================================================== SQL (data of the program)
_TOK = re.compile(r"\s*(?:([A-Za-z_][A-Za-z_0-9]*)|(\?)|(:[A-Za-z_][A-Za-z_0-9]*)|('[^']*')|(\d+)|(\S))")


class Sql:
    """A parsed SQL statement (only the subset the recorder/reader use)."""

    def __init__(self):
        self.kind = None        # create | index | insert | update | delete | select
        self.table = None
        self.cols = []          # create: [(name, [type words])]; insert/update: [name]; index: [name]
        self.nparams = 0
        self.select = []        # '*' | column | ('fn', name, arg)
        self.where = []         # column names on the left of '='
        self.order = []         # [(col, 'asc'|'desc')]
        self.holes = {}         # identifier -> access path of an f-string hole


def str_parts(expr):
    """Constant / f-string / '+'-concatenation -> list of str | ('hole', path); None if not a string."""
    if isinstance(expr, ast.Constant) and isinstance(expr.value, str):
        return [expr.value]
    if isinstance(expr, ast.JoinedStr):
        out = []
        for v in expr.values:
            if isinstance(v, ast.Constant) and isinstance(v.value, str):
                out.append(v.value)
            elif isinstance(v, ast.FormattedValue):
                out.append(('hole', astx.path(v.value) or astx.src(v.value)))
            else:
                return None
        return out
    if isinstance(expr, ast.BinOp) and isinstance(expr.op, ast.Add):
        a = [('hole', expr.left.id)] if isinstance(expr.left, ast.Name) else str_parts(expr.left)
        b = [('hole', expr.right.id)] if isinstance(expr.right, ast.Name) else str_parts(expr.right)
        if a is None or b is None:
            return None
        return a + b
    return None


def _loop_constants(node, name):
    """Constant strings a name ranges over when it is the target of an enclosing `for name in (<str>, ...)`."""
    for a in astx.ancestors(node):
        if isinstance(a, ast.For) and isinstance(a.target, ast.Name) and a.target.id == name and \
                isinstance(a.iter, (ast.Tuple, ast.List)) and a.iter.elts and \
                all(astx.const_str(e) is not None for e in a.iter.elts):
            return [astx.const_str(e) for e in a.iter.elts]
        if isinstance(a, (ast.FunctionDef, ast.AsyncFunctionDef)):
            break
    return None


def parse_sql(parts):
    """Parse the token stream of one SQL statement; raises ValueError on an unknown shape."""
    text = ''
    holes = {}
    for p in parts:
        if isinstance(p, tuple):
            nm = f'HOLE{len(holes)}__'
            holes[nm] = p[1]
            text += nm
        else:
            text += p
    toks = []
    pos = 0
    while pos < len(text):
        m = _TOK.match(text, pos)
        if not m or m.end() == pos:
            break
        pos = m.end()
        if m.group(1):
            toks.append(('id', m.group(1)))
        elif m.group(2):
            toks.append(('q', '?'))
        elif m.group(3):
            toks.append(('q', m.group(3)))
        elif m.group(4):
            toks.append(('str', m.group(4)))
        elif m.group(5):
            toks.append(('num', m.group(5)))
        elif m.group(6):
            toks.append(('p', m.group(6)))
    s = Sql()
    s.holes = holes
    i = 0

    def kw(j, word):
        return j < len(toks) and toks[j][0] == 'id' and toks[j][1].lower() == word

    def ident(j):
        if j < len(toks) and toks[j][0] == 'id':
            return toks[j][1]
        raise ValueError(f'identifier expected at token {j}')

    def paren_items(j):
        """items (token lists) of a parenthesised comma list starting at toks[j] == '('; returns (items, next)."""
        if not (j < len(toks) and toks[j] == ('p', '(')):
            raise ValueError('( expected')
        depth = 0
        items, cur = [], []
        while j < len(toks):
            t = toks[j]
            if t == ('p', '('):
                depth += 1
                if depth > 1:
                    cur.append(t)
            elif t == ('p', ')'):
                depth -= 1
                if depth == 0:
                    if cur:
                        items.append(cur)
                    return items, j + 1
                cur.append(t)
            elif t == ('p', ',') and depth == 1:
                items.append(cur)
                cur = []
            else:
                cur.append(t)
            j += 1
        raise ValueError('unbalanced parentheses')

    if kw(0, 'create') and kw(1, 'table'):
        s.kind = 'create'
        s.table = ident(2)
        items, _ = paren_items(3)
        for it in items:
            if not it or it[0][0] != 'id':
                raise ValueError('column definition')
            s.cols.append((it[0][1], [t[1].lower() for t in it[1:]]))
        return s
    if kw(0, 'create') and kw(1, 'index'):
        s.kind = 'index'
        if not kw(3, 'on'):
            raise ValueError('create index')
        s.table = ident(4)
        items, _ = paren_items(5)
        s.cols = [it[0][1] for it in items]
        return s
    if kw(0, 'insert') and kw(1, 'into'):
        s.kind = 'insert'
        s.table = ident(2)
        items, j = paren_items(3)
        for it in items:
            if len(it) != 1 or it[0][0] != 'id':
                raise ValueError('insert column list')
            s.cols.append(it[0][1])
        if not kw(j, 'values'):
            raise ValueError('VALUES expected')
        vals, _ = paren_items(j + 1)
        for v in vals:
            if len(v) != 1 or v[0][0] != 'q':
                raise ValueError('only placeholders are expected in VALUES')
        s.nparams = len(vals)
        return s
    if kw(0, 'update'):
        s.kind = 'update'
        s.table = ident(1)
        if not kw(2, 'set'):
            raise ValueError('SET expected')
        j = 3
        while j < len(toks):
            if kw(j, 'where'):
                break
            s.cols.append(ident(j))
            if toks[j + 1] != ('p', '=') or toks[j + 2][0] != 'q':
                raise ValueError('col=? expected')
            s.nparams += 1
            j += 3
            if j < len(toks) and toks[j] == ('p', ','):
                j += 1
        i = j
    elif kw(0, 'delete') and kw(1, 'from'):
        s.kind = 'delete'
        s.table = ident(2)
        i = 3
    elif kw(0, 'select'):
        s.kind = 'select'
        j = 1
        cur = []
        depth = 0
        while j < len(toks) and not (depth == 0 and kw(j, 'from')):
            t = toks[j]
            if t == ('p', '('):
                depth += 1
            elif t == ('p', ')'):
                depth -= 1
            if t == ('p', ',') and depth == 0:
                s.select.append(cur)
                cur = []
            else:
                cur.append(t)
            j += 1
        s.select.append(cur)
        sel = []
        for it in s.select:
            if len(it) == 1 and it[0] == ('p', '*'):
                sel.append('*')
            elif len(it) == 1 and it[0][0] == 'id':
                sel.append(it[0][1])
            elif len(it) == 4 and it[0][0] == 'id' and it[1] == ('p', '(') and it[3] == ('p', ')'):
                sel.append(('fn', it[0][1].lower(), it[2][1]))
            else:
                raise ValueError('select list')
        s.select = sel
        s.table = ident(j + 1)
        i = j + 2
    else:
        raise ValueError('unknown statement')
    # tail: WHERE ... ORDER BY ...
    j = i
    if kw(j, 'where'):
        j += 1
        while j < len(toks) and not kw(j, 'order'):
            if toks[j][0] == 'id' and j + 1 < len(toks) and toks[j + 1] == ('p', '='):
                s.where.append(toks[j][1])
                if j + 2 < len(toks) and toks[j + 2][0] == 'q':
                    s.nparams += 1
                j += 3
            elif kw(j, 'and') or kw(j, 'or'):
                j += 1
            else:
                raise ValueError('where clause')
    if kw(j, 'order'):
        if not kw(j + 1, 'by'):
            raise ValueError('ORDER BY')
        j += 2
        while j < len(toks):
            col = ident(j)
            d = 'asc'
            j += 1
            if kw(j, 'asc') or kw(j, 'desc'):
                d = toks[j][1].lower()
                j += 1
            s.order.append((col, d))
            if j < len(toks) and toks[j] == ('p', ','):
                j += 1
    if j < len(toks):
        raise ValueError('trailing tokens')
    return s


def sql_calls(fn_or_node):
    """(call, Sql|None, error) for every `<x>.execute(<string-like>, ...)` in a function/module node."""
    node = getattr(fn_or_node, 'node', fn_or_node)
    out = []
    for c in astx.calls(node, into_scopes=True):
        if astx.callee_attr(c) != 'execute' or not c.args:
            continue
        parts = str_parts(c.args[0])
        if parts is None or not any(isinstance(p, str) for p in parts):
            continue
        # a hole that is the variable of a loop over constant strings stands for each of them
        variants = [parts]
        for i, p in enumerate(parts):
            if isinstance(p, tuple) and p[1].isidentifier():
                vals = _loop_constants(c, p[1])
                if vals:
                    variants = [v[:i] + [val] + v[i + 1:] for v in variants for val in vals]
        for v in variants:
            try:
                out.append((c, parse_sql(v), None))
            except (ValueError, IndexError) as e:
                out.append((c, None, str(e)))
    return out


class Schema:
    """table -> ordered column list, from the CREATE TABLE statements of _initialize_database."""

    def __init__(self, repo):
        self.fn = repo.func(REC, 'SqliteRecorder._initialize_database')
        self.tables = {}
        self.types = {}
        self.nodes = {}
        for c, s, err in sql_calls(self.fn):
            if s is not None and s.kind == 'create':
                self.tables[s.table] = [n for n, _ in s.cols]
                self.types[s.table] = dict(s.cols)
                self.nodes[s.table] = c
        missing = [t for t in RECORD_TABLES + ('global_iterations',) if t not in self.tables]
        if missing:
            raise AnalysisError(f'CREATE TABLE not found for {missing} in {self.fn.ident}')

    def has(self, table, col):
        return col in self.tables.get(table, ())


def case_table_classes(repo):
    """{class name: (table literal, index literal)} for the CaseTable subclasses of the reader."""
    m = repo.module(RDR)
    base = repo.func(RDR, 'CaseTable.__init__')
    params = [a.arg for a in base.node.args.args][1:]
    slot = {}
    for st in astx.walk_stmts(base.node.body):
        if isinstance(st, ast.Assign) and len(st.targets) == 1 and isinstance(st.value, ast.Name) and \
                st.value.id in params:
            p = astx.path(st.targets[0])
            if p in ('self._table_name', 'self._index_name'):
                slot[p] = params.index(st.value.id)
    if set(slot) != {'self._table_name', 'self._index_name'}:
        raise AnalysisError('CaseTable.__init__ does not store table/index names from its parameters')
    out = {}
    for qn, cls in m.classes.items():
        f = m.funcs.get(f'{qn}.__init__')
        if f is None or qn == 'CaseTable':
            continue
        for c in astx.calls(f.node):
            if astx.callee_attr(c) == '__init__' and isinstance(astx.receiver(c), ast.Call) and \
                    astx.call_name(astx.receiver(c)) == 'super':
                t = astx.arg(c, slot['self._table_name'])
                i = astx.arg(c, slot['self._index_name'])
                if astx.const_str(t) and astx.const_str(i):
                    out[qn] = (astx.const_str(t), astx.const_str(i), c)
    if len(out) < 4:
        raise AnalysisError(f'expected 4 CaseTable subclasses with literal table names, found {sorted(out)}')
    return out


def prefix(table):
    """record type of a case table: the reader itself uses table_name.split('_')[0]."""
    return table.split('_')[0]


# =========================================================================== flow helpers
class Flow:
    """CFG + reaching definitions of one function with value resolution through tuple unpacking."""

    def __init__(self, fn):
        self.fn = fn
        self.g = cfgm.build(fn)
        self.rd = cfgm.ReachingDefs(self.g)
        a = fn.node.args
        self.params = [x.arg for x in a.posonlyargs + a.args + a.kwonlyargs]

    def at(self, expr):
        """CFG node evaluating the statement that contains *expr*."""
        st = astx.stmt_of(expr)
        # comprehension / nested: climb to a statement that has a CFG node
        while st is not None:
            ns = self.g.nodes_of(st)
            if ns:
                return ns[0]
            st = astx.stmt_of(getattr(st, '_parent', None))
        raise AnalysisError(f'{self.fn.ident}: no CFG node for `{astx.src(expr)}`')

    def values(self, name, at):
        """Defining values of local *name* at node *at*: list of ('expr', e) | ('iter', e) | ('param', n) |
        ('other', node)."""
        out = []
        for d in self.rd.defs(at, name):
            if d is self.g.entry:
                out.append(('param', name))
            elif d.kind == 'stmt' and isinstance(d.ast, ast.Assign):
                found = False
                for t in d.ast.targets:
                    if astx.path(t) == name:
                        out.append(('expr', d.ast.value, d))
                        found = True
                    elif isinstance(t, (ast.Tuple, ast.List)) and isinstance(d.ast.value, (ast.Tuple, ast.List)) \
                            and len(t.elts) == len(d.ast.value.elts):
                        for te, ve in zip(t.elts, d.ast.value.elts):
                            if astx.path(te) == name:
                                out.append(('expr', ve, d))
                                found = True
                if not found:
                    out.append(('other', d))
            elif d.kind == 'iter':
                tg = d.ast.target
                if astx.path(tg) == name:
                    out.append(('iter', d.ast.iter, d))
                else:
                    out.append(('other', d))
            elif d.kind == 'with':
                hit = False
                for it in d.ast.items:
                    if it.optional_vars is not None and astx.path(it.optional_vars) == name:
                        out.append(('expr', it.context_expr, d))
                        hit = True
                if not hit:
                    out.append(('other', d))
            else:
                out.append(('other', d))
        return out

    def single(self, name, at):
        """The unique defining expression of *name* at *at* (through tuple unpacking), else None."""
        vs = self.values(name, at)
        if len(vs) == 1 and vs[0][0] == 'expr':
            return vs[0][1], vs[0][2]
        return None, None


_EXITS = (ast.Continue, ast.Return, ast.Raise, ast.Break)


def apath(flow, e, at=None, depth=0):
    """astx.path with a leading local alias expanded: rec_mgr -> self._rec_mgr when `rec_mgr = self._rec_mgr`."""
    p = astx.path(e)
    if p is None or flow is None or depth > 3:
        return p
    root = e
    while isinstance(root, (ast.Attribute, ast.Subscript, ast.Call)):
        root = root.func if isinstance(root, ast.Call) else root.value
    if not isinstance(root, ast.Name) or root.id in ('self', 'cls'):
        return p
    try:
        v, d = flow.single(root.id, at if at is not None else flow.at(e))
    except AnalysisError:
        return p
    if v is None:
        return p
    vp = apath(flow, v, d, depth + 1)
    if vp is None:
        return p
    return vp + p[len(root.id):]


def guards(stmt, stop):
    """[(test expr, polarity)] known at *stmt*: enclosing if-tests up to function node *stop*, plus the negation
    of every preceding sibling `if X: ...; continue/return/raise/break` (guard clause) on the way up."""
    out = []
    cur = stmt
    while cur is not None and cur is not stop:
        par = getattr(cur, '_parent', None)
        where = None
        if par is not None:
            for fld in ('body', 'orelse', 'finalbody'):
                lst = getattr(par, fld, None)
                if isinstance(lst, list) and any(cur is x for x in lst):
                    where = (fld, lst)
        if where is not None:
            fld, lst = where
            for sib in lst:
                if sib is cur:
                    break
                if isinstance(sib, ast.If) and not sib.orelse and sib.body and isinstance(sib.body[-1], _EXITS):
                    out.append((sib.test, False))
            if isinstance(par, ast.If):
                out.append((par.test, fld == 'body'))
        cur = par
    return out


def conjuncts(test, pol=True):
    """Flatten a guard into literals [(atom expr, polarity)]; a disjunction stays one atom."""
    if isinstance(test, ast.UnaryOp) and isinstance(test.op, ast.Not):
        return conjuncts(test.operand, not pol) if not isinstance(test.operand, ast.BoolOp) else [(test, pol)]
    if isinstance(test, ast.BoolOp) and isinstance(test.op, ast.And) and pol:
        out = []
        for v in test.values:
            out += conjuncts(v, True)
        return out
    if isinstance(test, ast.BoolOp) and isinstance(test.op, ast.Or) and not pol:
        out = []
        for v in test.values:
            out += conjuncts(v, False)
        return out
    return [(test, pol)]


# =========================================================================== C17.schema_write
@rule('C17.schema_write', floor=24)
def schema_write(repo, out):
    """Every INSERT/UPDATE/DELETE/CREATE INDEX of the recorder names existing tables and columns; #columns = #placeholders = #parameters."""
    sch = Schema(repo)
    m = repo.module(REC)
    for f in m.funcs.values():
        for c, s, err in sql_calls(f):
            if s is None:
                out.unsure(f, c, f'SQL statement not understood: {err}')
                continue
            if s.kind in ('create', 'select'):
                continue
            if s.table not in sch.tables:
                out.bad(f, c, f'{s.kind.upper()} names table `{s.table}` which _initialize_database never '
                        'creates', key=f'{s.kind}-{s.table}-table')
                continue
            miss = [x for x in s.cols if not sch.has(s.table, x)]
            if miss:
                out.bad(f, c, f'{s.kind.upper()} on `{s.table}` names column(s) {miss} missing from its CREATE '
                        f'TABLE {sch.tables[s.table]}', key=f'{s.kind}-{s.table}-columns')
                continue
            if len(set(s.cols)) != len(s.cols):
                out.bad(f, c, f'{s.kind.upper()} on `{s.table}` names a column twice', key=f'{s.kind}-{s.table}-dup')
                continue
            if s.kind in ('insert', 'update'):
                if s.kind == 'insert' and s.nparams != len(s.cols):
                    out.bad(f, c, f'INSERT INTO {s.table}: {len(s.cols)} columns but {s.nparams} placeholders',
                            key=f'insert-{s.table}-arity')
                    continue
                par = param_tuple(repo, f, c)
                if par is None:
                    out.unsure(f, c, 'parameters are not a literal tuple')
                    continue
                if any(isinstance(e, ast.Starred) for e in par.elts):
                    out.unsure(f, c, 'starred parameter')
                    continue
                if len(par.elts) != s.nparams:
                    out.bad(f, c, f'{s.kind.upper()} on `{s.table}`: {s.nparams} placeholders but '
                            f'{len(par.elts)} parameters', key=f'{s.kind}-{s.table}-arity')
                    continue
            out.ok(f, c, f'{s.kind} {s.table}({", ".join(s.cols)})')
    # case tables must carry the columns every Case needs and an integer key
    for t in RECORD_TABLES + ('global_iterations',):
        ty = sch.types[t].get('id')
        if ty is None or ty[:3] != ['integer', 'primary', 'key']:
            out.bad(sch.fn, sch.nodes[t], f'`{t}.id` is not INTEGER PRIMARY KEY: ids are no longer the '
                    'monotone rowid the reader orders by and indexes with', key=f'{t}-id')
        else:
            out.ok(sch.fn, sch.nodes[t], f'{t}.id INTEGER PRIMARY KEY')


# =========================================================================== C17.schema_read
def _pairs_for(repo, f, pairs):
    """The CaseTable subclasses on whose instances method *f* can run (own class, or non-overriding subclasses)."""
    cls = f.qualname.split('.')[0]
    if cls in pairs:
        return {cls: pairs[cls]}
    m = repo.module(RDR)
    meth = f.qualname.split('.')[-1]
    return {c: v for c, v in pairs.items() if f'{c}.{meth}' not in m.funcs}


def _instantiate(s, pairs):
    """Concrete (table, {hole: value}) instantiations of a parsed statement with f-string holes."""
    if not s.holes:
        return [(s.table, {})]
    outs = []
    for cls, (t, i, _) in pairs.items():
        sub = {}
        okk = True
        for h, p in s.holes.items():
            if p == 'self._table_name':
                sub[h] = t
            elif p == 'self._index_name':
                sub[h] = i
            else:
                okk = False
        if not okk:
            return None
        outs.append((sub.get(s.table, s.table), sub))
    return outs


def _row_bindings(f, sch, pairs):
    """Source-order scan of one reader function: row variable -> set of candidate tables; yields reads.

    Returns (reads, stores) with reads = [(subscript node, key, tables)], stores = [(node, key, tables)].
    """
    cursor = {}     # cursor name -> [tables]
    rows = {}       # variable -> [tables] (a row or a list of rows)
    reads, stores = [], []
    sqlof = {id(c): (s, err) for c, s, err in sql_calls(f)}

    def tables_of(s):
        inst = _instantiate(s, pairs)
        return None if inst is None else sorted({t for t, _ in inst})

    def scan_expr(e):
        for n in astx.walk(e):
            if isinstance(n, ast.Subscript) and isinstance(n.value, ast.Name) and n.value.id in rows:
                k = astx.const_str(n.slice)
                if k is not None:
                    (reads if isinstance(n.ctx, ast.Load) else stores).append((n, k, rows[n.value.id]))

    for st in astx.walk_stmts(f.node.body):
        hdr = []
        if isinstance(st, (ast.Assign, ast.AugAssign, ast.AnnAssign, ast.Expr, ast.Return)):
            hdr = [st]
        elif isinstance(st, (ast.If, ast.While)):
            hdr = [st.test]
        elif isinstance(st, ast.For):
            hdr = [st.iter]
        elif isinstance(st, ast.With):
            hdr = [it.context_expr for it in st.items]
        for e in hdr:
            scan_expr(e)
            for c in astx.calls(e):
                if id(c) in sqlof and isinstance(astx.receiver(c), ast.Name):
                    s, err = sqlof[id(c)]
                    cursor[astx.receiver(c).id] = tables_of(s) if s is not None and s.kind == 'select' else None
        if isinstance(st, ast.Assign) and len(st.targets) == 1 and isinstance(st.targets[0], ast.Name):
            tgt, v = st.targets[0].id, st.value
            if isinstance(v, ast.Call) and astx.callee_attr(v) in ('fetchone', 'fetchall') and \
                    isinstance(astx.receiver(v), ast.Name) and astx.receiver(v).id in cursor:
                if cursor[astx.receiver(v).id] is not None:
                    rows[tgt] = cursor[astx.receiver(v).id]
                else:
                    rows.pop(tgt, None)
            elif tgt in rows and not astx.mentions(v, tgt):
                rows.pop(tgt)       # rebound to something else (dict(zip(row.keys(), row)) keeps it)
        elif isinstance(st, ast.For) and isinstance(st.target, ast.Name) and isinstance(st.iter, ast.Name):
            src = st.iter.id
            if src in cursor and cursor[src] is not None:
                rows[st.target.id] = cursor[src]
            elif src in rows:
                rows[st.target.id] = rows[src]
    return reads, stores


@rule('C17.schema_read', floor=40)
def schema_read(repo, out):
    """Every SELECT of the reader, every row['k'] read and every data['k'] of Case.__init__ names columns the recorder creates."""
    sch = Schema(repo)
    pairs = case_table_classes(repo)
    m = repo.module(RDR)
    # 1. table/index literals handed to CaseTable.__init__
    for cls, (t, i, node) in sorted(pairs.items()):
        f = m.funcs[f'{cls}.__init__']
        if t not in sch.tables:
            out.bad(f, node, f'{cls} reads table `{t}` which the recorder never creates', key=f'{cls}-table')
        elif not sch.has(t, i):
            out.bad(f, node, f'{cls} indexes `{t}` by column `{i}`, not a column of {sch.tables[t]}',
                    key=f'{cls}-index')
        else:
            out.ok(f, node, f'{cls}: {t}.{i}')
    # 2. SELECT statements
    injected = {}   # table -> keys added to a row dict before it is handed to Case
    all_pairs = pairs
    for f in m.funcs.values():
        pairs = _pairs_for(repo, f, all_pairs)
        for c, s, err in sql_calls(f):
            if s is None:
                out.unsure(f, c, f'SQL statement not understood: {err}')
                continue
            if s.kind != 'select':
                out.unsure(f, c, f'reader executes a {s.kind} statement')
                continue
            if s.table == 'sqlite_master':
                continue
            inst = _instantiate(s, pairs)
            if inst is None:
                out.unsure(f, c, f'unknown f-string hole(s) {sorted(s.holes.values())}')
                continue
            bad = None
            for t, sub in inst:
                if t not in sch.tables:
                    bad = f'SELECT from `{t}` which the recorder never creates'
                    break
                names = [sub.get(x, x) for x in s.select if isinstance(x, str) and x != '*'] + \
                    [x[2] for x in s.select if isinstance(x, tuple) and x[2] != '*'] + \
                    [sub.get(x, x) for x in s.where] + [sub.get(x, x) for x, _ in s.order]
                miss = [x for x in names if not sch.has(t, x)]
                if miss:
                    bad = f'SELECT on `{t}` names column(s) {miss} missing from {sch.tables[t]}'
                    break
            if bad:
                out.bad(f, c, bad, key=f'select-{s.table if not s.holes else "case-table"}')
            else:
                out.ok(f, c, f'select from {sorted({t for t, _ in inst})}')
        # 3. row['k'] reads
        reads, stores = _row_bindings(f, sch, pairs)
        for node, k, tabs in stores:
            for t in tabs:
                injected.setdefault(t, set()).add(k)
        for node, k, tabs in reads:
            miss = [t for t in tabs if not sch.has(t, k) and k not in injected.get(t, ())]
            if miss:
                out.bad(f, node, f"row['{k}'] read from a row of {tabs}: no such column in {miss}",
                        key=f'row-{k}')
            else:
                out.ok(f, node, f"row['{k}'] of {tabs}")
    # 4. Case.__init__: data['k'] / 'k' in data.keys()
    cf = repo.func(CASE, 'Case.__init__')
    dparam = [a.arg for a in cf.node.args.args][2]
    cols = {t: set(sch.tables[t]) | injected.get(t, set()) for t in RECORD_TABLES}
    # keys created by renaming inside Case.__init__ (data[K] = data.pop(S)) live in the tables that have S
    for st in astx.walk_stmts(cf.node.body):
        if isinstance(st, ast.Assign) and len(st.targets) == 1 and isinstance(st.targets[0], ast.Subscript) and \
                astx.path(st.targets[0].value) == dparam and astx.const_str(st.targets[0].slice) and \
                isinstance(st.value, ast.Call) and astx.call_name(st.value) == f'{dparam}.pop' and st.value.args:
            k, sname = astx.const_str(st.targets[0].slice), astx.const_str(st.value.args[0])
            for t in RECORD_TABLES:
                if sname in sch.tables[t]:
                    cols[t].add(k)

    def member_key(test):
        """'k' for  'k' in data.keys()  /  'k' in data."""
        if isinstance(test, ast.Compare) and len(test.ops) == 1 and isinstance(test.ops[0], ast.In):
            r = test.comparators[0]
            if astx.path(r) == dparam or (isinstance(r, ast.Call) and astx.call_name(r) == f'{dparam}.keys'):
                return astx.const_str(test.left)
        return None

    def need(node):
        """keys known to be present at *node* (enclosing `if 'g' in data.keys()` bodies / IfExp)."""
        g = []
        cur = node
        while cur is not None and cur is not cf.node:
            par = getattr(cur, '_parent', None)
            if isinstance(par, ast.If) and any(cur is s for s in par.body):
                for a, pol in conjuncts(par.test):
                    if pol and member_key(a):
                        g.append(member_key(a))
            if isinstance(par, ast.IfExp) and cur is par.body and member_key(par.test):
                g.append(member_key(par.test))
            cur = par
        return g

    for n in astx.walk(cf.node):
        k = None
        what = ''
        if isinstance(n, ast.Compare) and member_key(n):
            k, what = member_key(n), 'membership test'
            tabs = [t for t in RECORD_TABLES if k in cols[t]]
            if not tabs:
                out.bad(cf, n, f"`'{k}' in data.keys()` can never be true: no case table has a column `{k}`; "
                        'the guarded part of every Case stays empty', key=f'case-key-{k}')
            else:
                out.ok(cf, n, f"'{k}' is a column of {tabs}")
            continue
        if isinstance(n, ast.Subscript) and astx.path(n.value) == dparam and isinstance(n.ctx, ast.Load):
            k, what = astx.const_str(n.slice), 'read'
        elif isinstance(n, ast.Call) and astx.call_name(n) == f'{dparam}.pop' and n.args:
            k, what = astx.const_str(n.args[0]), 'pop'
        if k is None:
            continue
        g = need(n)
        tabs = [t for t in RECORD_TABLES if all(x in cols[t] for x in g)]
        miss = [t for t in tabs if k not in cols[t]]
        if not tabs:
            out.bad(cf, n, f"data['{k}'] guarded by keys {g} that no case table provides together",
                    key=f'case-key-{k}')
        elif miss:
            out.bad(cf, n, f"Case.__init__ reads data['{k}']" + (f' (under {g})' if g else ' unconditionally') +
                    f' but {miss} has no such column: KeyError/IndexError for every case of that table',
                    key=f'case-key-{k}')
        else:
            out.ok(cf, n, f"data['{k}'] available in {tabs}")


# =========================================================================== global_iterations rows
GITER_FUNCS = ['SqliteCaseReader.get_case', 'SqliteCaseReader._list_cases_recurse_flat',
               'SqliteCaseReader._list_cases_recurse_nested', 'CaseTable.list_sources',
               'CaseTable._get_row_source']


def giter_columns(repo, sch):
    """Column order of the rows kept in `_global_iterations` (from the SELECT that fills it)."""
    f = repo.func(RDR, 'SqliteCaseReader._get_global_iterations')
    sel = [(c, s) for c, s, err in sql_calls(f) if s is not None and s.kind == 'select']
    if len(sel) != 1 or sel[0][1].table != 'global_iterations':
        raise AnalysisError('_get_global_iterations does not run exactly one SELECT on global_iterations')
    c, s = sel[0]
    if s.select == ['*']:
        return list(sch.tables['global_iterations']), f, c, s
    if all(isinstance(x, str) and x != '*' for x in s.select):
        return list(s.select), f, c, s
    raise AnalysisError('select list of global_iterations not understood')


def _is_giter_list(flow, e, at, depth=0):
    p = astx.path(e)
    if p == 'self._global_iterations':
        return True
    if isinstance(e, ast.Name) and depth < 3:
        vs = flow.values(e.id, at)
        return bool(vs) and all(v[0] == 'expr' and _is_giter_list(flow, v[1], v[2], depth + 1) for v in vs)
    return False


def _is_giter_row(flow, e, at):
    """True if expression e (a Name) is one row of the global iterations list."""
    if not isinstance(e, ast.Name):
        return False
    vs = flow.values(e.id, at)
    if not vs:
        return False
    for v in vs:
        if v[0] == 'iter' and _is_giter_list(flow, v[1], v[2]):
            continue
        if v[0] == 'expr' and isinstance(v[1], ast.Subscript) and _is_giter_list(flow, v[1].value, v[2]):
            continue
        return False
    return True


def giter_vars(flow):
    """[(name, index, subscript node, assign stmt)] for locals bound to `<giter row>[<int>]`."""
    out = []
    for st in astx.walk_stmts(flow.fn.node.body):
        if not isinstance(st, ast.Assign) or len(st.targets) != 1:
            continue
        t, v = st.targets[0], st.value
        pairs = []
        if isinstance(t, ast.Name):
            pairs = [(t, v)]
        elif isinstance(t, ast.Tuple) and isinstance(v, ast.Tuple) and len(t.elts) == len(v.elts):
            pairs = list(zip(t.elts, v.elts))
        for te, ve in pairs:
            if isinstance(te, ast.Name) and isinstance(ve, ast.Subscript) and \
                    isinstance(ve.slice, ast.Constant) and isinstance(ve.slice.value, int) and \
                    not isinstance(ve.slice.value, bool):
                ns = flow.g.nodes_of(st)
                if ns and _is_giter_row(flow, ve.value, ns[0]):
                    out.append((te.id, ve.slice.value, ve, st))
    return out


def _rowid_params(repo, f):
    """Parameters of reader method f that every call site in the reader feeds with <row>['id']."""
    m = repo.module(RDR)
    meth = f.qualname.split('.')[-1]
    params = [a.arg for a in f.node.args.args][1:]
    sites = []
    for g in m.funcs.values():
        for c in astx.calls(g.node):
            if astx.callee_attr(c) == meth and astx.path(astx.receiver(c)) == 'self':
                sites.append(c)
    out = set()
    for i, p in enumerate(params):
        if sites and all(len(c.args) > i and isinstance(c.args[i], ast.Subscript) and
                         astx.const_str(c.args[i].slice) == 'id' for c in sites):
            out.add(p)
    return out


def _table_prefix_names(flow):
    """Locals defined as `self._table_name.split('_')[0]` / `.partition('_')[0]` (the record type of a table)."""
    out = set()
    for st in astx.walk_stmts(flow.fn.node.body):
        if isinstance(st, ast.Assign) and len(st.targets) == 1 and isinstance(st.targets[0], ast.Name):
            v = st.value
            if isinstance(v, ast.Subscript) and isinstance(v.slice, ast.Constant) and v.slice.value == 0 and \
                    isinstance(v.value, ast.Call) and astx.callee_attr(v.value) in ('split', 'partition') and \
                    astx.path(astx.receiver(v.value)) == 'self._table_name':
                out.add(st.targets[0].id)
    return out


@rule('C17.giter', floor=11)
def giter(repo, out):
    """Positional reads of global_iterations rows pick the column their use needs (record_type / rowid / source)."""
    sch = Schema(repo)
    order, gf, gcall, gs = giter_columns(repo, sch)
    rtypes = {lit for _, lit, _, _ in inserted_record_types(repo, sch) if lit} | {prefix(t) for t in RECORD_TABLES}
    for qn in GITER_FUNCS:
        f = repo.func(RDR, qn)
        flow = Flow(f)
        gv = giter_vars(flow)
        if not gv:
            raise AnalysisError(f'{f.ident}: no positional read of a global_iterations row found')
        rowid_p = _rowid_params(repo, f)
        prefnames = _table_prefix_names(flow)
        for name, idx, node, st in gv:
            if idx >= len(order) or idx < -len(order):
                out.bad(f, st, f'`{astx.src(node)}` is outside the {len(order)} columns {order}',
                        key=f'giter-{name}')
                continue
            col = order[idx]
            ev = set()
            for n in astx.walk(f.node):
                if isinstance(n, ast.Compare) and len(n.ops) == 1 and isinstance(n.ops[0], (ast.Eq, ast.NotEq)):
                    a, b = n.left, n.comparators[0]
                    for x, y in ((a, b), (b, a)):
                        if isinstance(x, ast.Name) and x.id == name:
                            if astx.const_str(y) in rtypes or (isinstance(y, ast.Name) and y.id in prefnames):
                                ev.add('record_type')
                            elif isinstance(y, ast.Name) and y.id in rowid_p:
                                ev.add('rowid')
                elif isinstance(n, ast.Subscript) and isinstance(n.slice, ast.BinOp) and \
                        isinstance(n.slice.left, ast.Name) and n.slice.left.id == name and \
                        isinstance(n.slice.right, ast.Constant):
                    ev.add('rowid')
                elif isinstance(n, ast.Return) and isinstance(n.value, ast.Name) and n.value.id == name:
                    ev.add('source')
                elif isinstance(n, ast.Call) and astx.callee_attr(n) == 'startswith' and \
                        isinstance(astx.receiver(n), ast.Name) and astx.receiver(n).id == name:
                    ev.add('source')
            if not ev:
                out.unsure(f, st, f'use of `{name}` (= column `{col}`) not recognised')
            elif ev != {col}:
                out.bad(f, st, f'`{name}` is read from position {idx} = column `{col}` of global_iterations '
                        f'(order {order}) but is used as {sorted(ev)}', key=f'giter-{name}')
            else:
                out.ok(f, st, f'{name} = column {idx} `{col}`')
    if gs.order and gs.order != [('id', 'asc')]:
        out.bad(gf, gcall, f'global_iterations is read ORDER BY {gs.order}: positions in the list no longer '
                'follow execution order', key='giter-order')


# =========================================================================== record types
def func_flow(repo, f):
    c = repo.__dict__.setdefault('_c17_flows', {})
    k = (f.rel, f.qualname)
    if k not in c:
        c[k] = Flow(f)
    return c[k]


def param_tuple(repo, f, call):
    """The literal parameter tuple of an execute call, also when it is first bound to a local temporary."""
    return param_tuple_at(repo, f, call)[0]


def param_tuple_at(repo, f, call):
    """(tuple literal, CFG node at which its elements are evaluated) or (None, None)."""
    par = astx.arg(call, 1, 'parameters')
    flow = func_flow(repo, f)
    at = flow.at(call)
    if isinstance(par, ast.Name):
        par, at = flow.single(par.id, at)
    return (par, at) if isinstance(par, (ast.Tuple, ast.List)) else (None, None)


def _direct_global(repo, f):
    """[(call, record_type expr, rowid expr, cursor expr)] of INSERT INTO global_iterations statements in f."""
    out = []
    for c, s, err in sql_calls(f):
        if s is None or s.kind != 'insert' or s.table != 'global_iterations':
            continue
        par = param_tuple(repo, f, c)
        rt = rid = None
        if par is not None and len(par.elts) == len(s.cols):
            rt = par.elts[s.cols.index('record_type')] if 'record_type' in s.cols else None
            rid = par.elts[s.cols.index('rowid')] if 'rowid' in s.cols else None
        out.append((c, rt, rid, astx.receiver(c)))
    return out


def global_sites(repo, f):
    """global_iterations rows written by f, directly or through a helper method of its class (inlined at the call).

    Each site: dict(node, lit, rowid_base (path whose .lastrowid is stored, or None), rowid_src, cursor (path)).
    Direct inserts whose record type is a parameter of f are skipped: f is such a helper, decided at its callers.
    """
    params = [a.arg for a in f.node.args.args]
    sites = []

    def mk(node, rt, rid, cur, sub, fn):
        def S(e):
            return sub.get(e.id, e) if isinstance(e, ast.Name) else e
        rt, cur = (S(rt) if rt is not None else None), (S(cur) if cur is not None else None)
        base = None
        if isinstance(rid, ast.Name) and rid.id not in sub:
            flow = func_flow(repo, fn)
            v, _ = flow.single(rid.id, flow.at(rid))
            if v is not None:
                rid = v             # rowid = c.lastrowid ; ... (..., rowid, ...)
        if isinstance(rid, ast.Attribute) and rid.attr == 'lastrowid':
            base = astx.path(S(rid.value))
        return dict(node=node, lit=astx.const_str(rt) if rt is not None else None,
                    rt_src=astx.src(rt) if rt is not None else '', rowid_base=base,
                    rowid_src=astx.src(rid) if rid is not None else None, cursor=astx.path(cur) if cur is not None else None)
    for c, rt, rid, cur in _direct_global(repo, f):
        if isinstance(rt, ast.Name) and rt.id in params:
            continue
        sites.append(mk(c, rt, rid, cur, {}, f))
    cls = f.qualname.rsplit('.', 1)[0] if '.' in f.qualname else None
    if cls:
        for call in astx.calls(f.node):
            if astx.path(astx.receiver(call)) != 'self':
                continue
            h = f.module.funcs.get(f'{cls}.{astx.callee_attr(call)}')
            if h is None or h is f:
                continue
            direct = _direct_global(repo, h)
            if not direct or any(s2 is not None and s2.kind == 'insert' and s2.table in RECORD_TABLES
                                 for _, s2, _ in sql_calls(h)):
                continue
            hp = [a.arg for a in h.node.args.args][1:]
            sub = {}
            for i, a in enumerate(call.args):
                if i < len(hp) and not isinstance(a, ast.Starred):
                    sub[hp[i]] = a
            for k in call.keywords:
                if k.arg:
                    sub[k.arg] = k.value
            for c, rt, rid, cur in direct:
                sites.append(mk(call, rt, rid, cur, sub, h))
    return sites


def inserted_record_types(repo, sch):
    """[(func, literal, global insert site node, case-table inserts in the same function)]."""
    m = repo.module(REC)
    out = []
    for f in m.funcs.values():
        sites = global_sites(repo, f)
        if not sites:
            continue
        cases = [(c2, s2) for c2, s2, err in sql_calls(f) if s2 is not None and s2.kind == 'insert' and
                 s2.table in RECORD_TABLES]
        for st in sites:
            out.append((f, st['lit'], st['node'], cases))
    return out


def _chain(top):
    """[(test, body)], else-body of an if/elif chain."""
    br = []
    cur = top
    while True:
        br.append((cur.test, cur.body))
        if len(cur.orelse) == 1 and isinstance(cur.orelse[0], ast.If):
            cur = cur.orelse[0]
            continue
        return br, cur.orelse


def _lit_test(test, names):
    """literal L if test is  <name in names> == 'L'  (either order)."""
    if isinstance(test, ast.Compare) and len(test.ops) == 1 and isinstance(test.ops[0], ast.Eq):
        a, b = test.left, test.comparators[0]
        for x, y in ((a, b), (b, a)):
            if isinstance(x, ast.Name) and x.id in names and astx.const_str(y) is not None:
                return astx.const_str(y)
    return None


def dispatch_chains(flow, names):
    out = []
    for st in astx.walk_stmts(flow.fn.node.body):
        if isinstance(st, ast.If) and _lit_test(st.test, names) is not None:
            par = st._parent
            if isinstance(par, ast.If) and par.orelse == [st] and _lit_test(par.test, names) is not None:
                continue
            out.append(st)
    return out


NESTED_BY_DESIGN = {'SqliteCaseReader._list_cases_recurse_nested':
                    ({'driver', 'problem'}, 'driver and problem cases have no parent case: they are never '
                     'children in the nested dictionary')}
CHAIN_FUNCS = ['SqliteCaseReader.get_case', 'SqliteCaseReader._list_cases_recurse_flat',
               'SqliteCaseReader._list_cases_recurse_nested']


@rule('C17.rectype', floor=7)
def rectype(repo, out):
    """Each record_type literal the recorder inserts names its case table and is handled by every reader dispatch chain."""
    sch = Schema(repo)
    ins = inserted_record_types(repo, sch)
    lits = set()
    for f, lit, c, cases in ins:
        if lit is None:
            out.unsure(f, c, 'record_type parameter is not a string literal')
            continue
        lits.add(lit)
        if len(cases) != 1:
            out.unsure(f, c, f'{len(cases)} case-table inserts next to the global_iterations insert')
            continue
        t = cases[0][1].table
        if prefix(t) != lit:
            out.bad(f, c, f"case stored in `{t}` is registered in global_iterations as record_type '{lit}': the "
                    f"reader resolves it in the `{lit}` table (expected '{prefix(t)}')", key=f'rectype-{t}')
        else:
            out.ok(f, c, f"{t} <-> '{lit}'")
    if len(lits) < 4:
        raise AnalysisError(f'only record types {sorted(lits)} found in the recorder')
    for qn in CHAIN_FUNCS:
        f = repo.func(RDR, qn)
        flow = Flow(f)
        names = {n for n, i, _, _ in giter_vars(flow)}
        chains = dispatch_chains(flow, names)
        if not chains:
            raise AnalysisError(f'{f.ident}: no dispatch on the record type of a global iteration')
        for top in chains:
            br, els = _chain(top)
            handled = {_lit_test(t, names) for t, _ in br if _lit_test(t, names) is not None}
            allowed, why = NESTED_BY_DESIGN.get(qn, (set(), ''))
            missing = lits - handled - allowed
            unknown = handled - lits
            if missing:
                out.bad(f, top, f'dispatch on record_type handles {sorted(handled)} but the recorder also writes '
                        f'{sorted(missing)}: such a row falls through with the previous value/an int index or '
                        'raises', key='rectype-chain')
            elif unknown:
                out.bad(f, top, f'dispatch tests record_type {sorted(unknown)} which the recorder never writes '
                        f'(writes {sorted(lits)})', key='rectype-chain')
            else:
                out.ok(f, top, f'handles {sorted(handled)}' + (f'; {why}' if allowed else ''))


def reader_tables(repo, pairs):
    """attribute of SqliteCaseReader -> case table name, from `self._x = XCases(...)` in __init__."""
    f = repo.func(RDR, 'SqliteCaseReader.__init__')
    out = {}
    for st in astx.walk_stmts(f.node.body):
        if isinstance(st, ast.Assign) and len(st.targets) == 1 and isinstance(st.value, ast.Call) and \
                isinstance(st.value.func, ast.Name) and st.value.func.id in pairs:
            p = astx.path(st.targets[0])
            if p and p.startswith('self.'):
                out[p[5:]] = pairs[st.value.func.id][0]
    if len(out) < 4:
        raise AnalysisError('SqliteCaseReader.__init__ does not create the four case-table helpers')
    return out


def _list_attr(flow, name, at):
    """attr A if local *name* is defined (only) as `self.A.list_cases()`; else None."""
    vs = flow.values(name, at)
    attrs = set()
    for v in vs:
        if v[0] == 'expr' and isinstance(v[1], ast.Call) and astx.callee_attr(v[1]) == 'list_cases' and \
                not v[1].args and not v[1].keywords:
            p = astx.path(astx.receiver(v[1]))
            if p and p.startswith('self.'):
                attrs.add(p[5:])
                continue
        return None
    return attrs.pop() if len(attrs) == 1 else None


@rule('C17.dispatch', floor=10)
def dispatch(repo, out):
    """In every dispatch branch `table == 'T'` the coordinate is taken from the list of the T case table at index rowid - 1."""
    sch = Schema(repo)
    order = giter_columns(repo, sch)[0]
    pairs = case_table_classes(repo)
    rt = reader_tables(repo, pairs)
    for qn in CHAIN_FUNCS:
        f = repo.func(RDR, qn)
        flow = Flow(f)
        gv = giter_vars(flow)
        names = {n for n, i, _, _ in gv}
        rowvars = {n for n, i, _, _ in gv if -len(order) <= i < len(order) and order[i] == 'rowid'}
        for top in dispatch_chains(flow, names):
            br, els = _chain(top)
            for test, body in br:
                lit = _lit_test(test, names)
                if lit is None:
                    continue
                subs = [n for st in body for n in astx.walk(st) if isinstance(n, ast.Subscript) and
                        isinstance(n.ctx, ast.Load) and isinstance(n.value, ast.Name) and
                        astx.names(n.slice) & names]
                if not subs:
                    out.unsure(f, test, f"branch '{lit}' does not index a case list")
                    continue
                for sub in subs:
                    at = flow.at(sub)
                    attr = _list_attr(flow, sub.value.id, at)
                    if attr is None or attr not in rt:
                        out.unsure(f, sub, f'`{sub.value.id}` is not <case table>.list_cases()')
                        continue
                    sl = sub.slice
                    if prefix(rt[attr]) != lit:
                        out.bad(f, sub, f"record_type '{lit}' is looked up in the list of `{rt[attr]}` "
                                f'(self.{attr}); the row id belongs to the {lit} table', key=f'dispatch-{lit}')
                    elif isinstance(sl, ast.BinOp) and isinstance(sl.op, ast.Sub) and isinstance(sl.left, ast.Name) \
                            and sl.left.id in rowvars and isinstance(sl.right, ast.Constant) and sl.right.value == 1:
                        out.ok(f, sub, f"'{lit}' -> self.{attr}.list_cases()[rowid - 1]")
                    elif (isinstance(sl, ast.Name) and sl.id in names) or \
                            (isinstance(sl, ast.BinOp) and isinstance(sl.left, ast.Name) and sl.left.id in names
                             and isinstance(sl.right, ast.Constant)):
                        out.bad(f, sub, f'index `{astx.src(sl)}` is not `rowid - 1`: ids start at 1 and the list '
                                'is 0-based/ordered by id, so another case (or IndexError) is returned',
                                key=f'dispatch-{lit}')
                    else:
                        out.unsure(f, sub, f'index `{astx.src(sl)}` not recognised')


@rule('C17.lookup', floor=11)
def lookup(repo, out):
    """`coord in <T list>` is answered by get_case of the same case table T."""
    pairs = case_table_classes(repo)
    rt = reader_tables(repo, pairs)
    for qn in CHAIN_FUNCS[1:]:
        f = repo.func(RDR, qn)
        flow = Flow(f)
        for st in astx.walk_stmts(f.node.body):
            if not (isinstance(st, ast.If) and isinstance(st.test, ast.Compare) and len(st.test.ops) == 1 and
                    isinstance(st.test.ops[0], ast.In) and isinstance(st.test.comparators[0], ast.Name)):
                continue
            attr = _list_attr(flow, st.test.comparators[0].id, flow.g.nodes_of(st)[0])
            if attr is None or attr not in rt:
                continue
            gets = [c for s in st.body for c in astx.calls(s) if astx.callee_attr(c) == 'get_case' and
                    (astx.path(astx.receiver(c)) or '').startswith('self.')]
            if not gets:
                out.unsure(f, st, 'membership branch without get_case')
                continue
            for c in gets:
                b = astx.path(astx.receiver(c))[5:]
                if b != attr:
                    out.bad(f, c, f'coordinate found in self.{attr} ({rt[attr]}) but fetched with self.{b}'
                            f'.get_case ({rt.get(b, "?")}): returns None for every such coordinate',
                            key=f'lookup-{attr}')
                else:
                    out.ok(f, c, f'{attr}: membership and get_case agree')
    # `source in self._A.list_sources()` selects helper A
    for qn in ('SqliteCaseReader.list_cases', 'SqliteCaseReader.list_source_vars'):
        f = repo.func(RDR, qn)
        for st in astx.walk_stmts(f.node.body):
            if not (isinstance(st, ast.If) and isinstance(st.test, ast.Compare) and len(st.test.ops) == 1 and
                    isinstance(st.test.ops[0], ast.In) and isinstance(st.test.left, ast.Name) and
                    isinstance(st.test.comparators[0], ast.Call) and
                    astx.callee_attr(st.test.comparators[0]) == 'list_sources'):
                continue
            p = astx.path(astx.receiver(st.test.comparators[0])) or ''
            if not (p.startswith('self.') and p[5:] in rt):
                continue
            a = p[5:]
            used = {n.attr for s_ in st.body for n in astx.walk(s_) if isinstance(n, ast.Attribute) and
                    astx.path(n.value) == 'self' and n.attr in rt}
            if not used:
                out.unsure(f, st, 'branch does not use a case table helper')
            elif used != {a}:
                out.bad(f, st, f'source found among the sources of self.{a} ({rt[a]}) but the branch uses '
                        f'{sorted("self." + u for u in used - {a})}', key=f'lookup-source-{a}')
            else:
                out.ok(f, st, f'sources of {a} -> {a}')


# =========================================================================== C17.store
WRAPPERS = {'json.dumps', 'array_to_blob', 'dict_to_structured_array', 'sqlite3.Binary'}
EXPECT = {'counter': 'self._counter', 'iteration_coordinate': 'self._iteration_coordinate',
          'case_name': "metadata['name']", 'timestamp': "metadata['timestamp']", 'success': "metadata['success']",
          'msg': "metadata['msg']", 'inputs': "data['input']", 'outputs': "data['output']",
          'residuals': "data['residual']", 'solver_inputs': "data['input']", 'solver_output': "data['output']",
          'solver_residuals': "data['residual']", 'abs_err': "data['abs']", 'rel_err': "data['rel']",
          'jacobian': "data['totals']", 'derivatives': 'data'}


def origin(flow, e, at, roles, depth=0):
    """Where a stored value comes from: "data['input']", "metadata['msg']", 'self._counter', 'empty', None."""
    if depth > 8:
        return None
    if isinstance(e, ast.Constant) and e.value is None:
        return 'empty'
    if isinstance(e, ast.Dict) and not e.keys:
        return 'empty'
    if isinstance(e, ast.Attribute):
        p = astx.path(e)
        return p if p and p.startswith('self.') else None
    if isinstance(e, ast.Subscript) and isinstance(e.value, ast.Name) and astx.const_str(e.slice) is not None:
        b = origin(flow, e.value, at, roles, depth + 1)
        return f"{b}[{astx.const_str(e.slice)!r}]" if b in ('data', 'metadata') else None
    if isinstance(e, ast.Call) and astx.call_name(e) in WRAPPERS and e.args:
        return origin(flow, e.args[0], at, roles, depth + 1)
    if isinstance(e, ast.IfExp):
        os_ = {origin(flow, e.body, at, roles, depth + 1), origin(flow, e.orelse, at, roles, depth + 1)} - {'empty'}
        return os_.pop() if len(os_) == 1 else None
    if isinstance(e, ast.Name):
        vs = flow.values(e.id, at)
        os_ = set()
        for v in vs:
            if v[0] == 'param':
                os_.add(roles.get(e.id))
            elif v[0] == 'expr':
                os_.add(origin(flow, v[1], v[2], roles, depth + 1))
            else:
                os_.add(None)
        os_ -= {'empty'}
        return os_.pop() if len(os_) == 1 else None
    return None


@rule('C17.store', floor=9)
def store(repo, out):
    """Each column of a case-table INSERT receives the datum of its kind; the global_iterations row points at the row just inserted."""
    m = repo.module(REC)
    n = 0
    for f in m.funcs.values():
        ins = [(c, s) for c, s, err in sql_calls(f) if s is not None and s.kind == 'insert' and
               s.table in RECORD_TABLES + ('driver_derivatives',)]
        gsites = global_sites(repo, f)
        if not ins and not gsites:
            continue
        flow = func_flow(repo, f)
        ps = flow.params
        if len(ps) < 4:
            out.unsure(f, f.node, 'recording method without (requester, data, metadata) parameters')
            continue
        roles = {ps[2]: 'data', ps[3]: 'metadata'}
        case_cursor = None
        events = [((c.lineno, c.col_offset), 'case', (c, s)) for c, s in ins] + \
            [((g['node'].lineno, g['node'].col_offset), 'global', g) for g in gsites]
        for _, what, ev in sorted(events, key=lambda x: x[0]):
            if what == 'global':
                g = ev
                c = g['node']
                if g['rowid_src'] is None:
                    out.bad(f, c, 'global_iterations row written without rowid', key='store-rowid')
                elif case_cursor is None:
                    out.unsure(f, c, 'global_iterations row written before any case row')
                elif g['rowid_base'] is not None and g['rowid_base'] == case_cursor and g['cursor'] == case_cursor:
                    out.ok(f, c, f'rowid = {case_cursor}.lastrowid of the case insert')
                elif g['rowid_base'] is not None:
                    out.bad(f, c, f"rowid is `{g['rowid_base']}.lastrowid` (executed on `{g['cursor']}`) but the case "
                            f'row was inserted through cursor `{case_cursor}`', key='store-rowid')
                else:
                    out.bad(f, c, f"rowid parameter `{g['rowid_src']}` is not the lastrowid of the case insert: the "
                            'reader indexes the case table with it', key='store-rowid')
                continue
            c, s = ev
            case_cursor = astx.path(astx.receiver(c))
            par, at = param_tuple_at(repo, f, c)
            if par is None or len(par.elts) != len(s.cols):
                out.unsure(f, c, 'parameters are not a literal tuple matching the column list')
                continue
            wrong = []
            unk = []
            for col, e in zip(s.cols, par.elts):
                want = EXPECT.get(col)
                if want is None:
                    unk.append(f'{col} (no expectation)')
                    continue
                got = origin(flow, e, at, roles)
                n += 1
                if got is None:
                    unk.append(f'{col} <- {astx.src(e)}')
                elif got != want:
                    wrong.append(f'column `{col}` receives {got} (`{astx.src(e)}`), expected {want}')
            if wrong:
                out.bad(f, c, f'INSERT INTO {s.table}: ' + '; '.join(wrong), key=f'store-{s.table}')
            elif unk:
                out.unsure(f, c, 'origin not recognised: ' + '; '.join(unk))
            else:
                out.ok(f, c, f'{s.table}: {len(s.cols)} columns receive their kind')
    out.count('columns', n)


# =========================================================================== C17.order
def _select_is_listing(s):
    return s.kind == 'select' and not s.where and not any(isinstance(x, tuple) for x in s.select)


@rule('C17.order', floor=4)
def order(repo, out):
    """Case listings are ORDER BY id ASC; the flat hierarchy walk scans global iterations 0..counter in order and appends coordinates that start with the requested one."""
    sch = Schema(repo)
    pairs = case_table_classes(repo)
    m = repo.module(RDR)
    for f in m.funcs.values():
        for c, s, err in sql_calls(f):
            if s is None or not _select_is_listing(s):
                continue
            inst = _instantiate(s, _pairs_for(repo, f, pairs))
            if not inst or not all(t in RECORD_TABLES for t, _ in inst):
                continue
            if s.order == [('id', 'asc')]:
                out.ok(f, c, 'ORDER BY id ASC')
            elif not s.order:
                out.bad(f, c, 'case listing without ORDER BY id: list positions are compared with rowid-1 and '
                        'returned as execution order', key='order-by')
            else:
                out.bad(f, c, f'case listing ordered by {s.order}, not by id ASC', key='order-by')
    # flat walk
    f = repo.func(RDR, 'SqliteCaseReader._list_cases_recurse_flat')
    flow = Flow(f)
    gv = giter_vars(flow)
    loops = [st for st in astx.walk_stmts(f.node.body) if isinstance(st, ast.For) and
             any(astx.in_body(a, st, 'body') for _, _, _, a in gv)]
    if len(loops) != 1:
        raise AnalysisError(f'{f.ident}: loop over global iterations not found')
    loop = loops[0]
    coord = flow.params[1] if len(flow.params) > 1 else None
    rets = [st.value.id for st in astx.walk_stmts(f.node.body) if isinstance(st, ast.Return) and
            isinstance(st.value, ast.Name)]
    if len(set(rets)) != 1 or coord is None:
        raise AnalysisError(f'{f.ident}: returned list not identified')
    res = rets[0]
    it = loop.iter
    hdr = flow.g.nodes_of(loop)[0]
    problem = None
    if not (isinstance(it, ast.Call) and astx.call_name(it) == 'range' and 1 <= len(it.args) <= 3 and
            isinstance(loop.target, ast.Name)):
        out.unsure(f, loop, 'loop is not `for i in range(...)`')
        return
    args = it.args
    start = args[0] if len(args) >= 2 else None
    stop = args[1] if len(args) >= 2 else args[0]
    if len(args) == 3:
        problem = 'range has a step: global iterations are skipped or visited in another order'
    elif start is not None and not (isinstance(start, ast.Constant) and start.value == 0):
        problem = f'walk starts at {astx.src(start)}, not at global iteration 0'
    else:
        # stop must be len(<giter>) or <case>.counter on every definition
        def stop_ok(e, at, depth=0):
            if isinstance(e, ast.Call) and astx.call_name(e) == 'len' and e.args and \
                    _is_giter_list(flow, e.args[0], at):
                return True
            if isinstance(e, ast.Attribute) and e.attr == 'counter':
                return True
            if isinstance(e, ast.BinOp) and isinstance(e.right, ast.Constant) and \
                    stop_ok(e.left, at, depth + 1) is True:
                return False
            if isinstance(e, ast.Name) and depth < 3:
                vs = flow.values(e.id, at)
                rs = [stop_ok(v[1], v[2], depth + 1) if v[0] == 'expr' else None for v in vs]
                if rs and all(r is True for r in rs):
                    return True
                if any(r is False for r in rs):
                    return False
            return None
        r = stop_ok(stop, hdr)
        if r is False:
            problem = (f'walk stops at `{astx.src(stop)}` with an offset: the requested case itself (global '
                       'iteration number `counter`) or trailing cases are dropped')
        elif r is None:
            out.unsure(f, loop, f'upper bound `{astx.src(stop)}` not recognised')
            return
    # row taken at the loop index
    if problem is None:
        for name, idx, node, st in gv:
            rowv = node.value
            vs = flow.values(rowv.id, flow.g.nodes_of(st)[0])
            for v in vs:
                if v[0] == 'expr' and isinstance(v[1], ast.Subscript) and not (
                        isinstance(v[1].slice, ast.Name) and v[1].slice.id == loop.target.id):
                    problem = f'global iteration taken at `{astx.src(v[1].slice)}`, not at the loop index'
    # how the result is filled
    fills = [c for c in astx.calls(loop) if isinstance(astx.receiver(c), ast.Name) and astx.receiver(c).id == res]
    if problem is None:
        if not fills:
            problem = f'`{res}` is never filled inside the walk'
        for c in fills:
            if astx.callee_attr(c) != 'append' or len(c.args) != 1 or not isinstance(c.args[0], ast.Name):
                problem = f'`{astx.src(c)}`: only append(<coordinate>) keeps execution order'
                break
            elem = c.args[0].id
            gs = guards(astx.stmt_of(c), loop)
            okg = False
            for test, pol in gs:
                for a, apol in conjuncts(test, pol):
                    if isinstance(a, ast.Call) and astx.callee_attr(a) in ('startswith', 'endswith') and a.args:
                        rc, ar = astx.receiver(a), a.args[0]
                        if apol and astx.callee_attr(a) == 'startswith' and isinstance(rc, ast.Name) and \
                                rc.id == elem and isinstance(ar, ast.Name) and ar.id == coord:
                            okg = True
                        else:
                            problem = (f'filter `{"" if apol else "not "}{astx.src(a)}` is not `<case coordinate>'
                                       f'.startswith({coord})`: the listing is not the set of descendants')
                    elif isinstance(a, ast.Compare) and isinstance(a.ops[0], (ast.In, ast.NotIn)) and \
                            {elem, coord} <= astx.names(a):
                        problem = f'filter `{astx.src(a)}` is a substring test, not a prefix test'
            if problem is None and not okg:
                problem = f'`{astx.src(c)}` is not guarded by `{elem}.startswith({coord})`'
    if problem:
        out.bad(f, loop, problem, key='flat-walk')
    else:
        out.ok(f, loop, f'for i in range(0, counter|len): append coordinates that start with `{coord}`')


# =========================================================================== C17.rooted
_SAMPLES = ('root', 'root.sub', 'root.sub.c', 'rootcomp', 'rooted.c', 'sub', 'sub.root')


class _NoEval(Exception):
    pass


def _ev(e, var, s):
    """Evaluate a small predicate/str expression over the single string variable *var* bound to s."""
    if isinstance(e, ast.Constant):
        return e.value
    if isinstance(e, ast.Name) and e.id == var:
        return s
    if isinstance(e, ast.BoolOp):
        vals = [_ev(v, var, s) for v in e.values]
        return all(vals) if isinstance(e.op, ast.And) else any(vals)
    if isinstance(e, ast.UnaryOp) and isinstance(e.op, ast.Not):
        return not _ev(e.operand, var, s)
    if isinstance(e, ast.Tuple):
        return tuple(_ev(x, var, s) for x in e.elts)
    if isinstance(e, ast.BinOp) and isinstance(e.op, ast.Add):
        a, b = _ev(e.left, var, s), _ev(e.right, var, s)
        if isinstance(a, str) and isinstance(b, str):
            return a + b
        raise _NoEval()
    if isinstance(e, ast.JoinedStr):
        r = ''
        for v in e.values:
            r += v.value if isinstance(v, ast.Constant) else str(_ev(v.value, var, s))
        return r
    if isinstance(e, ast.Compare) and len(e.ops) == 1:
        a, b = _ev(e.left, var, s), _ev(e.comparators[0], var, s)
        op = e.ops[0]
        if isinstance(op, ast.Eq):
            return a == b
        if isinstance(op, ast.NotEq):
            return a != b
        if isinstance(op, ast.In) and isinstance(b, (tuple, str)) and isinstance(a, str):
            return a in b
        if isinstance(op, ast.NotIn) and isinstance(b, (tuple, str)) and isinstance(a, str):
            return a not in b
        raise _NoEval()
    if isinstance(e, ast.Call) and astx.callee_attr(e) in ('startswith', 'endswith') and len(e.args) == 1:
        r, a = _ev(astx.receiver(e), var, s), _ev(e.args[0], var, s)
        if isinstance(r, str) and isinstance(a, (str, tuple)):
            return r.startswith(a) if astx.callee_attr(e) == 'startswith' else r.endswith(a)
    raise _NoEval()


def _prefixes(e, var):
    """True if expression e contains  'root.' + var  /  f'root.{var}'."""
    for n in astx.walk(e):
        if isinstance(n, ast.BinOp) and isinstance(n.op, ast.Add) and astx.const_str(n.left) == 'root.' and \
                isinstance(n.right, ast.Name) and n.right.id == var:
            return True
        if isinstance(n, ast.JoinedStr) and len(n.values) == 2 and astx.const_str(n.values[0]) == 'root.' and \
                isinstance(n.values[1], ast.FormattedValue) and isinstance(n.values[1].value, ast.Name) and \
                n.values[1].value.id == var:
            return True
    return False


ROOTED_SITES = [(RUTIL, 'get_source_system'), (RDR, 'CaseTable.list_sources')]


@rule('C17.rooted', floor=2)
def rooted(repo, out):
    """Every site that prepends 'root.' to a recorded pathname does so exactly for names that are not 'root' or 'root.<x>' (all sites agree)."""
    for rel, qn in ROOTED_SITES:
        f = repo.func(rel, qn)
        sites = []
        for n in astx.walk(f.node):
            if isinstance(n, ast.IfExp):
                for var in astx.names(n.test):
                    if _prefixes(n.body, var) != _prefixes(n.orelse, var):
                        sites.append((n, var, n.test, _prefixes(n.body, var)))
            elif isinstance(n, ast.If) and n.orelse:
                for var in astx.names(n.test):
                    pb = any(_prefixes(s, var) for s in n.body)
                    po = any(_prefixes(s, var) for s in n.orelse)
                    if pb != po:
                        sites.append((n, var, n.test, pb))
        if not sites:
            raise AnalysisError(f"{f.ident}: no conditional 'root.' prefixing found")
        for n, var, test, body_prefixes in sites:
            try:
                wrong = []
                for s in _SAMPLES:
                    t = bool(_ev(test, var, s))
                    prefixed = (t == body_prefixes)
                    want = not (s == 'root' or s.startswith('root.'))
                    if prefixed != want:
                        wrong.append(s)
            except _NoEval:
                out.unsure(f, n, f'rootedness test `{astx.src(test)}` not understood')
                continue
            if wrong:
                out.bad(f, n if isinstance(n, ast.If) else astx.stmt_of(n),
                        f"rootedness test `{astx.src(test)}` mis-classifies pathname(s) {wrong}: a system "
                        f"called e.g. '{wrong[0]}' is listed/queried under a different source name than the one "
                        "get_source_system derives from its iteration coordinates, so list_cases(<that source>) "
                        "finds nothing", key='root-prefix-test')
            else:
                out.ok(f, n if isinstance(n, ast.If) else astx.stmt_of(n),
                       f"'root.' is prepended exactly to names other than 'root' / 'root.<x>'")


# =========================================================================== C17.caseslots
@rule('C17.caseslots', floor=14)
def caseslots(repo, out):
    """Case.__init__ fills inputs/outputs/residuals from the column of the same kind with the name maps of that kind; solver columns are renamed to their own kind."""
    f = repo.func(CASE, 'Case.__init__')
    ps = [a.arg for a in f.node.args.args]
    dparam = ps[2]

    def mkey(test):
        if isinstance(test, ast.Compare) and len(test.ops) == 1 and isinstance(test.ops[0], ast.In):
            r = test.comparators[0]
            if astx.path(r) == dparam or (isinstance(r, ast.Call) and astx.call_name(r) == f'{dparam}.keys'):
                return astx.const_str(test.left)
        return None
    kinds = {'inputs': 'input', 'outputs': 'output', 'residuals': 'output'}
    seen = set()
    for st in astx.walk_stmts(f.node.body):
        if not isinstance(st, ast.If):
            continue
        K = mkey(st.test)
        if K in kinds:
            seen.add(K)
            probs = []
            for s in st.body:
                for n in astx.walk(s):
                    if isinstance(n, ast.Subscript) and astx.path(n.value) == dparam and astx.const_str(n.slice) \
                            and astx.const_str(n.slice) != K:
                        probs.append(f"reads data['{astx.const_str(n.slice)}'] inside the '{K}' block")
                    if isinstance(n, ast.Attribute) and isinstance(n.ctx, ast.Store) and astx.path(n.value) == 'self' \
                            and n.attr in kinds and n.attr != K:
                        probs.append(f"assigns self.{n.attr} inside the '{K}' block")
                    if isinstance(n, ast.Call) and astx.call_name(n) == 'PromAbsDict':
                        for a in n.args[1:3]:
                            if isinstance(a, ast.Subscript) and astx.const_str(a.slice) != kinds[K]:
                                probs.append(f"name map `{astx.src(a)}` used for {K} (expected ['{kinds[K]}'])")
            sets = [n for s in st.body for n in astx.walk(s) if isinstance(n, ast.Attribute) and
                    isinstance(n.ctx, ast.Store) and astx.path(n.value) == 'self' and n.attr == K]
            if not sets:
                probs.append(f'self.{K} is never assigned')
            if probs:
                out.bad(f, st, '; '.join(sorted(set(probs))), key=f'case-slot-{K}')
            else:
                out.ok(f, st, f"self.{K} <- data['{K}'] with the '{kinds[K]}' name maps")
    missing = set(kinds) - seen
    if missing:
        out.bad(f, f.node, f'Case.__init__ never reads {sorted(missing)}', key='case-slot-missing')
    # scalar attributes
    attr_col = {'counter': {'counter'}, 'timestamp': {'timestamp'}, 'success': {'success'}, 'msg': {'msg'},
                'abs_err': {'abs_err'}, 'rel_err': {'rel_err'}, 'name': {'iteration_coordinate', 'case_name'}}
    for st in astx.walk_stmts(f.node.body):
        if isinstance(st, ast.Assign) and len(st.targets) == 1 and astx.path(st.targets[0].value if isinstance(
                st.targets[0], ast.Attribute) else None) == 'self' and st.targets[0].attr in attr_col:
            a = st.targets[0].attr
            keys = {astx.const_str(n.slice) for n in astx.walk(st.value) if isinstance(n, ast.Subscript) and
                    astx.path(n.value) == dparam and astx.const_str(n.slice)}
            if not keys:
                continue
            if keys <= attr_col[a]:
                out.ok(f, st, f'self.{a} <- {sorted(keys)}')
            else:
                out.bad(f, st, f'Case.{a} is read from column(s) {sorted(keys - attr_col[a])}', key=f'case-attr-{a}')
    # renames
    for st in astx.walk_stmts(f.node.body):
        if isinstance(st, ast.Assign) and len(st.targets) == 1 and isinstance(st.targets[0], ast.Subscript) and \
                astx.path(st.targets[0].value) == dparam and isinstance(st.value, ast.Call) and \
                astx.call_name(st.value) == f'{dparam}.pop' and st.value.args:
            K, S = astx.const_str(st.targets[0].slice), astx.const_str(st.value.args[0])
            if K is None or S is None:
                continue
            if S.removeprefix('solver_').rstrip('s') != K.rstrip('s'):
                out.bad(f, st, f"solver column `{S}` is renamed to '{K}': every solver case shows the wrong kind "
                        'of data', key=f'case-rename-{K}')
            else:
                out.ok(f, st, f'{S} -> {K}')


# =========================================================================== recording options
def opt_key(flow, e, at):
    """'k' if e is  <recording options>['k']  (directly or through a local alias); else None."""
    if not (isinstance(e, ast.Subscript) and astx.const_str(e.slice) is not None):
        return None
    return astx.const_str(e.slice) if _is_recopts(flow, e.value, at) else None


def _is_recopts(flow, b, at, depth=0):
    p = astx.path(b)
    if p and p.endswith('.recording_options'):
        return True
    if isinstance(b, ast.Name) and depth < 3:
        vs = flow.values(b.id, at)
        return bool(vs) and all(v[0] == 'expr' and _is_recopts(flow, v[1], v[2], depth + 1) for v in vs)
    return False


def permissive(flow, expr, at, pol=True):
    """Formula over recording-option atoms; any other atom is replaced so that the result is weakest."""
    if isinstance(expr, ast.BoolOp):
        parts = [permissive(flow, v, at, pol) for v in expr.values]
        return boolx.And(*parts) if isinstance(expr.op, ast.And) else boolx.Or(*parts)
    if isinstance(expr, ast.UnaryOp) and isinstance(expr.op, ast.Not):
        return boolx.Not(permissive(flow, expr.operand, at, not pol))
    k = opt_key(flow, expr, at)
    if k is not None:
        return boolx.A(k)
    return boolx.TRUE if pol else boolx.FALSE


def guard_formula(flow, stmt):
    """Conjunction of the enclosing if-tests of *stmt* projected on recording options."""
    parts = []
    for test, pol in guards(stmt, flow.fn.node):
        at = flow.g.nodes_of(test._parent)[0] if flow.g.nodes_of(test._parent) else flow.g.entry
        f = permissive(flow, test, at, pol)
        parts.append(f if pol else boolx.Not(f))
    return boolx.And(*parts) if parts else boolx.TRUE


KINDS = ('input', 'output', 'residual')
PAIRS = [  # selection function, retrieval function, option that names each kind
    ((SYS, 'System._setup_recording'), (SYS, 'System.record_iteration'),
     {'input': 'record_inputs', 'output': 'record_outputs', 'residual': 'record_residuals'}),
    ((SLV, 'Solver._setup_solvers'), (SLV, 'Solver.record_iteration'),
     {'input': 'record_inputs', 'output': 'record_outputs', 'residual': 'record_solver_residuals'}),
    ((DRV, 'Driver._get_vars_to_record'), (DRV, 'record_iteration'),
     {'input': 'record_inputs', 'output': 'record_outputs', 'residual': 'record_residuals'}),
]


def _memo(repo, key, make):
    c = repo.__dict__.setdefault('_c17_cache', {})
    if key not in c:
        c[key] = make()
    return c[key]


class Retrieval:
    """data[K] = <system>._retrieve_data_of_kind(filt, K2, ...) statements of a record_iteration function."""

    def __init__(self, repo, rel, qn):
        self.fn = repo.func(rel, qn)
        self.flow = Flow(self.fn)
        self.items = []
        for st in astx.walk_stmts(self.fn.node.body):
            if isinstance(st, ast.Assign) and len(st.targets) == 1 and isinstance(st.targets[0], ast.Subscript) and \
                    isinstance(st.value, ast.Call) and astx.callee_attr(st.value) == '_retrieve_data_of_kind':
                self.items.append((st, astx.const_str(st.targets[0].slice), st.value))
        if not self.items:
            raise AnalysisError(f'{self.fn.ident}: no _retrieve_data_of_kind call')


def _empty_literal(e):
    return (isinstance(e, (ast.List, ast.Tuple, ast.Set)) and not e.elts) or \
        (isinstance(e, ast.Dict) and not e.keys) or \
        (isinstance(e, ast.Call) and astx.call_name(e) in ('set', 'list', 'dict') and not e.args)


class Selection:
    """{'input': X, 'output': Y, 'residual': Z} of a selection function and everything that fills X/Y/Z."""

    def __init__(self, repo, rel, qn):
        self.fn = repo.func(rel, qn)
        self.flow = Flow(self.fn)
        dicts = [n for n in astx.walk(self.fn.node) if isinstance(n, ast.Dict) and
                 {astx.const_str(k) for k in n.keys if k is not None} >= set(KINDS) and
                 all(isinstance(v, (ast.Name, ast.Call)) for v in n.values)]
        if len(dicts) != 1:
            raise AnalysisError(f'{self.fn.ident}: selection dictionary not found')
        self.dict = dicts[0]
        self.stmt = astx.stmt_of(self.dict)
        self.var = {}
        for k, v in zip(self.dict.keys, self.dict.values):
            if astx.const_str(k) in KINDS:
                if isinstance(v, ast.Call) and astx.call_name(v) == 'sorted' and len(v.args) == 1:
                    v = v.args[0]
                self.var[astx.const_str(k)] = v.id if isinstance(v, ast.Name) else None

    def adders(self, kind):
        """[(stmt, value expr or call)] that put names into the variable of *kind* before the dictionary is built."""
        name = self.var[kind]
        at = self.flow.g.nodes_of(self.stmt)[0]
        out = []
        for v in self.flow.values(name, at):
            if v[0] == 'expr' and not _empty_literal(v[1]):
                out.append((v[2].ast, v[1]))
            elif v[0] != 'expr':
                out.append((getattr(v[-1], 'ast', None), None))
        for st in astx.walk_stmts(self.fn.node.body):
            if isinstance(st, ast.Expr) and isinstance(st.value, ast.Call) and \
                    astx.callee_attr(st.value) in ('update', 'add', 'append', 'extend') and \
                    isinstance(astx.receiver(st.value), ast.Name) and astx.receiver(st.value).id == name:
                out.append((st, st.value))
        return out


@rule('C17.gate', floor=9)
def gate(repo, out):
    """record_iteration fills data[K] from _retrieve_data_of_kind(requester's filtered vars, K) for all three kinds."""
    for sel, (rel, qn), optmap in PAIRS:
        r = _memo(repo, ('R', rel, qn), lambda: Retrieval(repo, rel, qn))
        f, flow = r.fn, r.flow
        seen = set()
        for st, K, call in r.items:
            at = flow.g.nodes_of(st)[0]
            K2 = astx.const_str(astx.arg(call, 1, 'kind'))
            filt = astx.arg(call, 0, 'filtered_vars')
            if K not in KINDS or K2 is None:
                out.unsure(f, st, 'kind is not a literal')
                continue
            seen.add(K)
            fp = astx.path(filt)
            if isinstance(filt, ast.Name):
                e, _ = flow.single(filt.id, at)
                fp = astx.path(e) if e is not None else None
            if K2 != K:
                out.bad(f, st, f"data['{K}'] is filled with the '{K2}' variables", key=f'gate-{K}')
                continue
            if fp is None or not fp.endswith('._filtered_vars_to_record'):
                out.unsure(f, st, f'filter argument `{astx.src(filt)}` is not the _filtered_vars_to_record of the requester')
                continue
            out.ok(f, st, f"data['{K}'] <- filtered '{K}' variables of the requester")
        for K in KINDS:
            if K not in seen:
                out.bad(f, f.node, f"'{K}' data is never retrieved: cases of this requester cannot contain it",
                        key=f'gate-missing-{K}')


VOI_SPEC = {'_designvars': boolx.A('record_desvars'),
            '_objs': boolx.Or(boolx.A('record_objectives'), boolx.A('record_responses')),
            '_cons': boolx.Or(boolx.A('record_constraints'), boolx.A('record_responses'))}


def _voi_attr(v):
    """'_designvars' | '_objs' | '_cons' if call v is  <set>.update(<iter over self._X>)."""
    if isinstance(v, ast.Call) and astx.callee_attr(v) == 'update' and v.args:
        src = [a for a in astx.attrs(v.args[0]) if a in VOI_SPEC]
        if len(src) == 1:
            return src[0]
    return None


@rule('C17.effective', floor=9)
def effective(repo, out):
    """For each requester and kind K: (selection of K non-empty) and (retrieval of K enabled), as formulas over the recording options, is equivalent to the options that name what goes into K."""
    for (srel, sqn), (rrel, rqn), optmap in PAIRS:
        s = _memo(repo, ('S', srel, sqn), lambda: Selection(repo, srel, sqn))
        r = _memo(repo, ('R', rrel, rqn), lambda: Retrieval(repo, rrel, rqn))
        for K in KINDS:
            if s.var.get(K) is None:
                out.unsure(s.fn, s.stmt, f"value of '{K}' in the selection dictionary is not a local variable")
                continue
            ads = s.adders(K)
            if any(st is None for st, _ in ads):
                out.unsure(s.fn, s.stmt, f'definition of `{s.var[K]}` not recognised')
                continue
            gs, specs = [], []
            for st, v in ads:
                g = guard_formula(s.flow, st)
                gs.append(g)
                if isinstance(st, ast.Assign):
                    specs.append(boolx.A(optmap[K]))        # the selection proper: follows the option naming K
                elif _voi_attr(v):
                    specs.append(VOI_SPEC[_voi_attr(v)])     # design variables / objectives / constraints
                else:
                    specs.append(g)                          # e.g. sources of included promoted inputs
            S = boolx.Or(*gs) if gs else boolx.FALSE
            SPEC = boolx.Or(*specs) if specs else boolx.FALSE
            rs = [(st, guard_formula(r.flow, st)) for st, k, _ in r.items if k == K]
            R = boolx.Or(*[g for _, g in rs]) if rs else boolx.FALSE
            okk, n, cex = boolx.equivalent(boolx.And(S, R), SPEC)
            out.count('valuations', n)
            where = rs[0][0] if rs else r.fn.node
            if okk:
                out.ok(r.fn, where, f"'{K}' recorded iff {SPEC!r}")
            else:
                on = sorted(k for k, b in cex.items() if b)
                off = sorted(k for k, b in cex.items() if not b)
                got = boolx.And(S, R).ev(cex)
                out.bad(r.fn, where,
                        f"'{K}' data: with {on} set and {off} cleared the options ask for "
                        f"{'recording' if SPEC.ev(cex) else 'no recording'} [{SPEC!r}], but {s.fn.qualname} selects "
                        f"under [{S!r}] and {r.fn.qualname} retrieves under [{R!r}], i.e. "
                        f"{'records' if got else 'records nothing'}", key=f'effective-{K}')


def _derives(flow, e, at, depth=0):
    """Set of option keys an includes/excludes expression is built from (None = unknown)."""
    if depth > 5:
        return None
    k = opt_key(flow, e, at)
    if k is not None:
        return {k}
    if isinstance(e, ast.ListComp) and len(e.generators) == 1:
        return _derives(flow, e.generators[0].iter, at, depth + 1)
    if isinstance(e, ast.Call) and astx.call_name(e) in ('list', 'tuple', 'sorted') and len(e.args) == 1:
        return _derives(flow, e.args[0], at, depth + 1)
    if isinstance(e, ast.Name):
        vs = flow.values(e.id, at)
        res = set()
        for v in vs:
            if v[0] != 'expr':
                return None
            r = _derives(flow, v[1], v[2], depth + 1)
            if r is None:
                return None
            res |= r
        return res or None
    return None


def _transforms(flow, e, at, depth=0):
    """[(guard owner id, normalised elt dump)] of the comprehensions that rewrite a pattern list before its use;
    [] when the option value is used as given; None if not recognised."""
    if depth > 5:
        return None
    if opt_key(flow, e, at) is not None:
        return []
    if isinstance(e, ast.ListComp) and len(e.generators) == 1 and isinstance(e.generators[0].target, ast.Name):
        inner = _transforms(flow, e.generators[0].iter, at, depth + 1)
        if inner is None:
            return None
        tv = e.generators[0].target.id
        norm = ast.dump(_Rename({tv: 'T'}).visit(astx.canon(e.elt)), annotate_fields=False)
        owner = astx.enclosing(e, (ast.If, ast.For, ast.While, ast.FunctionDef))
        return inner + [(('comp', id(owner)), norm)]
    if isinstance(e, ast.Name):
        res = None
        for v in flow.values(e.id, at):
            if v[0] != 'expr':
                return None
            r = _transforms(flow, v[1], v[2], depth + 1)
            if r is None:
                return None
            # union over the definitions that can reach the use: a conditional rewrite counts once
            res = r if res is None or len(r) > len(res) else res
        return res
    return None


class _Rename(ast.NodeTransformer):
    def __init__(self, m):
        self.m = m

    def visit_Name(self, node):
        return ast.Name(id=self.m.get(node.id, node.id), ctx=node.ctx)


def _kind_marker(e):
    """Kinds an iterable expression names ('input' literal / _inputs vector ...)."""
    ks = set()
    for n in astx.walk(e):
        if isinstance(n, ast.Constant) and n.value in KINDS:
            ks.add(n.value)
        if isinstance(n, ast.Attribute) and n.attr in ('_inputs', '_outputs', '_residuals'):
            ks.add(n.attr[1:-1])
    return ks


def name_form(arg):
    """'prom' | 'abs' | None: name space of the first argument of a check_path call inside a selection."""
    if isinstance(arg, ast.Call) and astx.callee_attr(arg) == 'abs2prom':
        return 'prom'
    if not isinstance(arg, ast.Name):
        return None
    binders = []
    for a in astx.ancestors(arg):
        if isinstance(a, (ast.ListComp, ast.SetComp, ast.GeneratorExp, ast.DictComp)):
            binders += [(g.target, g.iter) for g in a.generators]
        elif isinstance(a, ast.For):
            binders.append((a.target, a.iter))
        elif isinstance(a, (ast.FunctionDef, ast.AsyncFunctionDef)):
            break
    for tgt, it in binders:
        itn = astx.callee_attr(it) if isinstance(it, ast.Call) else None
        if isinstance(tgt, ast.Name) and tgt.id == arg.id:
            if itn in ('abs_iter', '_abs_iter'):
                return 'abs'
            if itn == 'prom_iter':
                return 'prom'
            p = astx.path(it) or ''
            if p.rsplit('.', 1)[-1] in ('_residuals', '_outputs', '_inputs'):
                return 'abs'        # iterating a vector yields absolute names
            return None
        if isinstance(tgt, ast.Tuple) and itn == 'abs2prom_iter' and len(tgt.elts) == 2:
            for i, e in enumerate(tgt.elts):
                if isinstance(e, ast.Name) and e.id == arg.id:
                    return ('abs', 'prom')[i]
    return None


@rule('C17.select', floor=25)
def select(repo, out):
    """Selection functions: every check_path gets (name, includes, excludes); each kind is selected under its option from names of that kind; desvars/objectives/constraints are added under exactly their options."""
    for (srel, sqn), _, optmap in PAIRS:
        s = _memo(repo, ('S', srel, sqn), lambda: Selection(repo, srel, sqn))
        f, flow = s.fn, s.flow
        # (a) check_path arguments
        for c in astx.calls(f.node):
            if astx.callee_attr(c) != 'check_path':
                continue
            at = flow.at(c)
            inc, exc = astx.arg(c, 1, 'includes'), astx.arg(c, 2, 'excludes')
            di = _derives(flow, inc, at) if inc is not None else None
            de = _derives(flow, exc, at) if exc is not None else None
            if di is None or de is None:
                if (isinstance(inc, (ast.List, ast.Tuple)) and not inc.elts) or \
                        (isinstance(exc, (ast.List, ast.Tuple)) and not exc.elts):
                    out.bad(f, c, 'check_path is given an empty literal instead of the includes/excludes option: '
                            'the user patterns are ignored', key='checkpath-args')
                else:
                    out.unsure(f, c, f'includes/excludes arguments `{astx.src(inc)}`, `{astx.src(exc)}` not resolved')
            elif di != {'includes'} or de != {'excludes'}:
                out.bad(f, c, f'check_path(name, includes, excludes) is called with includes <- options{sorted(di)} '
                        f'and excludes <- options{sorted(de)}', key='checkpath-args')
            else:
                ti, te = _transforms(flow, inc, at), _transforms(flow, exc, at)
                if ti is None or te is None:
                    out.unsure(f, c, 'rewriting of the includes/excludes patterns not recognised')
                elif sorted(k for k, _ in ti) != sorted(k for k, _ in te):
                    only = 'includes' if len(ti) > len(te) else 'excludes'
                    out.bad(f, c, f'the {only} patterns are rewritten (e.g. made relative to the system) on a path '
                            'where the other pattern list is used as given: both lists are matched against the same '
                            'names and must be rewritten under the same conditions', key='checkpath-transform')
                elif sorted(d for _, d in ti) != sorted(d for _, d in te):
                    out.unsure(f, c, 'includes and excludes are rewritten by different expressions')
                else:
                    out.ok(f, c, 'check_path(name, includes, excludes)')
        # (b) each kind under its option, from names of its kind, through a positive filter
        for K in KINDS:
            name = s.var.get(K)
            if name is None:
                out.unsure(f, s.stmt, f"value of '{K}' in the selection dictionary is not a local variable")
                continue
            ads = [(st, v) for st, v in s.adders(K) if isinstance(st, ast.Assign)]
            if not ads:
                out.bad(f, s.stmt, f"nothing is ever selected for '{K}'", key=f'select-{K}')
                continue
            probs = []
            for st, v in ads:
                inner = v.args[0] if isinstance(v, ast.Call) and astx.call_name(v) in ('sorted', 'list', 'set', 'tuple') \
                    and len(v.args) == 1 else v
                if isinstance(inner, (ast.ListComp, ast.SetComp, ast.GeneratorExp)) and len(inner.generators) == 1:
                    gen = inner.generators[0]
                    ks = _kind_marker(gen.iter)
                    okkind = K in ks or (K == 'residual' and isinstance(gen.iter, ast.Name) and
                                         gen.iter.id == s.var.get('output'))
                    if ks and not okkind:
                        probs.append(f"'{K}' names are drawn from {sorted(ks)} variables (`{astx.src(gen.iter)}`)")
                    elif not ks and not okkind:
                        probs.append(None)
                    for cond in gen.ifs:
                        neg = isinstance(cond, ast.UnaryOp) and isinstance(cond.op, ast.Not)
                        if neg and any(astx.callee_attr(c) == 'check_path' for c in astx.calls(cond)):
                            probs.append(f'filter `{astx.src(cond)}` keeps exactly the variables the patterns reject')
                    if not gen.ifs:
                        probs.append(f'`{astx.src(st, 70)}` selects without consulting includes/excludes')
                elif isinstance(inner, ast.Name):
                    if not (K == 'residual' and inner.id == s.var.get('output')):
                        probs.append(None)
                else:
                    probs.append(None)
            real = [p for p in probs if p]
            if real:
                out.bad(f, ads[0][0], f"selection of '{K}': " + '; '.join(real), key=f'select-{K}')
            elif None in probs:
                out.unsure(f, ads[0][0], f"shape of the '{K}' selection not recognised")
            else:
                out.ok(f, ads[0][0], f"'{K}' selected from {K} names through includes/excludes ({len(ads)} definition(s))")
    # (d) outputs and residuals of one requester are matched in the same name space (promoted or absolute)
    for (srel, sqn), _, optmap in PAIRS:
        s = _memo(repo, ('S', srel, sqn), lambda: Selection(repo, srel, sqn))
        f = s.fn
        forms = {}
        unknown = None
        for K in ('output', 'residual'):
            forms[K] = []
            for st, v in s.adders(K):
                if not isinstance(st, ast.Assign) or v is None:
                    continue
                for c in astx.calls(v):
                    if astx.callee_attr(c) == 'check_path' and c.args:
                        fm = name_form(c.args[0])
                        if fm is None:
                            unknown = c
                        forms[K].append((fm, c))
        if unknown is not None:
            out.unsure(f, unknown, f'name space of `{astx.src(unknown.args[0])}` not recognised')
            continue
        fo = {fm for fm, _ in forms['output']}
        if len(fo) != 1:
            out.unsure(f, s.stmt, f'outputs are matched as {sorted(fo)}')
            continue
        want = next(iter(fo))
        odd = [c for fm, c in forms['residual'] if fm != want]
        if odd:
            out.bad(f, odd[0], f'residual names are matched against includes/excludes as '
                    f'{"absolute" if want == "prom" else "promoted"} names (`{astx.src(odd[0].args[0])}`) while the '
                    f'outputs branch of the same requester matches {"promoted" if want == "prom" else "absolute"} '
                    'names: patterns that select an output do not select its residual', key='select-namespace')
        else:
            out.ok(f, forms['output'][0][1], f'outputs and residuals matched as {want} names '
                   f'({len(forms["output"])}+{len(forms["residual"])} sites)')
    # (c) variables of interest of the driver
    s = _memo(repo, ('S', DRV, 'Driver._get_vars_to_record'), lambda: Selection(repo, DRV, 'Driver._get_vars_to_record'))
    f, flow = s.fn, s.flow
    spec = VOI_SPEC
    seen = set()
    for st, v in s.adders('output'):
        a = _voi_attr(v)
        if a is None:
            continue
        seen.add(a)
        g = guard_formula(flow, st)
        okk, n, cex = boolx.equivalent(g, spec[a])
        if okk:
            out.ok(f, st, f'self.{a} recorded iff {spec[a]!r}')
        else:
            out.bad(f, st, f'self.{a} is added under [{g!r}] but the options say [{spec[a]!r}] '
                    f'(differs for {boolx.fmt_val(cex)})', key=f'voi-{a}')
    for a in spec:
        if a not in seen:
            out.bad(f, s.stmt, f'self.{a} is never added to the recorded outputs', key=f'voi-{a}')


# =========================================================================== C17.checkpath
class _Ret(Exception):
    def __init__(self, v):
        self.v = v


class _Swapped(Exception):
    pass


def _cp_eval(e, env, oracle):
    if isinstance(e, ast.Constant):
        return e.value
    if isinstance(e, ast.Name):
        if e.id in env:
            return env[e.id]
        raise _NoEval()
    if isinstance(e, ast.UnaryOp) and isinstance(e.op, ast.Not):
        return not _cp_eval(e.operand, env, oracle)
    if isinstance(e, ast.BoolOp):
        r = None
        for v in e.values:
            r = _cp_eval(v, env, oracle)
            if isinstance(e.op, ast.And) and not r:
                return r
            if isinstance(e.op, ast.Or) and r:
                return r
        return r
    if isinstance(e, ast.Call) and astx.callee_attr(e) in ('fnmatchcase', 'fnmatch') and len(e.args) == 2:
        a, b = _cp_eval(e.args[0], env, oracle), _cp_eval(e.args[1], env, oracle)
        if a == 'PATH' and isinstance(b, tuple):
            return oracle[b]
        if b == 'PATH' and isinstance(a, tuple):
            raise _Swapped()
        raise _NoEval()
    if isinstance(e, ast.Call) and astx.call_name(e) == 'any' and len(e.args) == 1 and \
            isinstance(e.args[0], (ast.GeneratorExp, ast.ListComp)) and len(e.args[0].generators) == 1:
        gen = e.args[0].generators[0]
        if isinstance(gen.target, ast.Name) and not gen.ifs:
            for x in _cp_eval(gen.iter, env, oracle):
                if _cp_eval(e.args[0].elt, dict(env, **{gen.target.id: x}), oracle):
                    return True
            return False
    raise _NoEval()


def _cp_exec(body, env, oracle):
    for st in body:
        if astx.is_docstring(st):
            continue
        if isinstance(st, ast.Return):
            raise _Ret(_cp_eval(st.value, env, oracle) if st.value is not None else None)
        if isinstance(st, ast.If):
            _cp_exec(st.body if _cp_eval(st.test, env, oracle) else st.orelse, env, oracle)
        elif isinstance(st, ast.For) and isinstance(st.target, ast.Name) and not st.orelse:
            for x in _cp_eval(st.iter, env, oracle):
                env[st.target.id] = x
                _cp_exec(st.body, env, oracle)
        elif isinstance(st, ast.Pass):
            pass
        else:
            raise _NoEval()


@rule('C17.checkpath', floor=1)
def checkpath(repo, out):
    """check_path(path, includes, excludes, all): False if an exclude pattern matches, else True if `all` or an include pattern matches, else False (decided on all match patterns of up to 2+2 patterns)."""
    f = repo.func(RUTIL, 'check_path')
    ps = [a.arg for a in f.node.args.args]
    if len(ps) != 4:
        raise AnalysisError('check_path signature changed')
    n = 0
    bad = None
    try:
        for ne, ni in itertools.product(range(3), range(3)):
            for me in itertools.product((False, True), repeat=ne):
                for mi in itertools.product((False, True), repeat=ni):
                    for flag in (False, True):
                        ex = [('e', k) for k in range(ne)]
                        inc = [('i', k) for k in range(ni)]
                        oracle = {**{('e', k): me[k] for k in range(ne)}, **{('i', k): mi[k] for k in range(ni)}}
                        env = {ps[0]: 'PATH', ps[1]: inc, ps[2]: ex, ps[3]: flag}
                        try:
                            _cp_exec(f.node.body, env, oracle)
                            got = None
                        except _Ret as r:
                            got = r.v
                        want = False if any(me) else (True if flag else any(mi))
                        n += 1
                        if bool(got) != want and bad is None:
                            bad = (f'returns {got!r} for exclude matches {list(me)}, include matches {list(mi)}, '
                                   f'include_all_path={flag}; expected {want}')
    except _Swapped:
        bad = 'fnmatchcase is called as (pattern, path): the variable name is used as the glob'
    except (_NoEval, TypeError):
        out.unsure(f, f.node, 'body of check_path outside the interpreted fragment')
        return
    out.count('abstract_states', n)
    if bad:
        out.bad(f, f.node, 'check_path ' + bad, key='check-path')
    else:
        out.ok(f, f.node, f'excluded wins, else included: {n} match patterns')


# =========================================================================== C17.options
DECLARERS = {'System': (SYS, 'System.__init__'), 'Solver': (SLV, 'Solver.__init__'),
             'Driver': (DRV, 'Driver.__init__'), 'Problem': (PRB, 'Problem.__init__')}
# functions that serve two requester kinds (reason: they receive the requester as an argument)
SHARED = {(DRV, 'Driver._get_vars_to_record'): ('Driver', 'Problem'),
          (DRV, 'record_iteration'): ('Driver', 'Problem')}
READ_FILES = [SYS, SLV, DRV, PRB, CREC, REC, 'openmdao/core/group.py', 'openmdao/core/component.py',
              'openmdao/core/total_jac.py', 'openmdao/drivers/doe_driver.py',
              'openmdao/drivers/analysis_driver.py']


def declared_options(repo):
    out = {}
    for kind, (rel, qn) in DECLARERS.items():
        f = repo.func(rel, qn)
        ks = {}
        for c in astx.calls(f.node):
            if astx.callee_attr(c) == 'declare' and astx.path(astx.receiver(c)) == 'self.recording_options' and c.args:
                k = astx.const_str(c.args[0])
                if k:
                    ks[k] = c
        if not ks:
            raise AnalysisError(f'{f.ident}: no recording_options.declare')
        out[kind] = (f, ks)
    return out


def _read_kinds(repo, f, base, n):
    """Requester kinds an option read `base['k']` in function f is made for."""
    key = (f.rel, f.qualname)
    if key in SHARED:
        # inside `if isinstance(requester, Problem)` only the Problem
        for test, pol in guards(astx.stmt_of(n), f.node):
            for a, apol in conjuncts(test, pol):
                if apol and isinstance(a, ast.Call) and astx.call_name(a) == 'isinstance' and len(a.args) == 2 and \
                        isinstance(a.args[1], ast.Name) and a.args[1].id in DECLARERS:
                    return (a.args[1].id,)
        return SHARED[key]
    root = base
    while isinstance(root, (ast.Attribute, ast.Subscript, ast.Call)):
        root = root.value if not isinstance(root, ast.Call) else root.func
    rn = root.id if isinstance(root, ast.Name) else ''
    if rn == 'self' and f.cls is not None:
        for kind, (rel, qn) in DECLARERS.items():
            try:
                if (rel, kind) in repo.mro(f.rel, f.qualname.split('.')[0]):
                    return (kind,)
            except Exception:
                pass
        return ()
    named = {'system': 'System', 'problem': 'Problem', 'prob': 'Problem', 'driver': 'Driver', 'solver': 'Solver'}
    return (named[rn],) if rn in named else ()


@rule('C17.options', floor=35)
def options(repo, out):
    """Every recording option declared for a requester kind is consulted by the selection/recording code of that kind, and no undeclared key is consulted."""
    decl = declared_options(repo)
    read = {k: set() for k in decl}
    sites = []
    for rel in READ_FILES:
        if not repo.exists(rel):
            continue
        if 'recording_options' not in repo.source(rel):
            continue
        m = repo.module(rel)
        for f in m.funcs.values():
            if not any(isinstance(n, ast.Attribute) and n.attr == 'recording_options' for n in astx.walk(f.node)):
                continue
            flow = None
            for n in astx.walk(f.node):
                if not (isinstance(n, ast.Subscript) and isinstance(n.ctx, ast.Load) and astx.const_str(n.slice)):
                    continue
                p = astx.path(n.value)
                isopt = bool(p and p.endswith('.recording_options'))
                if not isopt and isinstance(n.value, ast.Name):
                    if flow is None:
                        flow = Flow(f)
                    try:
                        isopt = _is_recopts(flow, n.value, flow.at(n))
                    except AnalysisError:
                        isopt = False
                if not isopt:
                    continue
                base, where, hops = n.value, None, 0
                while isinstance(base, ast.Name) and hops < 3:
                    e, d = flow.single(base.id, where if where is not None else flow.at(n))
                    if e is None:
                        break
                    base, where, hops = e, d, hops + 1
                kinds = _read_kinds(repo, f, base, n)
                k = astx.const_str(n.slice)
                for kd in kinds:
                    read[kd].add(k)
                sites.append((f, n, k, kinds))
    for kind, (f, ks) in decl.items():
        for k, c in sorted(ks.items()):
            if k in read[kind]:
                out.ok(f, c, f"{kind} option '{k}' is consulted")
            else:
                out.bad(f, c, f"{kind} recording option '{k}' is declared but no selection/recording code of a "
                        f'{kind} reads it: setting it has no effect on what is recorded', key=f'option-{kind}-{k}')
    for f, n, k, kinds in sites:
        if not kinds:
            continue
        # `'k' in recording_options` guard makes the read conditional on the declaration
        guarded = False
        for test, pol in guards(astx.stmt_of(n), f.node):
            for a, apol in conjuncts(test, pol):
                if apol and isinstance(a, ast.Compare) and isinstance(a.ops[0], ast.In) and astx.const_str(a.left) == k:
                    guarded = True
        miss = [kd for kd in kinds if k not in decl[kd][1]]
        if miss and not guarded:
            out.bad(f, n, f"reads recording option '{k}' which {miss} never declares (KeyError when recording)",
                    key=f'undeclared-{k}')


# =========================================================================== C17.retrieve
@rule('C17.retrieve', floor=10)
def retrieve(repo, out):
    """_retrieve_data_of_kind stores, under each name, the value fetched for that same name from the vector selected by (kind, vec_name)."""
    f = repo.func(SYS, 'System._retrieve_data_of_kind')
    flow = Flow(f)
    ps = flow.params
    if len(ps) < 4:
        raise AnalysisError('signature of _retrieve_data_of_kind changed')
    pfilt, pkind, pvec = ps[1], ps[2], ps[3]
    rets = {st.value.id for st in astx.walk_stmts(f.node.body) if isinstance(st, ast.Return) and
            isinstance(st.value, ast.Name)}
    if len(rets) != 1:
        raise AnalysisError('returned dictionary not identified')
    res = rets.pop()
    # the vector
    vec_names = set()
    for st in astx.walk_stmts(f.node.body):
        if isinstance(st, ast.Assign) and len(st.targets) == 1 and isinstance(st.targets[0], ast.Name) and \
                isinstance(st.value, ast.Subscript) and isinstance(st.value.value, ast.Subscript) and \
                astx.path(st.value.value.value) == 'self._vectors':
            k, v = st.value.value.slice, st.value.slice
            if isinstance(k, ast.Name) and k.id == pkind and isinstance(v, ast.Name) and v.id == pvec:
                out.ok(f, st, f'vector selected by ({pkind}, {pvec})')
                vec_names.add(st.targets[0].id)
            else:
                out.bad(f, st, f'vector is `{astx.src(st.value)}`, not self._vectors[{pkind}][{pvec}]: values of '
                        'another kind are stored under the requested names', key='retrieve-vec')
                vec_names.add(st.targets[0].id)
    if not vec_names:
        raise AnalysisError('vector lookup self._vectors[kind][vec_name] not found')
    # the variable list
    for st in astx.walk_stmts(f.node.body):
        if isinstance(st, ast.Assign) and isinstance(st.value, ast.Call) and \
                astx.call_name(st.value) == f'{pfilt}.get' and st.value.args:
            a = st.value.args[0]
            if not (isinstance(a, ast.Name) and a.id == pkind):
                out.bad(f, st, f'variables are taken from filtered_vars[{astx.src(a)}], not from the requested kind',
                        key='retrieve-list')
    # stores
    for st in astx.walk_stmts(f.node.body):
        if not (isinstance(st, ast.Assign) and len(st.targets) == 1 and isinstance(st.targets[0], ast.Subscript)
                and astx.path(st.targets[0].value) == res):
            continue
        K = st.targets[0].slice
        v = st.value
        if not isinstance(K, ast.Name):
            out.unsure(f, st, 'key is not a plain name')
            continue
        at = flow.g.nodes_of(st)[0]
        if isinstance(v, ast.Call):
            a0 = v.args[0] if v.args else None
            kw = astx.kwarg(v, 'kind')
            if isinstance(a0, ast.Name) and a0.id == K.id:
                # getter must read the vector of the requested kind, or the output vector for a source name
                fnp = astx.path(v.func)
                if isinstance(v.func, ast.Name):
                    e, _ = flow.single(v.func.id, at)
                    fnp = astx.path(e) if e is not None else None
                okget = fnp is not None and (
                    any(fnp == f'{vn}._abs_get_val' for vn in vec_names) or
                    fnp == f"self._vectors['output'][*]._abs_get_val" or
                    fnp in ('self._abs_get_val', 'self.get_val'))
                if not okget:
                    out.unsure(f, st, f'getter `{astx.src(v.func)}` not recognised')
                elif fnp in ('self._abs_get_val', 'self.get_val') and not (
                        isinstance(kw, ast.Name) and kw.id == pkind):
                    out.bad(f, st, f'value fetched with kind={astx.src(kw)} instead of the requested kind',
                            key='retrieve-kind')
                else:
                    out.ok(f, st, f'{res}[{K.id}] = value of {K.id}')
            elif isinstance(a0, ast.Name) and astx.const_str(kw) == 'output':
                out.ok(f, st, f'{res}[{K.id}] = value of its source `{a0.id}` (explicit kind="output")')
            elif isinstance(a0, ast.Name):
                out.bad(f, st, f'value of `{a0.id}` is stored under the name `{K.id}`', key='retrieve-key')
            else:
                out.unsure(f, st, 'fetched name not recognised')
        elif isinstance(v, ast.Subscript):
            ns = [n.id for n in astx.walk(v.value) if isinstance(n, ast.Subscript) and isinstance(n.slice, ast.Slice)
                  and isinstance(n.value, ast.Name) for n in [n.value]]
            if ns and all(x == K.id for x in ns):
                out.ok(f, st, f'{res}[{K.id}] = discrete value of {K.id}')
            elif ns:
                out.bad(f, st, f'discrete value of `{ns[0]}` is stored under the name `{K.id}`', key='retrieve-key')
            else:
                out.unsure(f, st, 'discrete lookup not recognised')
        else:
            out.unsure(f, st, 'stored value not recognised')


# =========================================================================== C17.route
COUNTER_WRITERS = {(CREC, 'CaseRecorder.__init__'): 'initialised to 0',
                   (CREC, 'CaseRecorder.startup'): 'reset to 0 before the first case of a requester',
                   (CREC, 'CaseRecorder.record_iteration'): 'incremented once per recorded case'}
ROUTE_FILES = [CREC, REC, 'openmdao/recorders/recording_manager.py']


@rule('C17.route', floor=8)
def route(repo, out):
    """CaseRecorder.record_iteration bumps the global counter exactly once before routing requester class X to record_iteration_<x>, which stores into the <x> table; nobody else writes the counter."""
    sch = Schema(repo)
    f = repo.func(CREC, 'CaseRecorder.record_iteration')
    g = cfgm.build(f)

    def is_inc(n):
        return n.kind == 'stmt' and isinstance(n.ast, ast.AugAssign) and astx.path(n.ast.target) == 'self._counter'
    incs = g.where(is_inc)
    good = [n for n in incs if isinstance(n.ast.op, ast.Add) and isinstance(n.ast.value, ast.Constant) and
            n.ast.value.value == 1]
    # table written by each record_iteration_<x> of the sqlite recorder
    stored = {}
    for fr, lit, c, cases in inserted_record_types(repo, sch):
        stored[fr.qualname.split('.')[-1]] = (lit, [s2.table for _, s2 in cases])
    routes = []
    for n in g.nodes:
        if n.kind == 'stmt':
            for c in n.calls():
                nm = astx.callee_attr(c) or ''
                if nm.startswith('record_iteration_') and astx.path(astx.receiver(c)) == 'self':
                    routes.append((n, c, nm))
    if not routes:
        raise AnalysisError(f'{f.ident}: no record_iteration_<kind> call')
    for n, c, nm in routes:
        kind = nm[len('record_iteration_'):]
        # class tested by the enclosing isinstance branch
        cls = None
        for test, pol in guards(n.ast, f.node):
            if pol and isinstance(test, ast.Call) and astx.call_name(test) == 'isinstance' and len(test.args) == 2 \
                    and isinstance(test.args[1], ast.Name):
                cls = test.args[1].id
                break
        w = g.path([g.entry], [n], avoid=good)
        twice = any(set(g.reach(g.normal_succ(i), labels=cfgm.noexc)) & set(incs) for i in incs)
        if len(good) != len(incs):
            out.bad(f, incs[0].ast, 'self._counter is changed by something other than `+= 1`', key='route-counter')
        elif w is not None:
            out.bad(f, c, f'{nm} can be reached without incrementing self._counter: the case gets the counter of '
                    'the previous case and the hierarchy walk of the reader stops one global iteration early: ' +
                    g.fmt_path(w), key='route-counter')
        elif twice:
            out.bad(f, c, 'self._counter is incremented twice for one case: counters run ahead of the rows of '
                    'global_iterations', key='route-counter')
        elif cls is None:
            out.unsure(f, c, f'{nm} is not inside an isinstance branch')
        elif cls.lower() != kind:
            out.bad(f, c, f'a {cls} requester is routed to {nm}', key=f'route-{cls}')
        elif nm in stored and (stored[nm][0] != kind or any(prefix(t) != kind for t in stored[nm][1])):
            out.bad(f, c, f'{nm} stores into {stored[nm][1]} as record_type {stored[nm][0]!r}', key=f'route-{cls}')
        elif nm not in stored:
            out.unsure(f, c, f'SqliteRecorder.{nm} does not insert into global_iterations')
        else:
            out.ok(f, c, f'{cls} -> {nm} -> {stored[nm][1][0]} / {kind!r}, counter += 1 first')
    # a reset (direct, or through super().startup()) only on the not-yet-started path of SqliteRecorder.startup
    base = repo.func(CREC, 'CaseRecorder.startup')
    base_resets = any(isinstance(t, ast.Attribute) and t.attr == '_counter'
                      for st in astx.walk_stmts(base.node.body) if isinstance(st, (ast.Assign, ast.AugAssign))
                      for t in astx.assigned_targets(st))
    sf = repo.func(REC, 'SqliteRecorder.startup')
    sg = cfgm.build(sf)

    def resets(n):
        if n.kind == 'stmt' and isinstance(n.ast, (ast.Assign, ast.AugAssign)) and \
                any(isinstance(t, ast.Attribute) and t.attr == '_counter' for t in astx.assigned_targets(n.ast)):
            return True
        return base_resets and any(astx.callee_attr(c) == 'startup' and isinstance(astx.receiver(c), ast.Call) and
                                   astx.call_name(astx.receiver(c)) == 'super' for c in n.calls())
    rnodes = sg.where(resets)

    def started_test(n):
        """+1 / -1 if node tests  x in self._started  /  x not in self._started ; else 0."""
        if n.kind != 'test' or not isinstance(n.ast, ast.If):
            return 0
        t, sign = n.ast.test, 1
        if isinstance(t, ast.UnaryOp) and isinstance(t.op, ast.Not):
            t, sign = t.operand, -1
        if isinstance(t, ast.Compare) and len(t.ops) == 1 and isinstance(t.ops[0], (ast.In, ast.NotIn)) and \
                astx.path(t.comparators[0]) == 'self._started':
            return sign * (1 if isinstance(t.ops[0], ast.In) else -1)
        return 0
    tests = [n for n in sg.nodes if started_test(n)]
    if not rnodes:
        out.unsure(sf, sf.node, 'SqliteRecorder.startup neither resets the counter nor calls super().startup()')
    elif not tests:
        out.bad(sf, rnodes[0].ast, 'the case counter is reset on every startup: there is no `in self._started` '
                'guard, so a second final_setup restarts Case.counter while global_iterations keeps growing',
                key='counter-restart')
    else:
        started_side = [m for t in tests for m, lab in sg.succ[t]
                        if lab == ('true' if started_test(t) > 0 else 'false')]
        reach_started = sg.reach(started_side, labels=cfgm.noexc)
        for rn in rnodes:
            w = sg.dominated_by(rn, tests, labels=cfgm.noexc)
            if w is not None:
                out.bad(sf, rn.ast, 'the case counter is reset (`' + astx.src(rn.ast, 60) + '`) before the '
                        '`in self._started` test: every later final_setup with the same recorder restarts '
                        'Case.counter, so counters repeat and the hierarchy walk of the reader (range(0, counter)) '
                        'drops the cases of later runs', key='counter-restart')
            elif rn in reach_started:
                out.bad(sf, rn.ast, 'the case counter is reset on the already-started path', key='counter-restart')
            else:
                out.ok(sf, rn.ast, 'counter reset only when this requester has not been started before')
    # who writes the counter
    for rel in ROUTE_FILES:
        if not repo.exists(rel):
            continue
        m = repo.module(rel)
        for fn in m.funcs.values():
            for st in astx.walk_stmts(fn.node.body):
                if isinstance(st, (ast.Assign, ast.AugAssign)):
                    for t in astx.assigned_targets(st):
                        if isinstance(t, ast.Attribute) and t.attr == '_counter':
                            key = (rel, fn.qualname)
                            if key not in COUNTER_WRITERS:
                                out.bad(fn, st, 'writes the recorder\'s global case counter outside '
                                        'CaseRecorder.__init__/startup/record_iteration: Case.counter no longer '
                                        'equals the position in global_iterations', key='counter-writer')
                            elif isinstance(st, ast.Assign) and not (isinstance(st.value, ast.Constant) and
                                                                      st.value.value == 0):
                                out.bad(fn, st, 'global case counter is (re)set to something other than 0',
                                        key='counter-writer')
                            else:
                                out.ok(fn, st, COUNTER_WRITERS[key])


# =========================================================================== C17.parent
@rule('C17.parent', floor=3)
def parent(repo, out):
    """Parent coordinates drop exactly the number of '|'-separated parts one stack level contributes to an iteration coordinate."""
    f = repo.func('openmdao/recorders/recording_iteration_stack.py', '_RecIteration.get_formatted_iteration_coordinate')
    flow = Flow(f)
    per_level = None
    for st in astx.walk_stmts(f.node.body):
        if isinstance(st, ast.For) and astx.path(st.iter) == 'self.stack':
            for c in astx.calls(st):
                if astx.callee_attr(c) == 'append' and c.args and isinstance(c.args[0], ast.Call) and \
                        astx.callee_attr(c.args[0]) == 'format' and astx.const_str(astx.receiver(c.args[0])) is not None:
                    fmt = c.args[0]
                    nsep = 0
                    for a in fmt.args:
                        if isinstance(a, ast.Name):
                            e, _ = flow.single(a.id, flow.at(c))
                            if e is not None and astx.const_str(e) == '|':
                                nsep += 1
                    if astx.const_str(astx.receiver(fmt)).count('{}') == len(fmt.args):
                        per_level = nsep + 1
    if per_level is None:
        raise AnalysisError(f'{f.ident}: shape of one coordinate level not recognised')
    sites = [(CASE, 'Case.__init__'), (RDR, 'SqliteCaseReader._list_cases_recurse_nested')]
    for rel, qn in sites:
        fn = repo.func(rel, qn)
        for n in astx.walk(fn.node):
            if isinstance(n, ast.Call) and astx.callee_attr(n) == 'join' and astx.const_str(astx.receiver(n)) == '|' \
                    and n.args and isinstance(n.args[0], ast.Subscript) and isinstance(n.args[0].slice, ast.Slice):
                sl = n.args[0].slice
                up = astx.canon(sl.upper) if sl.upper is not None else None
                if sl.lower is None and sl.step is None and isinstance(up, ast.Constant) and \
                        isinstance(up.value, int):
                    if up.value == -per_level:
                        out.ok(fn, astx.stmt_of(n), f'parent = coordinate without its last {per_level} parts')
                    else:
                        out.bad(fn, astx.stmt_of(n), f'parent coordinate drops {-up.value} part(s) but one level of '
                                f'an iteration coordinate has {per_level} (name|count)', key='parent-parts')
                else:
                    out.unsure(fn, astx.stmt_of(n), 'slice of the coordinate parts not recognised')


# =========================================================================== C17.phys
PHYS_FILES = [SYS, SLV, DRV, PRB, 'openmdao/core/group.py', 'openmdao/core/component.py']
# record_iteration functions that run outside any solve, i.e. with the root vectors in the physical state
PHYS_CALLED = {(DRV, 'record_iteration'): 'called by Driver.record_iteration / Problem.record at driver level, after '
               'run_solve_nonlinear has left its scaled context'}
_VEC_ATTR = {'_outputs': ('output', 'nonlinear'), '_residuals': ('residual', 'nonlinear'),
             '_inputs': ('input', 'nonlinear'), '_doutputs': ('output', 'linear'),
             '_dresiduals': ('residual', 'linear'), '_dinputs': ('input', 'linear')}
_GETTERS = {'get_nonlinear_vectors': 'nonlinear', 'get_linear_vectors': 'linear'}


def _vec_name_value(flow, e, at, near=None):
    """Constant vector name ('nonlinear'/'linear') or ('var', name) of a vec_name expression; None if unknown.

    near: a statement; a constant assigned to the variable in the same statement list wins (branch correlation).
    """
    if astx.const_str(e) is not None:
        return astx.const_str(e)
    if isinstance(e, ast.Name):
        if near is not None:
            par = getattr(near, '_parent', None)
            for fld in ('body', 'orelse'):
                lst = getattr(par, fld, None)
                if isinstance(lst, list) and any(near is x for x in lst):
                    for st in lst:
                        if isinstance(st, ast.Assign) and len(st.targets) == 1 and astx.path(st.targets[0]) == e.id \
                                and astx.const_str(st.value) is not None:
                            return astx.const_str(st.value)
            # role variable chosen first, vectors selected by testing it:  if vec_name == 'linear': ... else: ...
            consts = {astx.const_str(st.value) for st in astx.walk_stmts(flow.fn.node.body)
                      if isinstance(st, ast.Assign) and len(st.targets) == 1 and astx.path(st.targets[0]) == e.id}
            if None not in consts and consts:
                for test, pol in guards(near, flow.fn.node):
                    for a, apol in conjuncts(test, pol):
                        if isinstance(a, ast.Compare) and len(a.ops) == 1 and isinstance(a.ops[0], (ast.Eq, ast.NotEq)):
                            l, r = a.left, a.comparators[0]
                            if isinstance(r, ast.Name) and r.id == e.id:
                                l, r = r, l
                            if isinstance(l, ast.Name) and l.id == e.id and astx.const_str(r) in consts:
                                eq = apol == isinstance(a.ops[0], ast.Eq)
                                if eq:
                                    return astx.const_str(r)
                                rest = consts - {astx.const_str(r)}
                                if len(rest) == 1:
                                    return next(iter(rest))
        v, _ = flow.single(e.id, at)
        if v is not None and astx.const_str(v) is not None:
            return astx.const_str(v)
        return ('var', e.id)
    return None


def _vec_ident(flow, e, at, vname, depth=0):
    """Set of (kind, matches-vec_name?) a vector expression can denote; None if not recognised.

    vname: the vec_name argument expression of the reads.
    """
    want = _vec_name_value(flow, vname, at)
    if isinstance(e, ast.Subscript) and isinstance(e.value, ast.Subscript) and \
            (apath(flow, e.value.value, at) or '').endswith('._vectors'):
        kind = astx.const_str(e.value.slice)
        got = _vec_name_value(flow, e.slice, at)
        if kind is None or got is None or want is None:
            return None
        return {(kind, got == want)}
    if isinstance(e, ast.Attribute) and e.attr in _VEC_ATTR:
        kind, vn = _VEC_ATTR[e.attr]
        return {(kind, vn == want)} if isinstance(want, str) else None
    if isinstance(e, ast.Name) and depth < 3:
        out = set()
        vs = flow.values(e.id, at)
        if not vs:
            return None
        for v in vs:
            if v[0] == 'other' and getattr(v[1], 'kind', None) == 'stmt' and isinstance(v[1].ast, ast.Assign):
                val, d = v[1].ast.value, v[1]       # tuple target unpacking a call result
            elif v[0] == 'expr':
                val, d = v[1], v[2]
            else:
                return None
            if isinstance(val, ast.Call) and astx.callee_attr(val) in _GETTERS:
                # tuple unpacking  inputs, outputs, residuals = X.get_*_vectors()
                tg = d.ast.targets[0] if isinstance(d.ast, ast.Assign) else None
                if not isinstance(tg, ast.Tuple) or len(tg.elts) != 3:
                    return None
                idx = [i for i, t in enumerate(tg.elts) if astx.path(t) == e.id]
                if len(idx) != 1:
                    return None
                w = _vec_name_value(flow, vname, at, near=d.ast)
                if not isinstance(w, str):
                    return None
                out.add((('input', 'output', 'residual')[idx[0]], _GETTERS[astx.callee_attr(val)] == w))
            else:
                r = _vec_ident(flow, val, d, vname, depth + 1)
                if r is None:
                    return None
                out |= r
        return out
    return None


@rule('C17.phys', floor=2)
def phys(repo, out):
    """record_iteration methods that read vectors through _retrieve_data_of_kind do so, and hand the data to the recorders, inside _unscaled_context(outputs=[output vec], residuals=[residual vec]) of the same vec_name."""
    found = 0
    for rel in PHYS_FILES:
        if not repo.exists(rel) or '_retrieve_data_of_kind' not in repo.source(rel):
            continue
        m = repo.module(rel)
        for f in m.funcs.values():
            if f.node.name != 'record_iteration':
                continue
            reads = [c for c in astx.calls(f.node) if astx.callee_attr(c) == '_retrieve_data_of_kind']
            # one level of helper: self.<h>(...) whose body does the reads
            if f.cls is not None:
                cls = f.qualname.rsplit('.', 1)[0]
                for c in astx.calls(f.node):
                    if astx.path(astx.receiver(c)) == 'self':
                        h = m.funcs.get(f'{cls}.{astx.callee_attr(c)}')
                        if h is not None and h is not f and any(
                                astx.callee_attr(x) == '_retrieve_data_of_kind' for x in astx.calls(h.node)):
                            reads.append(c)
            if not reads:
                continue
            found += 1
            if (rel, f.qualname) in PHYS_CALLED:
                out.ok(f, reads[0], 'physical state: ' + PHYS_CALLED[(rel, f.qualname)])
                continue
            key = 'record-scaled-' + (f.qualname.split('.')[0].lower() if f.cls is not None else f.qualname)
            flow = func_flow(repo, f)
            hands = [c for c in astx.calls(f.node) if astx.callee_attr(c) == 'record_iteration' and
                     (apath(flow, astx.receiver(c)) or '').endswith('._rec_mgr')]
            if not hands:
                out.unsure(f, f.node, 'no hand-over to _rec_mgr.record_iteration found')
                continue

            def ctx_of(node):
                for a in astx.ancestors(node):
                    if isinstance(a, ast.With):
                        for it in a.items:
                            ce = it.context_expr
                            if isinstance(ce, ast.Call) and astx.callee_attr(ce) == '_unscaled_context':
                                return a, ce
                    if a is f.node:
                        break
                return None, None
            problem = None
            withs = {}
            for c in reads + hands:
                w, ce = ctx_of(c)
                if w is None:
                    what = 'vector read' if c in reads else 'hand-over to the recorders (the dictionary holds views)'
                    problem = (c, f'{what} `{astx.src(c, 70)}` is outside any _unscaled_context: this method runs '
                               'inside the solve (Recording.__exit__) where outputs/residuals are in the scaled '
                               'state, so (y-ref0)/(ref-ref0) is recorded instead of y')
                    break
                withs[id(w)] = (w, ce)
            if problem is None and len(withs) != 1:
                problem = (reads[0], 'reads and hand-over are spread over several _unscaled_context blocks: views '
                           'taken in one block are rescaled when it exits')
            undec = None
            if problem is None:
                w, ce = next(iter(withs.values()))
                vnames = {astx.dump(astx.arg(c, 2, 'vec_name')) for c in reads
                          if astx.callee_attr(c) == '_retrieve_data_of_kind' and astx.arg(c, 2, 'vec_name') is not None}
                vexpr = next((astx.arg(c, 2, 'vec_name') for c in reads
                              if astx.callee_attr(c) == '_retrieve_data_of_kind'), None)
                if vexpr is None or len(vnames) != 1:
                    undec = 'vec_name of the reads not identified'
                else:
                    at = flow.g.nodes_of(w)[0]
                    for argname, pos, kind in (('outputs', 0, 'output'), ('residuals', 1, 'residual')):
                        lst = astx.arg(ce, pos, argname)
                        if lst is None or (isinstance(lst, (ast.List, ast.Tuple)) and not lst.elts):
                            problem = (ce, f'_unscaled_context is entered without {argname}=[...]: the {kind} vector '
                                       'stays scaled while it is recorded')
                            break
                        if not isinstance(lst, (ast.List, ast.Tuple)):
                            undec = f'{argname} argument is not a literal list'
                            break
                        ids = set()
                        for e in lst.elts:
                            r = _vec_ident(flow, e, at, vexpr)
                            if r is None:
                                undec = f'vector `{astx.src(e)}` not identified'
                                break
                            ids |= r
                        if undec:
                            break
                        if (kind, True) not in ids or any(k == kind and not okv for k, okv in ids):
                            have = sorted(f"{k}/{'same vec_name' if okv else 'other vec_name'}" for k, okv in ids)
                            problem = (ce, f'{argname}=[{", ".join(astx.src(e) for e in lst.elts)}] denotes {have}: the '
                                       f'{kind} vector selected by `{astx.src(vexpr)}` (the one the reads use) is not '
                                       'the one put into the physical state')
                            break
            if problem:
                out.bad(f, problem[0], problem[1], key=key)
            elif undec:
                out.unsure(f, f.node, undec)
            else:
                out.ok(f, next(iter(withs.values()))[0], 'reads and hand-over inside _unscaled_context(outputs, residuals) '
                       'of the vec_name that is read')
    if found == 0:
        raise AnalysisError('no record_iteration reading vectors through _retrieve_data_of_kind found')


# =========================================================================== C17.units
def _flows_through_conns(block, expr, depth=0):
    """True if expr, with the locals assigned inside *block* expanded, reads the input->source map `_conns`."""
    if any(isinstance(n, ast.Attribute) and n.attr == '_conns' for n in astx.walk(expr)):
        return True
    if depth > 3:
        return False
    for nm in astx.names(expr):
        for st in astx.walk_stmts(block):
            if isinstance(st, ast.Assign) and any(astx.path(t) == nm for t in astx.assigned_targets(st)):
                if _flows_through_conns(block, st.value, depth + 1):
                    return True
    return False


def _prom_branch(repo, f, kind):
    """if-stmt of f guarded by  name in <self._prom2abs>['kind']  (positive conjunct; the mapping may be aliased)."""
    name = [a.arg for a in f.node.args.args][1]
    flow = func_flow(repo, f)
    for st in astx.walk_stmts(f.node.body):
        if not isinstance(st, ast.If):
            continue
        for a, pol in conjuncts(st.test):
            if pol and isinstance(a, ast.Compare) and len(a.ops) == 1 and isinstance(a.ops[0], ast.In) and \
                    isinstance(a.left, ast.Name) and a.left.id == name:
                p = apath(flow, a.comparators[0], flow.g.nodes_of(st)[0]) or ''
                if p == f"self._prom2abs[{kind!r}]":
                    return st
    return None


NAME_CLASSES = {   # kinds of names a user can pass to Case.get_val, as membership facts
    'absolute input': dict(meta=True, p2a_in=False, a2p_in=True, p2a_out=False, a2p_out=False, out=False),
    'absolute input that is its own promoted name': dict(meta=True, p2a_in=True, a2p_in=True, p2a_out=False,
                                                        a2p_out=False, out=False),
    'promoted input': dict(meta=False, p2a_in=True, a2p_in=False, p2a_out=False, a2p_out=False, out=False),
    'absolute output': dict(meta=True, p2a_in=False, a2p_in=False, p2a_out=False, a2p_out=True, out=True),
    'promoted output': dict(meta=False, p2a_in=False, a2p_in=False, p2a_out=True, a2p_out=False, out=True),
}
_MEMBER_ATOMS = {"self._prom2abs['input']": 'p2a_in', "self._prom2abs['output']": 'p2a_out',
                 "self._abs2prom['input']": 'a2p_in', "self._abs2prom['output']": 'a2p_out',
                 'self._abs2meta': 'meta', 'self._var_info': None}


def _member_eval(flow, test, name, facts, at):
    """Truth value of a guard made of  name [not] in <mapping>  atoms for one name class; _NoEval if unknown."""
    if isinstance(test, ast.BoolOp):
        vals = [_member_eval(flow, v, name, facts, at) for v in test.values]
        return all(vals) if isinstance(test.op, ast.And) else any(vals)
    if isinstance(test, ast.UnaryOp) and isinstance(test.op, ast.Not):
        return not _member_eval(flow, test.operand, name, facts, at)
    if isinstance(test, ast.Constant) and isinstance(test.value, bool):
        return test.value
    if isinstance(test, ast.Compare) and len(test.ops) == 1:
        op, l, r = test.ops[0], test.left, test.comparators[0]
        if isinstance(op, (ast.In, ast.NotIn)) and isinstance(l, ast.Name) and l.id == name:
            p = apath(flow, r, at)
            if p in _MEMBER_ATOMS:
                k = _MEMBER_ATOMS[p]
                v = facts[k] if k is not None else False
                return v if isinstance(op, ast.In) else not v
        if isinstance(op, (ast.Is, ast.IsNot)) and isinstance(r, ast.Constant) and r.value is None and \
                apath(flow, l, at) in ('self.outputs', 'self.inputs'):
            return isinstance(op, ast.IsNot)     # the recorded tables are present
    raise _NoEval()


def _units_walk(flow, stmts, name, facts):
    """'source' | 'own' | 'raise' | None: what _get_units returns for a name class (first matching branch)."""
    for st in stmts:
        if astx.is_docstring(st):
            continue
        if isinstance(st, ast.If):
            at = flow.g.nodes_of(st)[0]
            branch = st.body if _member_eval(flow, st.test, name, facts, at) else st.orelse
            r = _units_walk(flow, branch, name, facts)
            if r is not None:
                return r
        elif isinstance(st, ast.Return):
            if st.value is None:
                return 'own'
            blk = astx.enclosing(st, (ast.If, ast.FunctionDef))
            body = blk.body if not isinstance(blk, ast.If) or any(st is x for x in astx.walk_stmts(blk.body)) \
                else blk.orelse
            return 'source' if _flows_through_conns(body, st.value) else 'own'
        elif isinstance(st, ast.Raise):
            return 'raise'
        elif isinstance(st, (ast.Assign, ast.Expr, ast.Pass)):
            continue
        else:
            raise _NoEval()
    return None


@rule('C17.units', floor=5)
def units(repo, out):
    """Case.get_val converts from the units of the variable the value was taken from, for every kind of name (absolute/promoted input or output): value and units are both the variable's own or both those of the connected source."""
    gv = repo.func(CASE, 'Case.get_val')
    if not any(astx.callee_attr(c) == '_get_units' for c in astx.calls(gv.node)):
        raise AnalysisError('Case.get_val no longer takes its base units from Case._get_units')
    fv = repo.func(CASE, 'Case.__getitem__')
    fu = repo.func(CASE, 'Case._get_units')
    flv, flu = func_flow(repo, fv), func_flow(repo, fu)
    nv = [a.arg for a in fv.node.args.args][1]
    nu = [a.arg for a in fu.node.args.args][1]
    # value side: `return self.outputs[name]` first, then returns whose value goes through _conns, each under the
    # conjunction of its enclosing guards
    direct = [st for st in astx.walk_stmts(fv.node.body) if isinstance(st, ast.Return) and
              isinstance(st.value, ast.Subscript) and apath(flv, st.value.value) == 'self.outputs' and
              isinstance(st.value.slice, ast.Name) and st.value.slice.id == nv]
    src_rets = [st for st in astx.walk_stmts(fv.node.body) if isinstance(st, ast.Return) and st.value is not None
                and _flows_through_conns(fv.node.body, st.value)]
    if not direct:
        out.unsure(fv, fv.node, 'Case.__getitem__ does not start by looking the name up in self.outputs')
        return
    for cname, facts in NAME_CLASSES.items():
        kind = 'output' if facts['out'] else 'input'
        try:
            if facts['out']:
                val = 'own'
            else:
                val = 'own'
                for rt in src_rets:
                    if rt.lineno < direct[0].lineno:
                        raise _NoEval()
                    conds = []
                    for test, pol in guards(rt, fv.node):
                        tv = _member_eval(flv, test, nv, facts, flv.g.nodes_of(test._parent)[0])
                        conds.append(tv == pol)
                    if all(conds):
                        val = 'source'
            uni = _units_walk(flu, fu.node.body, nu, facts)
        except _NoEval:
            out.unsure(fu, fu.node, f'guards of Case.__getitem__/_get_units not understood for an {cname} name')
            continue
        if uni in (None, 'raise'):
            out.bad(fu, fu.node, f'_get_units finds no units for an {cname} name although Case.__getitem__ returns '
                    'its value', key=f'units-provenance-{kind}')
        elif uni == val:
            out.ok(fu, fu.node, f"{cname}: value and units both come from "
                   f"{'the connected source output' if val == 'source' else 'the variable itself'}")
        else:
            where = src_rets[0] if (src_rets and val == 'source' and facts['meta']) else fu.node
            desc = {'source': 'its connected source output (via _conns)', 'own': 'the variable itself'}
            out.bad(fv if where is not fu.node else fu, where,
                    f"for an {cname} name Case.__getitem__ returns the value of {desc[val]} but _get_units returns "
                    f"the units of {desc[uni]}: get_val(name, units=...) converts from the wrong units when the two "
                    'differ', key=f'units-provenance-{kind}')


# =========================================================================== C17.stack
SAFE_ACCESSORS = {'_system': 'weak reference to the owning system', '_problem': 'weak reference to the problem',
                  '_get_matvec_scope': 'returns cached scope sets, runs no user code',
                  'recording_requester': 'weak reference held by the Recording context manager'}


def _is_stack_call(c, meth, flow=None):
    if astx.callee_attr(c) != meth:
        return False
    r = astx.receiver(c)
    if (astx.path(r) or '').endswith('_recording_iter'):
        return True
    return flow is not None and isinstance(r, ast.Name) and (apath(flow, r) or '').endswith('_recording_iter')


@rule('C17.stack', floor=8)
def stack(repo, out):
    """Every `_recording_iter.push(...)` is matched by a `pop()` on all exits of the function, normal and exceptional (try/finally, catch-and-reraise, or the __enter__/__exit__ pair of a context manager)."""
    for rel in repo.shipped():
        src = repo.source(rel)
        if '_recording_iter' not in src or '.push(' not in src:
            continue
        m = repo.module(rel)
        for f in m.funcs.values():
            if not any(astx.callee_attr(c) == 'push' for c in astx.calls(f.node)) or \
                    not astx.mentions(f.node, '_recording_iter'):
                continue
            flow = func_flow(repo, f)
            pushes = [c for c in astx.calls(f.node) if _is_stack_call(c, 'push', flow)]
            if not pushes:
                continue
            g = flow.g
            pops = g.where(lambda n: any(_is_stack_call(c, 'pop', flow) for c in n.calls()))
            for pc in pushes:
                pn = [n for n in g.nodes_of(astx.stmt_of(pc))]
                if not pn:
                    out.unsure(f, pc, 'push is not a plain statement')
                    continue
                if f.node.name == '__enter__' and f.cls is not None:
                    ex = m.funcs.get(f.qualname.rsplit('.', 1)[0] + '.__exit__')
                    if ex is None:
                        out.bad(f, pc, '__enter__ pushes the recording stack but the class has no __exit__',
                                key='stack-pair')
                        continue
                    eg = cfgm.build(ex)
                    epops = eg.where(lambda n: any(_is_stack_call(c, 'pop') for c in n.calls()))
                    w = eg.path([eg.entry], [eg.exit], avoid=epops, labels=cfgm.noexc)
                    if w is not None or not epops:
                        out.bad(ex, ex.node, '__exit__ can return without popping what __enter__ pushed: ' +
                                eg.fmt_path(w), key='stack-pair')
                    else:
                        out.ok(f, pc, 'push in __enter__, pop on every normal path of __exit__')
                    continue
                # walk from the push: normal edges always, exceptional edges only out of statements that call
                # something other than the tabled accessors
                from collections import deque
                start = [x for p_ in pn for x in g.normal_succ(p_)]
                seen = set(start)
                dq = deque(start)
                par = {x: None for x in start}
                leak = None
                while dq:
                    n = dq.popleft()
                    if n in pops:
                        continue
                    if n is g.exit or n is g.raise_exit:
                        leak = n
                        break
                    risky = any(astx.callee_attr(c) not in SAFE_ACCESSORS and not _is_stack_call(c, 'push', flow)
                                for c in n.calls()) or (n.kind == 'stmt' and isinstance(n.ast, ast.Raise))
                    for m2, lab in g.succ[n]:
                        if lab == 'exc' and not risky:
                            continue
                        if m2 not in seen:
                            seen.add(m2)
                            par[m2] = n
                            dq.append(m2)
                if leak is None:
                    out.ok(f, pc, 'pop() on every normal and exceptional exit after the push')
                else:
                    pth = []
                    n = leak
                    while n is not None:
                        pth.append(n)
                        n = par[n]
                    how = 'by an exception' if leak is g.raise_exit else 'normally'
                    out.bad(f, pc, f'the function can be left {how} with the pushed entry still on the recording '
                            "stack (for ('_run_apply'/'_compute_totals', 0) the no-record marker stays set and every "
                            'later case is silently dropped; otherwise all later iteration coordinates are wrong): ' +
                            g.fmt_path(pth[::-1]), key='stack-pair')


# =========================================================================== self-test
selftest(
    'C17',
    # ---- schema_write
    Mutant('sw-insert-col', REC, '"solver_inputs, solver_output, solver_residuals) "',
           '"solver_inputs, solver_outputs, solver_residuals) "', 'C17.schema_write'),
    Mutant('sw-arity', REC, "metadata['timestamp'], metadata['success'], metadata['msg'],\n                           data_blob))",
           "metadata['timestamp'], metadata['success'],\n                           data_blob))", 'C17.schema_write'),
    Mutant('sw-delete-table', REC, '"DELETE FROM solver_iterations"', '"DELETE FROM solver_iteration"',
           'C17.schema_write'),
    Mutant('sw-id-not-pk', REC, '"CREATE TABLE system_iterations(id INTEGER PRIMARY KEY, "',
           '"CREATE TABLE system_iterations(id INT, "', 'C17.schema_write'),
    Mutant('sw-update-col', REC, '"abs2prom=?, prom2abs=?, abs2meta=?, var_settings=?, conns=?"',
           '"abs2prom=?, prom2abs=?, abs2meta=?, varsettings=?, conns=?"', 'C17.schema_write'),
    # ---- schema_read
    Mutant('sr-create-rename', REC, '"solver_inputs TEXT, solver_output TEXT, solver_residuals TEXT)"',
           '"solver_inputs TEXT, solver_outputs TEXT, solver_residuals TEXT)"', ['C17.schema_read']),
    Mutant('sr-case-key', CASE, "data['outputs'] = data.pop('solver_output')",
           "data['outputs'] = data.pop('solver_outputs')", 'C17.schema_read'),
    Mutant('sr-index-col', RDR, "'problem_cases', 'case_name', giter,", "'problem_cases', 'name', giter,",
           'C17.schema_read'),
    Mutant('sr-row-key', RDR, "row['jacobian'] = derivs_row['derivatives']", "row['jacobian'] = derivs_row['derivs']",
           'C17.schema_read'),
    Mutant('sr-select-col', RDR, '"SELECT * FROM driver_derivatives WHERE iteration_coordinate=?"',
           '"SELECT * FROM driver_derivatives WHERE coordinate=?"', 'C17.schema_read'),
    Mutant('sr-case-uncond', CASE, "self.counter = data['counter']", "self.counter = data['count']", 'C17.schema_read'),
    Mutant('sr-case-member', CASE, "if 'solver_inputs' in data.keys():", "if 'solver_input' in data.keys():",
           'C17.schema_read'),
    Mutant('sr-meta-key', RDR, "zlib.decompress(row['var_settings'])", "zlib.decompress(row['varsettings'])",
           'C17.schema_read'),
    # ---- giter
    Mutant('gi-swap', RDR, 'table, row = global_iter[1], global_iter[2]', 'table, row = global_iter[2], global_iter[1]',
           'C17.giter'),
    Mutant('gi-source-idx', RDR, 'record_type, source = global_iter[1], global_iter[3]',
           'record_type, source = global_iter[1], global_iter[2]', 'C17.giter'),
    Mutant('gi-create-order', REC, '"record_type TEXT, rowid INT, source TEXT)"',
           '"rowid INT, record_type TEXT, source TEXT)"', 'C17.giter'),
    Mutant('gi-rowsource', RDR, 'record_type, row, source = global_iter[1], global_iter[2], global_iter[3]',
           'record_type, row, source = global_iter[1], global_iter[0], global_iter[3]', 'C17.giter'),
    # ---- rectype (rt-f12 is the pre-fix shape of finding F12)
    Mutant('rt-f12', RDR, "            elif table == 'problem':\n                problem_cases = self._problem_cases.list_cases()\n"
           "                case_id = problem_cases[row - 1]\n", '', 'C17.rectype'),
    Mutant('rt-literal', REC, "('system', c.lastrowid, source_system)", "('systems', c.lastrowid, source_system)",
           'C17.rectype'),
    Mutant('rt-swapped-lit', REC, "('driver', c.lastrowid, driver._get_name())",
           "('problem', c.lastrowid, driver._get_name())", 'C17.rectype'),
    Mutant('rt-flat-drop', RDR, "            elif table == 'problem':\n                case_coord = problem_cases[row - 1]\n",
           '', 'C17.rectype'),
    # ---- dispatch
    Mutant('dp-off-by-one', RDR, 'case_coord = system_cases[row - 1]', 'case_coord = system_cases[row]', 'C17.dispatch'),
    Mutant('dp-wrong-table', RDR, 'driver_cases = self._driver_cases.list_cases()\n                case_id = driver_cases[row - 1]',
           'driver_cases = self._system_cases.list_cases()\n                case_id = driver_cases[row - 1]', 'C17.dispatch'),
    Mutant('dp-flat-wrong-list', RDR, "            elif table == 'system':\n                case_coord = system_cases[row - 1]\n            elif table == 'driver':",
           "            elif table == 'system':\n                case_coord = solver_cases[row - 1]\n            elif table == 'driver':",
           'C17.dispatch'),
    Mutant('dp-plus-one', RDR, 'case_id = solver_cases[row - 1]', 'case_id = solver_cases[row + 1]', 'C17.dispatch'),
    # ---- lookup
    Mutant('lk-flat', RDR, 'parent_case_counter = self._system_cases.get_case(coord).counter',
           'parent_case_counter = self._solver_cases.get_case(coord).counter', 'C17.lookup'),
    Mutant('lk-nested', RDR, 'parent_case = self._solver_cases.get_case(coord)',
           'parent_case = self._system_cases.get_case(coord)', 'C17.lookup'),
    # ---- store
    Mutant('st-swap-io', REC, "inputs_text, outputs_text, residuals_text))\n\n                # get the pathname",
           "outputs_text, inputs_text, residuals_text))\n\n                # get the pathname", 'C17.store'),
    Mutant('st-abs-rel', REC, 'abs, rel, inputs_text, outputs_text, residuals_text))',
           'rel, abs, inputs_text, outputs_text, residuals_text))', 'C17.store'),
    Mutant('st-wrong-dump', REC, 'inputs_text = json.dumps(inputs)', 'inputs_text = json.dumps(outputs)', 'C17.store'),
    Mutant('st-rowid', REC, "('solver', c.lastrowid, source_solver)", "('solver', self._counter, source_solver)",
           'C17.store'),
    Mutant('st-data-key', REC, "residuals = data['residual']", "residuals = data['output']", 'C17.store'),
    Mutant('st-name-coord', REC, "(self._counter, metadata['name'],", "(self._counter, self._iteration_coordinate,",
           'C17.store'),
    # ---- order
    Mutant('or-no-orderby', RDR, '" ORDER BY id ASC")  # nosec trusted input', '"")  # nosec trusted input', 'C17.order'),
    Mutant('or-desc', RDR, 'ORDER BY id ASC")  # nosec: trusted input\n            # rows = cur.fetchall()',
           'ORDER BY id DESC")  # nosec: trusted input\n            # rows = cur.fetchall()', 'C17.order'),
    Mutant('or-by-counter', RDR, 'ORDER BY id ASC")  # nosec: trusted input\n            rows = cur.fetchall()',
           'ORDER BY timestamp ASC")  # nosec: trusted input\n            rows = cur.fetchall()', 'C17.order'),
    Mutant('or-swapped-startswith', RDR, 'if case_coord.startswith(coord):\n                cases.append(case_coord)',
           'if coord.startswith(case_coord):\n                cases.append(case_coord)', 'C17.order'),
    Mutant('or-bound', RDR, 'for i in range(0, parent_case_counter):', 'for i in range(0, parent_case_counter - 1):',
           'C17.order'),
    Mutant('or-start', RDR, 'for i in range(0, parent_case_counter):', 'for i in range(1, parent_case_counter):',
           'C17.order'),
    Mutant('or-insert', RDR, 'cases.append(case_coord)\n                self.source_cases_table[table]',
           'cases.insert(0, case_coord)\n                self.source_cases_table[table]', 'C17.order'),
    Mutant('or-substring', RDR, 'if case_coord.startswith(coord):\n                cases.append(case_coord)',
           'if coord in case_coord:\n                cases.append(case_coord)', 'C17.order'),
    # ---- rooted (the list_sources site is a finding on the unchanged tree; these seed the other site)
    Mutant('ro-util-bare', RUTIL, "return part if part == 'root' or part.startswith('root.') else f'root.{part}'",
           "return part if part.startswith('root') else f'root.{part}'", 'C17.rooted'),
    Mutant('ro-util-and', RUTIL, "part == 'root' or part.startswith('root.')", "part == 'root' and part.startswith('root.')",
           'C17.rooted'),
    # ---- caseslots
    Mutant('cs-wrong-data', CASE, "outputs = deserialize(data['outputs'], abs2meta, prom2abs, conns)",
           "outputs = deserialize(data['inputs'], abs2meta, prom2abs, conns)", 'C17.caseslots'),
    Mutant('cs-wrong-map', CASE, "self.inputs = PromAbsDict(inputs, prom2abs['input'], abs2prom['input'])",
           "self.inputs = PromAbsDict(inputs, prom2abs['output'], abs2prom['output'])", 'C17.caseslots'),
    Mutant('cs-rename-swap', CASE, "data['inputs'] = data.pop('solver_inputs')\n            data['outputs'] = data.pop('solver_output')",
           "data['inputs'] = data.pop('solver_output')\n            data['outputs'] = data.pop('solver_inputs')", 'C17.caseslots'),
    Mutant('cs-wrong-attr', CASE, "self.residuals = PromAbsDict(residuals,", "self.outputs = PromAbsDict(residuals,",
           'C17.caseslots'),
    # ---- gate
    Mutant('ga-wrong-kind', SLV, "data['output'] = system._retrieve_data_of_kind(filt, 'output', vec_name, local)",
           "data['output'] = system._retrieve_data_of_kind(filt, 'input', vec_name, local)", 'C17.gate'),
    Mutant('ga-missing', SLV, "data['input'] = system._retrieve_data_of_kind(filt, 'input', vec_name, local)", "pass", 'C17.gate'),
    Mutant('ga-sys-kind', SYS, "data['residual'] = self._retrieve_data_of_kind(filt, 'residual', vec_name, local)",
           "data['residual'] = self._retrieve_data_of_kind(filt, 'output', vec_name, local)", 'C17.gate'),
    # ---- effective
    Mutant('ef-wrong-opt', SYS, "if options['record_residuals'] and residuals._names:",
           "if options['record_outputs'] and residuals._names:", 'C17.effective'),
    Mutant('ef-negated', DRV, "if opts['record_inputs'] and (inputs._names or len(discrete_inputs) > 0):",
           "if not opts['record_inputs'] and (inputs._names or len(discrete_inputs) > 0):", 'C17.effective'),
    Mutant('ef-select-opt', SLV, "if self.recording_options['record_outputs']:\n                myoutputs = [",
           "if self.recording_options['record_inputs']:\n                myoutputs = [", 'C17.effective'),
    Mutant('ef-extra-gate', SLV, "if self.recording_options['record_solver_residuals']:",
           "if self.recording_options['record_solver_residuals'] and self.recording_options['record_outputs']:",
           'C17.effective', nth=1),
    Mutant('ef-drv-residual', DRV, "        if recording_options['record_residuals']:\n            match_names.update(model._residuals)",
           "        if recording_options['record_outputs']:\n            match_names.update(model._residuals)", 'C17.effective'),
    # ---- select
    Mutant('se-swap-incl-excl', SYS, "if check_path(n, incl, excl)])", "if check_path(n, excl, incl)])", 'C17.select'),
    Mutant('se-empty-excl', DRV, "myinputs = {n for n in resolver.abs_iter('input') if check_path(n, incl, excl)}",
           "myinputs = {n for n in resolver.abs_iter('input') if check_path(n, incl, [])}", 'C17.select'),
    Mutant('se-opts-swapped', SLV, "incl = self.recording_options['includes']\n            excl = self.recording_options['excludes']",
           "incl = self.recording_options['excludes']\n            excl = self.recording_options['includes']", 'C17.select'),
    Mutant('se-wrong-kind', SLV, "myoutputs = [n for n in system._outputs._abs_iter() if check_path(n, incl, excl)]",
           "myoutputs = [n for n in system._inputs._abs_iter() if check_path(n, incl, excl)]", 'C17.select'),
    Mutant('se-negated-filter', SLV, "myinputs = [n for n in system._inputs._abs_iter() if check_path(n, incl, excl)]",
           "myinputs = [n for n in system._inputs._abs_iter() if not check_path(n, incl, excl)]", 'C17.select'),
    Mutant('se-voi-and', DRV, "if recording_options['record_objectives'] or recording_options['record_responses']:",
           "if recording_options['record_objectives'] and recording_options['record_responses']:", 'C17.select'),
    Mutant('se-voi-wrong', DRV, "if recording_options['record_constraints'] or recording_options['record_responses']:\n            myoutputs.update(_src_name_iter(self._cons))",
           "if recording_options['record_constraints'] or recording_options['record_responses']:\n            myoutputs.update(_src_name_iter(self._objs))", 'C17.select'),
    Mutant('se-voi-desvars', DRV, "if recording_options['record_desvars']:\n            myoutputs.update",
           "if recording_options['record_objectives']:\n            myoutputs.update", 'C17.select'),
    # ---- checkpath
    Mutant('cp-swapped-args', RUTIL, 'if fnmatchcase(path, ex_pattern):', 'if fnmatchcase(ex_pattern, path):', 'C17.checkpath'),
    Mutant('cp-include-first', RUTIL, "    for ex_pattern in excludes:\n        if fnmatchcase(path, ex_pattern):\n            return False\n\n    if not include_all_path:\n        for pattern in includes:\n            if fnmatchcase(path, pattern):\n                return True\n",
           "    if not include_all_path:\n        for pattern in includes:\n            if fnmatchcase(path, pattern):\n                return True\n\n    for ex_pattern in excludes:\n        if fnmatchcase(path, ex_pattern):\n            return False\n",
           'C17.checkpath'),
    Mutant('cp-exclude-true', RUTIL, "        if fnmatchcase(path, ex_pattern):\n            return False", "        if fnmatchcase(path, ex_pattern):\n            return True", 'C17.checkpath'),
    Mutant('cp-first-only', RUTIL, "            if fnmatchcase(path, pattern):\n                return True\n",
           "            return fnmatchcase(path, pattern)\n", 'C17.checkpath'),
    Mutant('cp-default-true', RUTIL, '    return include_all_path\n', '    return True\n', 'C17.checkpath'),
    # ---- options
    Mutant('op-ungated-abs', SLV, "'abs': kwargs.get('abs') if self.recording_options['record_abs_error'] else None,",
           "'abs': kwargs.get('abs'),", 'C17.options'),
    Mutant('op-new-dead', SYS, "        self.recording_options.declare('options_excludes', types=list, default=[],",
           "        self.recording_options.declare('record_discrete', types=bool, default=True)\n        self.recording_options.declare('options_excludes', types=list, default=[],",
           'C17.options'),
    Mutant('op-undeclared', DRV, "if opts['record_residuals'] and residuals._names:", "if opts['record_solver_residuals'] and residuals._names:",
           'C17.options'),
    # ---- retrieve
    Mutant('re-wrong-vec', SYS, "vec = self._vectors[kind][vec_name]\n            rank = self.comm.rank",
           "vec = self._vectors['output'][vec_name]\n            rank = self.comm.rank", 'C17.retrieve'),
    Mutant('re-wrong-key', SYS, "vdict[ivc_path] = srcget(ivc_path, False)\n                            elif",
           "vdict[n] = srcget(ivc_path, False)\n                            elif", 'C17.retrieve'),
    Mutant('re-wrong-kind', SYS, "vdict[name] = self.get_val(name, get_remote=True, rank=None,\n                                               vec_name=vec_name, kind=kind, from_src=False)",
           "vdict[name] = self.get_val(name, get_remote=True, rank=None,\n                                               vec_name=vec_name, kind='output', from_src=False)".replace("self.get_val(name,", "self.get_val(name,"),
           'C17.retrieve'),
    Mutant('re-discrete-key', SYS, "vdict[n] = discrete_vec[n[offset:]]['val']", "vdict[n] = discrete_vec[ivc_path[offset:]]['val']".replace('ivc_path', 'name'),
           'C17.retrieve'),
    # ---- lookup (source routing)
    Mutant('lk-source-table', RDR, "            elif source in self._system_cases.list_sources():\n                case_table = self._system_cases",
           "            elif source in self._system_cases.list_sources():\n                case_table = self._solver_cases", 'C17.lookup'),
    Mutant('lk-source-vars', RDR, "source_cases = self._solver_cases.list_cases(source)\n            case = self._solver_cases.get_case(source_cases[0])",
           "source_cases = self._solver_cases.list_cases(source)\n            case = self._system_cases.get_case(source_cases[0])", 'C17.lookup'),
    # ---- caseslots (scalar attributes)
    Mutant('cs-counter-id', CASE, "self.counter = data['counter']", "self.counter = data['id']", 'C17.caseslots'),
    Mutant('cs-abs-rel', CASE, "self.abs_err = data['abs_err'] if 'abs_err' in data.keys() else None",
           "self.abs_err = data['rel_err'] if 'abs_err' in data.keys() else None", 'C17.caseslots'),
    # ---- route
    Mutant('ro-no-inc', CREC, "            self._counter += 1\n\n", "", 'C17.route'),
    Mutant('ro-inc-late', CREC, "            self._counter += 1\n\n            self._iteration_coordinate = \\\n                recording_requester._recording_iter.get_formatted_iteration_coordinate()\n",
           "            self._iteration_coordinate = \\\n                recording_requester._recording_iter.get_formatted_iteration_coordinate()\n",
           'C17.route', also=[(CREC, "                raise ValueError(\"Recorders must be attached to Drivers, Systems, or Solvers.\")\n",
                               "                raise ValueError(\"Recorders must be attached to Drivers, Systems, or Solvers.\")\n            self._counter += 1\n")]),
    Mutant('ro-wrong-route', CREC, "self.record_iteration_system(recording_requester, data, metadata)",
           "self.record_iteration_solver(recording_requester, data, metadata)", 'C17.route'),
    Mutant('ro-counter-reset', REC, "        if self.connection:\n            outputs = data['output']\n            inputs = data['input']\n            residuals = data['residual']\n\n            driver = problem.driver",
           "        if self.connection:\n            self._counter = 0\n            outputs = data['output']\n            inputs = data['input']\n            residuals = data['residual']\n\n            driver = problem.driver", 'C17.route'),
    Mutant('ro-inc-two', CREC, "            self._counter += 1\n", "            self._counter += 2\n", 'C17.route'),
    # ---- parent
    Mutant('pa-case', CASE, "self.parent = '|'.join(parts[:-2])", "self.parent = '|'.join(parts[:-1])", 'C17.parent'),
    Mutant('pa-nested', RDR, "parent_coord = '|'.join(case_coord.split('|')[:-2])", "parent_coord = '|'.join(case_coord.split('|')[:-3])",
           'C17.parent'),
    # ---- third seeding round
    Mutant('se-excl-not-relative', SLV, "                incl = ['.'.join((system.pathname, i)) for i in incl]\n                excl = ['.'.join((system.pathname, i)) for i in excl]\n",
           "                incl = [f'{system.pathname}.{i}' for i in incl]\n", 'C17.select'),
    Mutant('se-incl-not-relative', SLV, "                incl = ['.'.join((system.pathname, i)) for i in incl]\n", "", 'C17.select'),
    Twin('tw-relative-fstring', SLV, "                incl = ['.'.join((system.pathname, i)) for i in incl]\n                excl = ['.'.join((system.pathname, i)) for i in excl]\n",
         "                incl = [f'{system.pathname}.{pat}' for pat in incl]\n                excl = [f'{system.pathname}.{p}' for p in excl]\n"),
    Mutant('un-abs-name-source', CASE, "if name in self._prom2abs['input'] and name not in self._abs2prom['input']:",
           "if name in self._prom2abs['input']:", 'C17.units'),
    Twin('tw-getitem-demorgan', CASE, "if name in self._prom2abs['input'] and name not in self._abs2prom['input']:",
         "if not (name not in self._prom2abs['input'] or name in self._abs2prom['input']):"),
    Mutant('un-units-order', CASE, "        if name in meta:\n            return meta[name]['units']\n\n        prom2abs = self._prom2abs\n",
           "        prom2abs = self._prom2abs\n", 'C17.units',
           also=[(CASE, "        elif name in self._var_info:\n            # This can happen if name is an alias.",
                  "        elif name in meta:\n            return meta[name]['units']\n\n        elif name in self._var_info:\n            # This can happen if name is an alias.")]),
    # ---- second robustness round: aliases, early returns, loop over constant table names, lastrowid temporary
    Twin('tw-units-early-returns', CASE, "        prom2abs = self._prom2abs\n\n        if name in prom2abs['output']:\n            abs_name = prom2abs['output'][name][0]\n            return meta[abs_name]['units']\n\n        elif name in prom2abs['input']:\n            abs_name = prom2abs['input'][name][0]\n            return meta[self._conns[abs_name]]['units']\n",
         "        p2a_out = self._prom2abs['output']\n        if name in p2a_out:\n            return meta[p2a_out[name][0]]['units']\n\n        p2a_in = self._prom2abs['input']\n        if name in p2a_in:\n            abs_in = p2a_in[name][0]\n            return meta[self._conns[abs_in]]['units']\n\n        if False:\n            pass\n"),
    Mutant('un-early-returns-own', CASE, "        prom2abs = self._prom2abs\n\n        if name in prom2abs['output']:\n            abs_name = prom2abs['output'][name][0]\n            return meta[abs_name]['units']\n\n        elif name in prom2abs['input']:\n            abs_name = prom2abs['input'][name][0]\n            return meta[self._conns[abs_name]]['units']\n",
           "        p2a_out = self._prom2abs['output']\n        if name in p2a_out:\n            return meta[p2a_out[name][0]]['units']\n\n        p2a_in = self._prom2abs['input']\n        if name in p2a_in:\n            abs_in = p2a_in[name][0]\n            return meta[abs_in]['units']\n\n        if False:\n            pass\n",
           'C17.units'),
    Twin('tw-stack-alias', SLV, "        self._recording_iter.push(('_run_apply', 0))\n        try:\n            self._system()._apply_nonlinear()\n        finally:\n            self._recording_iter.pop()",
         "        rec_iter = self._recording_iter\n        rec_iter.push(('_run_apply', 0))\n        try:\n            self._system()._apply_nonlinear()\n        finally:\n            rec_iter.pop()"),
    Mutant('sk-alias-no-finally', SLV, "        self._recording_iter.push(('_run_apply', 0))\n        try:\n            self._system()._apply_nonlinear()\n        finally:\n            self._recording_iter.pop()",
           "        rec_iter = self._recording_iter\n        rec_iter.push(('_run_apply', 0))\n        self._system()._apply_nonlinear()\n        rec_iter.pop()", 'C17.stack'),
    Twin('tw-phys-aliases', SLV, "        with system._unscaled_context(outputs=[system._vectors['output'][vec_name]],\n                                      residuals=[system._vectors['residual'][vec_name]]):",
         "        vectors = system._vectors\n        rec_mgr = self._rec_mgr\n        with system._unscaled_context(outputs=[vectors['output'][vec_name]],\n                                      residuals=[vectors['residual'][vec_name]]):",
         also=[(SLV, "            self._rec_mgr.record_iteration(self, data, metadata)", "            rec_mgr.record_iteration(self, data, metadata)")]),
    Mutant('ph-alias-handover-after', SLV, "        with system._unscaled_context(outputs=[system._vectors['output'][vec_name]],\n                                      residuals=[system._vectors['residual'][vec_name]]):",
           "        vectors = system._vectors\n        rec_mgr = self._rec_mgr\n        with system._unscaled_context(outputs=[vectors['output'][vec_name]],\n                                      residuals=[vectors['residual'][vec_name]]):",
           'C17.phys', also=[(SLV, "            self._rec_mgr.record_iteration(self, data, metadata)", "        rec_mgr.record_iteration(self, data, metadata)")]),
    Twin('tw-delete-loop', REC, "            self.connection.execute(\"DELETE FROM driver_metadata\")\n            self.connection.execute(\"DELETE FROM system_metadata\")\n            self.connection.execute(\"DELETE FROM solver_metadata\")",
         "            for table in ('driver_metadata', 'system_metadata', 'solver_metadata'):\n                self.connection.execute(\"DELETE FROM \" + table)"),
    Mutant('sw-delete-loop-typo', REC, "            self.connection.execute(\"DELETE FROM driver_metadata\")\n            self.connection.execute(\"DELETE FROM system_metadata\")\n            self.connection.execute(\"DELETE FROM solver_metadata\")",
           "            for table in ('driver_metadata', 'system_metadata', 'solvers_metadata'):\n                self.connection.execute(\"DELETE FROM \" + table)", 'C17.schema_write'),
    Twin('tw-rowid-temp', REC, "                c.execute(\"INSERT INTO global_iterations(record_type, rowid, source) VALUES(?,?,?)\",\n                          ('system', c.lastrowid, source_system))",
         "                rowid = c.lastrowid\n                c.execute(\"INSERT INTO global_iterations(record_type, rowid, source) VALUES(?,?,?)\",\n                          ('system', rowid, source_system))"),
    Mutant('st-rowid-temp-counter', REC, "                c.execute(\"INSERT INTO global_iterations(record_type, rowid, source) VALUES(?,?,?)\",\n                          ('system', c.lastrowid, source_system))",
           "                rowid = self._counter\n                c.execute(\"INSERT INTO global_iterations(record_type, rowid, source) VALUES(?,?,?)\",\n                          ('system', rowid, source_system))", 'C17.store'),
    # ---- third robustness round: split conditions / aliases in Case.__getitem__, role variable chosen once in System.record_iteration
    Twin('tw-getitem-split-alias', CASE, "            if name in self._prom2abs['input'] and name not in self._abs2prom['input']:\n                absin = self._prom2abs['input'][name][0]\n                absout = self._conns[absin]\n                try:\n                    return self.outputs[self._abs2prom['output'][absout]]\n                except KeyError:\n                    pass\n",
         "            p2a_in = self._prom2abs['input']\n            if name in p2a_in:\n                if name not in self._abs2prom['input']:\n                    absout = self._conns[p2a_in[name][0]]\n                    try:\n                        return self.outputs[self._abs2prom['output'][absout]]\n                    except KeyError:\n                        pass\n"),
    Mutant('un-split-lost-inner', CASE, "            if name in self._prom2abs['input'] and name not in self._abs2prom['input']:\n                absin = self._prom2abs['input'][name][0]\n                absout = self._conns[absin]\n                try:\n                    return self.outputs[self._abs2prom['output'][absout]]\n                except KeyError:\n                    pass\n",
           "            p2a_in = self._prom2abs['input']\n            if name in p2a_in:\n                if True:\n                    absout = self._conns[p2a_in[name][0]]\n                    try:\n                        return self.outputs[self._abs2prom['output'][absout]]\n                    except KeyError:\n                        pass\n",
           'C17.units'),
    Twin('tw-phys-role-variable', SYS, "                if 'nonlinear' in method:\n                    inputs, outputs, residuals = self.get_nonlinear_vectors()\n                    vec_name = 'nonlinear'\n                else:\n                    inputs, outputs, residuals = self.get_linear_vectors()\n                    vec_name = 'linear'\n            else:\n                # outside of a run, just record nonlinear vectors\n                inputs, outputs, residuals = self.get_nonlinear_vectors()\n                vec_name = 'nonlinear'\n",
         "                vec_name = 'nonlinear' if 'nonlinear' in method else 'linear'\n            else:\n                vec_name = 'nonlinear'\n            if vec_name == 'linear':\n                inputs, outputs, residuals = self.get_linear_vectors()\n            else:\n                inputs, outputs, residuals = self.get_nonlinear_vectors()\n".replace("vec_name = 'nonlinear' if 'nonlinear' in method else 'linear'", "vec_name = 'nonlinear'\n                if 'nonlinear' not in method:\n                    vec_name = 'linear'")),
    Mutant('ph-role-variable-swapped', SYS, "                if 'nonlinear' in method:\n                    inputs, outputs, residuals = self.get_nonlinear_vectors()\n                    vec_name = 'nonlinear'\n                else:\n                    inputs, outputs, residuals = self.get_linear_vectors()\n                    vec_name = 'linear'\n            else:\n                # outside of a run, just record nonlinear vectors\n                inputs, outputs, residuals = self.get_nonlinear_vectors()\n                vec_name = 'nonlinear'\n",
           "                vec_name = 'nonlinear'\n                if 'nonlinear' not in method:\n                    vec_name = 'linear'\n            else:\n                vec_name = 'nonlinear'\n            if vec_name != 'linear':\n                inputs, outputs, residuals = self.get_linear_vectors()\n            else:\n                inputs, outputs, residuals = self.get_nonlinear_vectors()\n",
           'C17.phys'),
    # ---- units (value/units provenance of Case.get_val)
    Mutant('un-own-units', CASE, "return meta[self._conns[abs_name]]['units']", "return meta[abs_name]['units']", 'C17.units'),
    Mutant('un-output-via-conns', CASE, "            abs_name = prom2abs['output'][name][0]\n            return meta[abs_name]['units']",
           "            abs_name = prom2abs['output'][name][0]\n            return meta[self._conns.get(abs_name, abs_name)]['units']", 'C17.units'),
    Mutant('un-value-own', CASE, "                absout = self._conns[absin]\n", "                absout = absin\n", 'C17.units'),
    Twin('tw-units-temp', CASE, "            abs_name = prom2abs['input'][name][0]\n            return meta[self._conns[abs_name]]['units']",
         "            abs_in = prom2abs['input'][name][0]\n            src = self._conns[abs_in]\n            return meta[src]['units']"),
    # ---- stack (push/pop of the recording iteration stack)
    Mutant('sk-no-finally', SLV, "        self._recording_iter.push(('_run_apply', 0))\n        try:\n            self._system()._apply_nonlinear()\n        finally:\n            self._recording_iter.pop()",
           "        self._recording_iter.push(('_run_apply', 0))\n        self._system()._apply_nonlinear()\n        self._recording_iter.pop()", 'C17.stack'),
    Mutant('sk-nlbgs-no-finally', 'openmdao/solvers/nonlinear/nonlinear_block_gs.py',
           "            try:\n                system._apply_nonlinear()\n            finally:\n                self._recording_iter.pop()",
           "            system._apply_nonlinear()\n            self._recording_iter.pop()", 'C17.stack'),
    Mutant('sk-no-pop', SLV, "        finally:\n            self._recording_iter.pop()\n\n    def _iter_initialize(self):", "        finally:\n            pass\n\n    def _iter_initialize(self):",
           'C17.stack'),
    Mutant('sk-exit-early-return', 'openmdao/recorders/recording_iteration_stack.py',
           "        requester = self.recording_requester()\n        if requester._recording_iter._norec_refcount == 0:",
           "        requester = self.recording_requester()\n        if requester._recording_iter._norec_refcount != 0:\n            return\n        if requester._recording_iter._norec_refcount == 0:", 'C17.stack'),
    Mutant('sk-pop-only-on-error', SLV, "        self._recording_iter.push(('_run_apply', 0))\n        try:\n            self._system()._apply_nonlinear()\n        finally:\n            self._recording_iter.pop()",
           "        self._recording_iter.push(('_run_apply', 0))\n        try:\n            self._system()._apply_nonlinear()\n        except Exception:\n            self._recording_iter.pop()\n            raise", 'C17.stack'),
    Twin('tw-stack-catch-reraise', SLV, "        self._recording_iter.push(('_run_apply', 0))\n        try:\n            self._system()._apply_nonlinear()\n        finally:\n            self._recording_iter.pop()",
         "        self._recording_iter.push(('_run_apply', 0))\n        try:\n            self._system()._apply_nonlinear()\n        except BaseException:\n            self._recording_iter.pop()\n            raise\n        self._recording_iter.pop()"),
    Twin('tw-stack-local-system', SLV, "        self._recording_iter.push(('_run_apply', 0))\n        try:\n            self._system()._apply_nonlinear()\n        finally:\n            self._recording_iter.pop()",
         "        rec_iter = self._recording_iter\n        system = self._system()\n        self._recording_iter.push(('_run_apply', 0))\n        try:\n            system._apply_nonlinear()\n        finally:\n            self._recording_iter.pop()"),
    # ---- phys (anchored on the repaired shape of System/Solver.record_iteration)
    Mutant('ph-context-dropped', SLV, "        with system._unscaled_context(outputs=[system._vectors['output'][vec_name]],\n                                      residuals=[system._vectors['residual'][vec_name]]):\n",
           "        if True:\n", 'C17.phys'),
    Mutant('ph-only-outputs', SLV, "        with system._unscaled_context(outputs=[system._vectors['output'][vec_name]],\n                                      residuals=[system._vectors['residual'][vec_name]]):\n",
           "        with system._unscaled_context(outputs=[system._vectors['output'][vec_name]]):\n", 'C17.phys'),
    Mutant('ph-handover-after', SLV, "                data['residual'] = system._retrieve_data_of_kind(filt, 'residual', vec_name, local)\n\n            self._rec_mgr.record_iteration(self, data, metadata)",
           "                data['residual'] = system._retrieve_data_of_kind(filt, 'residual', vec_name, local)\n\n        self._rec_mgr.record_iteration(self, data, metadata)", 'C17.phys'),
    Mutant('ph-wrong-vec-name', SLV, "outputs=[system._vectors['output'][vec_name]],", "outputs=[system._vectors['output']['nonlinear']],", 'C17.phys'),
    Mutant('ph-sys-only-outputs', SYS, "with self._unscaled_context(outputs=[outputs], residuals=[residuals]):\n                if options['record_inputs']",
           "with self._unscaled_context(outputs=[outputs]):\n                if options['record_inputs']", 'C17.phys'),
    Mutant('ph-sys-wrong-kind', SYS, "with self._unscaled_context(outputs=[outputs], residuals=[residuals]):\n                if options['record_inputs']",
           "with self._unscaled_context(outputs=[outputs], residuals=[outputs]):\n                if options['record_inputs']", 'C17.phys'),
    Mutant('ph-sys-wrong-vec', SYS, "                    inputs, outputs, residuals = self.get_linear_vectors()\n                    vec_name = 'linear'",
           "                    inputs, outputs, residuals = self.get_nonlinear_vectors()\n                    vec_name = 'linear'", 'C17.phys',
           also=[(SYS, "with self._unscaled_context(outputs=[outputs], residuals=[residuals]):", "with self._unscaled_context(outputs=[outputs], residuals=[residuals]):")]),
    Mutant('ph-sys-read-outside', SYS, "            with self._unscaled_context(outputs=[outputs], residuals=[residuals]):\n                if options['record_inputs'] and (inputs._names or len(discrete_inputs) > 0):\n                    data['input'] = self._retrieve_data_of_kind(filt, 'input', vec_name, local)\n",
           "            if options['record_inputs'] and (inputs._names or len(discrete_inputs) > 0):\n                data['input'] = self._retrieve_data_of_kind(filt, 'input', vec_name, local)\n            with self._unscaled_context(outputs=[outputs], residuals=[residuals]):\n",
           'C17.phys'),
    Twin('tw-phys-locals', SLV, "        with system._unscaled_context(outputs=[system._vectors['output'][vec_name]],\n                                      residuals=[system._vectors['residual'][vec_name]]):\n",
         "        outs = system._vectors['output'][vec_name]\n        resids = system._vectors['residual'][vec_name]\n        with system._unscaled_context(residuals=[resids], outputs=(outs,)):\n"),
    Twin('tw-phys-sys-vectors', SYS, "with self._unscaled_context(outputs=[outputs], residuals=[residuals]):\n                if options['record_inputs']",
         "with self._unscaled_context(outputs=[self._vectors['output'][vec_name]],\n                                        residuals=[self._vectors['residual'][vec_name]]):\n                if options['record_inputs']"),
    # ---- shapes accepted after the robustness round (temporaries, renamed cursor, extracted helper, guard clause)
    Twin('tw-row-vals-temp', REC, "                c.execute(\"INSERT INTO system_iterations(counter, iteration_coordinate, \"\n                          \"timestamp, success, msg, inputs , outputs , residuals ) \"\n                          \"VALUES(?,?,?,?,?,?,?,?)\",\n                          (self._counter, self._iteration_coordinate,\n                           metadata['timestamp'], metadata['success'], metadata['msg'],\n                           inputs_text, outputs_text, residuals_text))",
         "                row_vals = (self._counter, self._iteration_coordinate,\n                            metadata['timestamp'], metadata['success'], metadata['msg'],\n                            inputs_text, outputs_text, residuals_text)\n                c.execute(\"INSERT INTO system_iterations(counter, iteration_coordinate, \"\n                          \"timestamp, success, msg, inputs , outputs , residuals ) \"\n                          \"VALUES(?,?,?,?,?,?,?,?)\", row_vals)"),
    Mutant('st-row-vals-swapped', REC, "                c.execute(\"INSERT INTO system_iterations(counter, iteration_coordinate, \"\n                          \"timestamp, success, msg, inputs , outputs , residuals ) \"\n                          \"VALUES(?,?,?,?,?,?,?,?)\",\n                          (self._counter, self._iteration_coordinate,\n                           metadata['timestamp'], metadata['success'], metadata['msg'],\n                           inputs_text, outputs_text, residuals_text))",
           "                row_vals = (self._counter, self._iteration_coordinate,\n                            metadata['timestamp'], metadata['success'], metadata['msg'],\n                            outputs_text, inputs_text, residuals_text)\n                c.execute(\"INSERT INTO system_iterations(counter, iteration_coordinate, \"\n                          \"timestamp, success, msg, inputs , outputs , residuals ) \"\n                          \"VALUES(?,?,?,?,?,?,?,?)\", row_vals)",
           'C17.store'),
    Twin('tw-cursor-renamed', REC, "            with self.connection as c:\n                c = c.cursor()  # need a real cursor for lastrowid\n\n                c.execute(\"INSERT INTO driver_iterations(",
         "            with self.connection as conn:\n                cursor = conn.cursor()  # need a real cursor for lastrowid\n\n                cursor.execute(\"INSERT INTO driver_iterations(",
         also=[(REC, "                c.execute(\"INSERT INTO global_iterations(record_type, rowid, source) VALUES(?,?,?)\",\n                          ('driver', c.lastrowid, driver._get_name()))",
                "                cursor.execute(\"INSERT INTO global_iterations(record_type, rowid, source) VALUES(?,?,?)\",\n                               ('driver', cursor.lastrowid, driver._get_name()))")]),
    Mutant('st-other-cursor', REC, "                c.execute(\"INSERT INTO global_iterations(record_type, rowid, source) VALUES(?,?,?)\",\n                          ('driver', c.lastrowid, driver._get_name()))",
           "                c2 = self.connection.cursor()\n                c2.execute(\"INSERT INTO global_iterations(record_type, rowid, source) VALUES(?,?,?)\",\n                           ('driver', c2.lastrowid, driver._get_name()))", 'C17.store'),
    Twin('tw-global-helper', REC, "    def record_iteration_driver(self, driver, data, metadata):",
         "    def _insert_global_iteration(self, cursor, record_type, source):\n        cursor.execute(\"INSERT INTO global_iterations(record_type, rowid, source) VALUES(?,?,?)\",\n                       (record_type, cursor.lastrowid, source))\n\n    def record_iteration_driver(self, driver, data, metadata):",
         also=[(REC, "                c.execute(\"INSERT INTO global_iterations(record_type, rowid, source) VALUES(?,?,?)\",\n                          ('driver', c.lastrowid, driver._get_name()))",
                "                self._insert_global_iteration(c, 'driver', driver._get_name())"),
               (REC, "                c.execute(\"INSERT INTO global_iterations(record_type, rowid, source) VALUES(?,?,?)\",\n                          ('problem', c.lastrowid, metadata['name']))",
                "                self._insert_global_iteration(c, 'problem', metadata['name'])"),
               (REC, "                c.execute(\"INSERT INTO global_iterations(record_type, rowid, source) VALUES(?,?,?)\",\n                          ('system', c.lastrowid, source_system))",
                "                self._insert_global_iteration(c, 'system', source_system)"),
               (REC, "                c.execute(\"INSERT INTO global_iterations(record_type, rowid, source) VALUES(?,?,?)\",\n                          ('solver', c.lastrowid, source_solver))",
                "                self._insert_global_iteration(c, 'solver', source_solver)")]),
    Mutant('rt-helper-wrong-type', REC, "    def record_iteration_driver(self, driver, data, metadata):",
           "    def _insert_global_iteration(self, cursor, record_type, source):\n        cursor.execute(\"INSERT INTO global_iterations(record_type, rowid, source) VALUES(?,?,?)\",\n                       (record_type, cursor.lastrowid, source))\n\n    def record_iteration_driver(self, driver, data, metadata):",
           'C17.rectype',
           also=[(REC, "                c.execute(\"INSERT INTO global_iterations(record_type, rowid, source) VALUES(?,?,?)\",\n                          ('system', c.lastrowid, source_system))",
                  "                self._insert_global_iteration(c, 'solver', source_system)")]),
    Twin('tw-flat-guard-clause', RDR, "            if case_coord.startswith(coord):\n                cases.append(case_coord)\n                self.source_cases_table[table].append(case_coord)\n\n                if out_stream:",
         "            if not case_coord.startswith(coord):\n                continue\n            cases.append(case_coord)\n            self.source_cases_table[table].append(case_coord)\n            if True:\n                if out_stream:"),
    Mutant('or-guard-clause-inverted', RDR, "            if case_coord.startswith(coord):\n                cases.append(case_coord)\n                self.source_cases_table[table].append(case_coord)\n\n                if out_stream:",
           "            if case_coord.startswith(coord):\n                continue\n            cases.append(case_coord)\n            self.source_cases_table[table].append(case_coord)\n            if True:\n                if out_stream:",
           'C17.order'),
    # ---- pre-fix shapes of the two C17 findings repaired in /repo
    Mutant('ro-list-sources-prefix', RDR, "if not (source == 'root' or source.startswith('root.')):",
           "if not source.startswith('root'):", 'C17.rooted'),
    Mutant('ef-output-master-switch', DRV, "    if outputs._names or len(discrete_outputs) > 0:\n        data['output']",
           "    if opts['record_outputs'] and (outputs._names or len(discrete_outputs) > 0):\n        data['output']",
           'C17.effective'),
    # ---- independently seeded changes (name space of the residual-only branch; counter reset on restart)
    Mutant('se-residual-abs-name', SYS, "                               if check_path(resolver.abs2prom(n, 'output'), incl, excl)]",
           "                               if check_path(n, incl, excl)]", 'C17.select'),
    Mutant('se-drv-residual-abs', DRV, "if check_path(resolver.abs2prom(n, 'output'), incl, excl)]", "if check_path(n, incl, excl)]",
           'C17.select'),
    Mutant('ro-reset-before-guard', REC, "        # we only want to set up recording once for each recording_requester\n        if recording_requester in self._started:\n            return\n\n        super().startup(recording_requester, comm)\n",
           "        super().startup(recording_requester, comm)\n\n        # we only want to set up recording once for each recording_requester\n        if recording_requester in self._started:\n            return\n",
           'C17.route'),
    Mutant('ro-no-started-guard', REC, "        if recording_requester in self._started:\n            return\n\n        super().startup", "        super().startup",
           'C17.route'),
    Mutant('ro-reset-on-started', REC, "        if recording_requester in self._started:\n            return\n",
           "        if recording_requester in self._started:\n            self._counter = 0\n            return\n", 'C17.route'),
    # ---- twins
    Twin('tw-rename-local', REC, "inputs_text = json.dumps(inputs)\n            residuals_text = json.dumps(residuals)\n\n            with self.connection as c:\n                c = c.cursor()  # need a real cursor for lastrowid\n\n                c.execute(\"INSERT INTO driver_iterations(counter, iteration_coordinate, \"\n                          \"timestamp, success, msg, inputs, outputs, residuals) \"\n                          \"VALUES(?,?,?,?,?,?,?,?)\",\n                          (self._counter, self._iteration_coordinate,\n                           metadata['timestamp'], metadata['success'], metadata['msg'],\n                           inputs_text, outputs_text, residuals_text))",
         "in_txt = json.dumps(inputs)\n            residuals_text = json.dumps(residuals)\n\n            with self.connection as c:\n                c = c.cursor()  # need a real cursor for lastrowid\n\n                c.execute(\"INSERT INTO driver_iterations(counter, iteration_coordinate, \"\n                          \"timestamp, success, msg, outputs, inputs, residuals) \"\n                          \"VALUES(?,?,?,?,?,?,?,?)\",\n                          (self._counter, self._iteration_coordinate,\n                           metadata['timestamp'], metadata['success'], metadata['msg'],\n                           outputs_text, in_txt, residuals_text))"),
    Twin('tw-flip-compare', RDR, "            if table == 'solver':\n                solver_cases = self._solver_cases.list_cases()",
         "            if 'solver' == table:\n                solver_cases = self._solver_cases.list_cases()"),
    Twin('tw-reorder-branches', RDR, "            elif table == 'driver':\n                case_coord = driver_cases[row - 1]\n            elif table == 'problem':\n                case_coord = problem_cases[row - 1]\n",
         "            elif table == 'problem':\n                case_coord = problem_cases[row - 1]\n            elif table == 'driver':\n                case_coord = driver_cases[row - 1]\n"),
    Twin('tw-explicit-select', RDR, "cur.execute('select * from global_iterations')",
         "cur.execute('SELECT id, record_type, rowid, source FROM global_iterations ORDER BY id ASC')"),
    Twin('tw-range-one-arg', RDR, 'for i in range(0, parent_case_counter):', 'for i in range(parent_case_counter):'),
    Twin('tw-ungated-retrieve', SLV, "if self.recording_options['record_outputs']:", "if True:", nth=1),
    Twin('tw-inline-options', SYS, "            incl = options['includes']\n            excl = options['excludes']",
         "            incl = self.recording_options['includes']\n            excl = self.recording_options['excludes']"),
    Twin('tw-checkpath-any', RUTIL, "    for ex_pattern in excludes:\n        if fnmatchcase(path, ex_pattern):\n            return False\n",
         "    if any(fnmatchcase(path, ex_pattern) for ex_pattern in excludes):\n        return False\n"),
    Twin('tw-voi-reorder', DRV, "if recording_options['record_objectives'] or recording_options['record_responses']:",
         "if recording_options['record_responses'] or recording_options['record_objectives']:"),
    Twin('tw-rooted-tuple', RUTIL, "return part if part == 'root' or part.startswith('root.') else f'root.{part}'",
         "return f'root.{part}' if not (part == 'root' or part.startswith('root.')) else part"),
    Twin('tw-case-keys-plain', CASE, "if 'inputs' in data.keys():", "if 'inputs' in data:"),
    Twin('tw-rename-dispatch-locals', RDR,
         "            table, row = global_iter[1], global_iter[2]\n            if table == 'solver':\n                solver_cases = self._solver_cases.list_cases()\n                case_id = solver_cases[row - 1]\n            elif table == 'system':\n                system_cases = self._system_cases.list_cases()\n                case_id = system_cases[row - 1]\n            elif table == 'driver':\n                driver_cases = self._driver_cases.list_cases()\n                case_id = driver_cases[row - 1]\n            elif table == 'problem':\n                problem_cases = self._problem_cases.list_cases()\n                case_id = problem_cases[row - 1]\n",
         "            rtype = global_iter[1]\n            rid = global_iter[2]\n            if rtype == 'problem':\n                keys = self._problem_cases.list_cases()\n                case_id = keys[rid - 1]\n            elif rtype == 'system':\n                keys = self._system_cases.list_cases()\n                case_id = keys[rid - 1]\n            elif rtype == 'driver':\n                keys = self._driver_cases.list_cases()\n                case_id = keys[rid - 1]\n            elif rtype == 'solver':\n                keys = self._solver_cases.list_cases()\n                case_id = keys[rid - 1]\n"),
    Twin('tw-store-temporary', REC, "                          (self._counter, metadata['name'],\n                           metadata['timestamp'],",
         "                          (self._counter, metadata['name'],\n                           metadata['timestamp'],".replace("metadata['name']", "case_name"),
         also=[(REC, "            abs_err = data['abs'] if 'abs' in data else None\n", "            abs_err = data['abs'] if 'abs' in data else None\n            case_name = metadata['name']\n")]),
    Twin('tw-select-genexp', SYS, "myinputs = sorted([n for n in resolver.abs_iter('input')\n                                   if check_path(n, incl, excl)])",
         "myinputs = sorted(n for n in resolver.abs_iter('input')\n                                   if check_path(n, incl, excl))"),
    Twin('tw-order-default-asc', RDR, '" ORDER BY id ASC")  # nosec trusted input', '" ORDER BY id")  # nosec trusted input'),
    Twin('tw-row-source-flip', RDR, "if record_type == table and row == row_id:", "if row_id == row and table == record_type:"),
    # the two findings of the first round are repaired in /repo: their pre-fix shapes are mutants now
    Twin('tw-effective-output-explicit', DRV, "    if outputs._names or len(discrete_outputs) > 0:\n        data['output']",
         "    if (opts['record_outputs'] or filt['output']) and (outputs._names or len(discrete_outputs) > 0):\n        data['output']"),
    Twin('tw-rooted-flipped', RDR, "                        if not (source == 'root' or source.startswith('root.')):\n                            sources.add('root.' + source)\n                        else:\n                            sources.add(source)",
         "                        if source == 'root' or source.startswith('root.'):\n                            sources.add(source)\n                        else:\n                            sources.add('root.' + source)"),
    Twin('tw-residual-prom-temp', SYS, "                myresiduals = [n for n in self._residuals._abs_iter()\n                               if check_path(resolver.abs2prom(n, 'output'), incl, excl)]",
         "                a2p = resolver.abs2prom\n                myresiduals = [n for n in self._residuals._abs_iter()\n                               if check_path(a2p(n, 'output'), incl, excl)]".replace("a2p = resolver.abs2prom\n                ", "").replace("a2p(n", "self._resolver.abs2prom(n")),
    Twin('tw-started-not-in', REC, "        if recording_requester in self._started:\n            return\n\n        super().startup(recording_requester, comm)\n",
         "        if recording_requester not in self._started:\n            super().startup(recording_requester, comm)\n        else:\n            return\n"),
)
