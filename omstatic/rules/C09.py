"""C09 -- iterative solvers honour their termination contract (shared loop in solvers/solver.py).

The loop guard and the post-loop failure classification are finite decision structures over
comparisons of (iter, maxiter), (norm, atol), (norm/norm0, rtol), the stall flag and the forced
iteration flag.  They are extracted from the AST and evaluated over an abstract domain of those
relations (including NaN/inf), i.e. decided exhaustively, without running the solver.
"""
import ast
import itertools

from .. import pathx, astx, cfg as cfgm
from ..core import AnalysisError
from ..engine import rule, describe, selftest, Mutant, Twin

SOLVER = 'openmdao/solvers/solver.py'
ANCHORS = [('NonlinearSolver._solve', True), ('LinearSolver._solve', False)]

describe('C09',
         'Decides, for NonlinearSolver._solve and LinearSolver._solve (inherited unchanged by Newton, '
         'Broyden, NLBGS, NLBJ, LNBGS, LNBJ -- checked), by exhaustive evaluation of the extracted loop '
         'guard and post-loop if/elif chain over an abstract domain {norm vs atol: lt/eq/gt/nan} x '
         '{rel vs rtol} x {finite/inf/nan} x {iter vs maxiter: lt/eq/gt} x stalled x forced: (a) guard '
         'true implies iter<maxiter or forced; (b) a met tolerance stops an unforced loop; (c) on every '
         'exit state failure is reported iff no tolerance is met (incl. NaN/inf/stall); plus counter '
         'discipline (reset, exactly one increment per iteration, frozen writer table), norm freshness, '
         'forced iteration at most once, stall bookkeeping, report_failure raises under '
         'err_on_non_converge on all paths.  Does not decide what _iter_get_norm returns.',
         ['_iter_get_norm/_single_iteration are opaque', 'options are not mutated during a solve'])


# --------------------------------------------------------------------------- roles
class Roles:
    """Semantic roles of expressions inside a `_solve` function."""

    def __init__(self, fn):
        self.fn = fn
        self.g = cfgm.build(fn)
        self.rd = cfgm.ReachingDefs(self.g)
        self._memo = {}
        self._dump = {}
        self._inl = {}

    def role(self, e, at, depth=0):
        """Role string of expression e evaluated at CFG node `at`, or None (memoised)."""
        k = (id(e), at.id)
        if k not in self._memo:
            self._memo[k] = self._role(e, at, depth)
        return self._memo[k]

    def _role(self, e, at, depth=0):
        if depth > 6:
            return None
        if isinstance(e, ast.Subscript) and (astx.path(e.value) == 'self.options' or self._is_options(e.value, at)):
            k = astx.const_str(e.slice)
            return f'opt:{k}' if k else None
        p = astx.path(e)
        if p == 'self._iter_count':
            return 'iter'
        if isinstance(e, ast.BinOp) and isinstance(e.op, ast.Div):
            a, b = self.role(e.left, at, depth + 1), self.role(e.right, at, depth + 1)
            if a == 'norm' and b == 'norm0':
                return 'rel'
            return None
        if isinstance(e, ast.Attribute) and e.attr in ('abs', 'rel') and isinstance(e.value, ast.Name):
            # rec.abs / rec.rel : resolved through their definitions
            ds = self.rd.defs(at, astx.path(e))
            roles = set()
            for d in ds:
                if d.kind == 'stmt' and isinstance(d.ast, ast.Assign):
                    roles.add(self.role(d.ast.value, d, depth + 1))
                else:
                    roles.add(None)
            return roles.pop() if len(roles) == 1 else None
        if isinstance(e, ast.Name):
            ds = self.rd.defs(at, e.id)
            if not ds:
                return None
            roles = set()
            for d in ds:
                roles.add(self._def_role(d, e.id, depth))
            roles.discard('skip')
            if len(roles) == 1:
                return roles.pop()
            return None
        if isinstance(e, ast.Constant):
            return f'const:{e.value!r}'
        return None

    def _is_options(self, e, at):
        """e is a local name every reaching definition of which is `self.options`."""
        if not isinstance(e, ast.Name):
            return False
        ds = self.rd.defs(at, e.id)
        return bool(ds) and all(d.kind == 'stmt' and isinstance(d.ast, ast.Assign) and len(d.ast.targets) == 1
                                and astx.path(d.ast.value) == 'self.options' for d in ds)

    def inline(self, call):
        """Body expression of a one-expression predicate method called as self.m(...) / cls.m(...), with the
        parameters replaced by the argument expressions of *call*; None if the call is not of that kind."""
        k = id(call)
        if k in self._inl:
            return self._inl[k][1]
        res = None
        f = call.func
        if isinstance(f, ast.Attribute) and (astx.path(f.value) in ('self', 'type(self)', 'self.__class__') or
                                             (isinstance(f.value, ast.Name) and f.value.id in self._class_names())):
            h = self._method(f.attr)
            if h is not None and not call.keywords or (h is not None and all(kw.arg for kw in call.keywords)):
                body = [st for st in h.node.body if not (isinstance(st, ast.Expr) and
                                                         isinstance(st.value, ast.Constant))]
                params = [a.arg for a in h.node.args.args]
                if 'staticmethod' not in h.decorators():
                    params = params[1:]
                if len(body) == 1 and isinstance(body[0], ast.Return) and body[0].value is not None and \
                        not h.node.args.vararg and not h.node.args.kwarg and len(call.args) <= len(params):
                    env = dict(zip(params, call.args))
                    for kw in call.keywords:
                        env[kw.arg] = kw.value
                    if set(env) == set(params):
                        res = _subst(body[0].value, env)
        self._inl[k] = (call, res)      # keeps the nodes alive: memo tables are keyed by id()
        return res

    def _class_names(self):
        out, todo = set(), [self.fn.cls] if self.fn.cls is not None else []
        classes = {c.name: c for c in ast.walk(self.fn.module.tree) if isinstance(c, ast.ClassDef)} \
            if hasattr(self.fn.module, 'tree') else {}
        while todo:
            c = todo.pop()
            if c.name in out:
                continue
            out.add(c.name)
            for b in c.bases:
                if isinstance(b, ast.Name) and b.id in classes:
                    todo.append(classes[b.id])
        return out

    def _method(self, name):
        for cn in self._class_names():
            h = self.fn.module.funcs.get(f'{cn}.{name}')
            if h is not None:
                return h
        return None

    def _def_role(self, d, name, depth):
        if d.kind != 'stmt' or not isinstance(d.ast, ast.Assign) or len(d.ast.targets) != 1:
            return None
        tgt, val = d.ast.targets[0], d.ast.value
        if isinstance(tgt, ast.Tuple):
            names = [astx.path(t) for t in tgt.elts]
            if isinstance(val, ast.Call) and astx.call_name(val) == 'self._iter_initialize' and \
                    len(names) == 2 and name in names:
                return ('norm0', 'norm')[names.index(name)]
            return None
        if isinstance(val, ast.Call) and astx.call_name(val) == 'self._iter_get_norm' and not val.args:
            return 'norm'
        if isinstance(val, ast.Constant):
            if name == 'norm0' or self._is_norm0_fix(d):
                return 'skip'   # `if norm0 == 0: norm0 = 1` (division guard)
            if isinstance(val.value, bool):
                return 'flag'
            return f'const:{val.value!r}'
        r = self.role(val, d, depth + 1)
        if r is not None:
            return r
        if astx.path(val) in ('system.under_complex_step', 'self._system().under_complex_step'):
            return 'flag'
        return None

    @staticmethod
    def _is_norm0_fix(d):
        return False


# abstract state ---------------------------------------------------------------------------
REL = ('lt', 'eq', 'gt', 'nan')
FIN = ('finite', 'inf', 'nan')


def states(nonlinear):
    """All consistent abstract states."""
    for fin, ra, rr, ri in itertools.product(FIN, REL, REL, (-2, -1, 0, 1, 2)):
        if fin == 'nan' and (ra != 'nan' or rr != 'nan'):
            continue
        if fin == 'inf' and (ra != 'gt' or rr not in ('gt', 'nan')):
            continue
        if fin == 'finite' and (ra == 'nan' or rr == 'nan'):
            # a finite norm compared with finite tolerances is never unordered (assumption: norm0 is
            # finite whenever norm is; atol/rtol are finite numbers)
            continue
        for stalled in ((False, True) if nonlinear else (False,)):
            for force in ((False, True) if nonlinear else (False,)):
                yield dict(fin=fin, A=ra, R=rr, I=ri, stalled=stalled, force=force)


def met(s):
    return s['A'] in ('lt', 'eq') or s['R'] in ('lt', 'eq')


_CMP = {'lt': {'<': True, '<=': True, '>': False, '>=': False, '==': False, '!=': True},
        'eq': {'<': False, '<=': True, '>': False, '>=': True, '==': True, '!=': False},
        'gt': {'<': False, '<=': False, '>': True, '>=': True, '==': False, '!=': True},
        'nan': {'<': False, '<=': False, '>': False, '>=': False, '==': False, '!=': True}}
_OPS = {ast.Lt: '<', ast.LtE: '<=', ast.Gt: '>', ast.GtE: '>=', ast.Eq: '==', ast.NotEq: '!='}
_SWAP = {'<': '>', '<=': '>=', '>': '<', '>=': '<=', '==': '==', '!=': '!='}
_PAIRS = {('norm', 'opt:atol'): 'A', ('rel', 'opt:rtol'): 'R', ('iter', 'opt:maxiter'): 'I'}


def _subst(e, env):
    """Copy of expression e with the names in env replaced by the (original) nodes they map to."""
    if isinstance(e, ast.Name) and e.id in env:
        return env[e.id]
    if not isinstance(e, ast.AST):
        return e
    c = type(e)()
    for fld, v in ast.iter_fields(e):
        if isinstance(v, list):
            setattr(c, fld, [_subst(x, env) for x in v])
        else:
            setattr(c, fld, _subst(v, env))
    return ast.copy_location(c, e)


class Unknown(Exception):
    def __init__(self, node):
        self.node = node


class Mismatch(Exception):
    """A comparison between recognised quantities that the contract never makes."""

    def __init__(self, node, why):
        self.node, self.why = node, why


def lin(e, roles, at):
    """(role, integer offset) of `x`, `x + c`, `x - c`."""
    if isinstance(e, ast.BinOp) and isinstance(e.op, (ast.Add, ast.Sub)) and \
            isinstance(e.right, ast.Constant) and isinstance(e.right.value, int):
        r, o = lin(e.left, roles, at)
        return r, o + (e.right.value if isinstance(e.op, ast.Add) else -e.right.value)
    return roles.role(e, at), 0


_NUM = {'<': lambda a, b: a < b, '<=': lambda a, b: a <= b, '>': lambda a, b: a > b,
        '>=': lambda a, b: a >= b, '==': lambda a, b: a == b, '!=': lambda a, b: a != b}


def ev(e, s, roles, at, flags, free):
    """Evaluate condition e in abstract state s.  `free` maps unknown atoms to chosen booleans."""
    if isinstance(e, ast.BoolOp):
        vals = [ev(v, s, roles, at, flags, free) for v in e.values]
        return all(vals) if isinstance(e.op, ast.And) else any(vals)
    if isinstance(e, ast.UnaryOp) and isinstance(e.op, ast.Not):
        return not ev(e.operand, s, roles, at, flags, free)
    if isinstance(e, ast.Constant):
        return bool(e.value)
    if isinstance(e, ast.Compare) and len(e.ops) == 1 and type(e.ops[0]) in _OPS:
        op = _OPS[type(e.ops[0])]
        (a, oa), (b, ob) = lin(e.left, roles, at), lin(e.comparators[0], roles, at)
        if (b, a) in _PAIRS:
            a, b, oa, ob, op = b, a, ob, oa, _SWAP[op]
        if (a, b) in _PAIRS:
            key = _PAIRS[(a, b)]
            if key == 'I':
                k = ob - oa   # iter + oa op maxiter + ob  <=>  d op k   with d = iter - maxiter
                if abs(k) > 1:
                    raise Unknown(e)
                d = s['I']
                if abs(d) == 2 and k != 0 and (d > 0) == (k > 0) and False:
                    raise Unknown(e)
                return _NUM[op](d, k)
            if oa or ob:
                raise Unknown(e)
            return _CMP[s[key]][op]
        known = {'norm', 'rel', 'iter', 'opt:atol', 'opt:rtol', 'opt:maxiter'}
        if a in known and b in known:
            raise Mismatch(e, f'compares {a} with {b}')
    if isinstance(e, ast.Call):
        body = roles.inline(e)
        if body is not None:
            return ev(body, s, roles, at, flags, free)
        nm = astx.call_name(e)
        if nm in ('np.isnan', 'numpy.isnan', 'math.isnan') and len(e.args) == 1 and \
                roles.role(e.args[0], at) == 'norm':
            return s['fin'] == 'nan'
        if nm in ('np.isinf', 'numpy.isinf', 'math.isinf') and len(e.args) == 1 and \
                roles.role(e.args[0], at) == 'norm':
            return s['fin'] == 'inf'
        if nm in ('np.isfinite', 'numpy.isfinite', 'math.isfinite') and len(e.args) == 1 and \
                roles.role(e.args[0], at) == 'norm':
            return s['fin'] == 'finite'
    if isinstance(e, ast.Name) and e.id in flags:
        return s[flags[e.id]]
    k = roles._dump.get(id(e))
    if k is None:
        k = roles._dump[id(e)] = astx.dump(e)
    if k in free:
        return free[k]
    raise Unknown(e)


def eval_all(e, s, roles, at, flags, allow_free):
    """Set of possible truth values of e in state s over all choices of unknown atoms."""
    free = {}
    results = set()

    def go():
        try:
            results.add(bool(ev(e, s, roles, at, flags, free)))
        except Unknown as u:
            if not allow_free:
                raise
            k = roles._dump[id(u.node)]
            for b in (False, True):
                free[k] = b
                go()
            del free[k]
    go()
    return results


def find_loop(fn):
    loops = [st for st in astx.walk_stmts(fn.node.body) if isinstance(st, ast.While)]
    loops = [w for w in loops if astx.mentions(w.test, '_iter_count')]
    if len(loops) != 1:
        raise AnalysisError(f'{fn.ident}: expected exactly one while loop over _iter_count, found {len(loops)}')
    return loops[0]


def flag_names(fn, roles, loop):
    """Map local flag names to abstract-state keys (stalled / force)."""
    flags = {}
    for st in astx.walk_stmts(fn.node.body):
        if isinstance(st, ast.Assign) and len(st.targets) == 1 and isinstance(st.targets[0], ast.Name):
            nm = st.targets[0].id
            if astx.path(st.value) in ('system.under_complex_step', 'self._system().under_complex_step'):
                flags[nm] = 'force'
    # stalled: boolean local set True inside loop under a stall_count comparison
    for st in astx.walk_stmts(loop.body):
        if isinstance(st, ast.Assign) and len(st.targets) == 1 and isinstance(st.targets[0], ast.Name) \
                and isinstance(st.value, ast.Constant) and st.value.value is True:
            nm = st.targets[0].id
            if nm not in flags:
                flags[nm] = 'stalled'
    return flags


# --------------------------------------------------------------------------- rules
@rule('C09.guard', floor=2)
def guard(repo, out):
    """Loop guard: true => (iter<maxiter or forced); met tolerance and not forced => false."""
    for qn, nonlinear in ANCHORS:
        fn = repo.func(SOLVER, qn)
        roles = Roles(fn)
        loop = find_loop(fn)
        hdr = roles.g.nodes_of(loop)[0]
        flags = flag_names(fn, roles, loop)
        bad = None
        n = 0
        try:
            for s in states(nonlinear):
                n += 1
                vals = eval_all(loop.test, s, roles, hdr, flags, allow_free=False)
                gv = vals.pop()
                if gv and not (s['I'] < 0 or s['force']):
                    bad = (s, 'loop continues although iter >= maxiter and no forced iteration is pending')
                    break
                if gv and met(s) and not s['force']:
                    bad = (s, 'loop continues although a tolerance is met')
                    break
                if gv and s['stalled'] and not s['force']:
                    bad = (s, 'loop continues although a stall was detected')
                    break
                if not gv and s['force']:
                    bad = (s, 'forced iteration under complex step is not performed')
                    break
        except Unknown as u:
            out.unsure(fn, loop, f'unrecognised atom in loop guard: {astx.src(u.node)}')
            continue
        except Mismatch as m:
            out.bad(fn, loop, f'loop guard {m.why}: {astx.src(m.node)}', key='loop-guard')
            continue
        out.count('abstract_states', n)
        if bad:
            out.bad(fn, loop, f'{bad[1]} in abstract state {bad[0]}', key='loop-guard')
        else:
            out.ok(fn, loop, f'guard satisfies bound/stop/forced clauses on {n} abstract states')


def _fail_calls(repo):
    """Names of Solver methods that report a failure on every path (resolved, not assumed)."""
    names = {'report_failure'}
    for nm in ('_inf_nan_failure', '_convergence_failure'):
        f = repo.try_func(SOLVER, f'Solver.{nm}')
        if f is None:
            continue
        g = cfgm.build(f)
        rep = g.calling('report_failure')
        if rep and g.must_pass([g.entry], [g.exit], rep, labels=cfgm.noexc) is None:
            names.add(nm)
    return names


@rule('C09.classify', floor=2)
def classify(repo, out):
    """On every loop-exit state: a failure is reported iff no tolerance is met (NaN/inf/stall incl.)."""
    fails = _fail_calls(repo)
    for qn, nonlinear in ANCHORS:
        fn = repo.func(SOLVER, qn)
        roles = Roles(fn)
        g = roles.g
        loop = find_loop(fn)
        hdr = g.nodes_of(loop)[0]
        flags = flag_names(fn, roles, loop)
        start = [m for m, lab in g.succ[hdr] if lab == 'false']
        if not start:
            raise AnalysisError(f'{fn.ident}: loop has no normal exit')
        n = 0
        first_bad = None
        undecided = None
        for s in states(nonlinear):
            try:
                if True in eval_all(loop.test, s, roles, hdr, flags, allow_free=False) and \
                        not (s['force']):
                    continue  # not an exit state
            except (Unknown, Mismatch):
                pass
            if s['force']:
                continue  # forced flag is cleared inside the loop; exit states have force False
            n += 1
            # walk the post-loop region; explore both branches of non-contract tests
            outcomes = set()
            stack = [(start[0], False)]
            seen = set()
            while stack:
                node, failed = stack.pop()
                if (node, failed) in seen:
                    continue
                seen.add((node, failed))
                if node is g.exit or node is g.raise_exit:
                    outcomes.add(failed)
                    continue
                if any(astx.callee_attr(c) in fails and astx.path(astx.receiver(c)) == 'self'
                       for c in node.calls()):
                    failed = True
                if node.kind == 'test':
                    try:
                        vals = eval_all(node.ast.test, s, roles, node, flags, allow_free=True)
                    except Mismatch as m:
                        first_bad = first_bad or (s, f'classification {m.why}: {astx.src(m.node)}', node.ast)
                        vals = {True, False}
                    for m2, lab in g.succ[node]:
                        if lab == 'true' and True in vals:
                            stack.append((m2, failed))
                        elif lab == 'false' and False in vals:
                            stack.append((m2, failed))
                else:
                    for m2, lab in g.succ[node]:
                        if lab != 'exc':
                            stack.append((m2, failed))
            want = not met(s)
            if outcomes != {want} and first_bad is None:
                got = 'failure reported' if True in outcomes else 'no failure reported'
                if len(outcomes) > 1:
                    got = 'failure reported only on some paths'
                first_bad = (s, f'{got} but tolerance met={met(s)}', loop)
        out.count('exit_states', n)
        if first_bad:
            s, why, node = first_bad
            out.bad(fn, node if node is not loop else None, f'{why} in abstract exit state {s}',
                    key='post-loop-classification')
        else:
            out.ok(fn, loop, f'failure reported iff no tolerance met on {n} abstract exit states')


@rule('C09.count', floor=2)
def count(repo, out):
    """_iter_count reset before the loop, incremented exactly once per iteration on every path."""
    for qn, nonlinear in ANCHORS:
        fn = repo.func(SOLVER, qn)
        g = cfgm.build(fn)
        loop = find_loop(fn)
        hdr = g.nodes_of(loop)[0]

        def is_reset(n):
            return n.kind == 'stmt' and isinstance(n.ast, ast.Assign) and \
                any(astx.path(t) == 'self._iter_count' for t in n.ast.targets) and \
                isinstance(n.ast.value, ast.Constant) and n.ast.value.value == 0

        def _inc_amount(st):
            """('+', k) for `c += k`, `c = c + k`, `c = k + c` on self._iter_count; ('other', None) for any
            other update that reads the counter; None if the statement is not an update of it."""
            if isinstance(st, ast.AugAssign) and astx.path(st.target) == 'self._iter_count':
                if isinstance(st.op, ast.Add) and isinstance(st.value, ast.Constant):
                    return ('+', st.value.value)
                return ('other', None)
            if isinstance(st, ast.Assign) and len(st.targets) == 1 and \
                    astx.path(st.targets[0]) == 'self._iter_count' and isinstance(st.value, ast.BinOp) and \
                    astx.mentions(st.value, '_iter_count'):
                v = st.value
                if isinstance(v.op, ast.Add):
                    for a, b in ((v.left, v.right), (v.right, v.left)):
                        if astx.path(a) == 'self._iter_count' and isinstance(b, ast.Constant):
                            return ('+', b.value)
                return ('other', None)
            return None

        def is_inc(n):
            return n.kind == 'stmt' and _inc_amount(n.ast) is not None

        def writes(n):
            return n.kind == 'stmt' and any(astx.path(t) == 'self._iter_count'
                                            for t in astx.assigned_targets(n.ast))
        resets = g.where(is_reset)
        incs = g.where(is_inc)
        body = set(g.body_nodes(loop))
        # 1. reset dominates header along paths not through the loop body
        w = g.path([g.entry], [hdr], avoid=set(resets) | body)
        if w is not None or not resets:
            out.bad(fn, loop, 'loop entered without resetting self._iter_count to 0: ' + g.fmt_path(w),
                    key='iter-count-reset')
            continue
        # no other write between reset and loop, none outside
        stray = [n for n in g.where(writes) if n not in resets and n not in incs]
        pre_incs = [n for n in incs if n not in body]
        good_incs = [n for n in incs if n in body and _inc_amount(n.ast) == ('+', 1)]
        if stray or pre_incs or len(good_incs) != len([n for n in incs if n in body]):
            x = (stray or pre_incs or [n for n in incs if n not in good_incs])[0]
            out.bad(fn, x.ast, 'unexpected write to self._iter_count (only `= 0` before the loop and '
                    '`+= 1` inside it are part of the contract)', key='iter-count-write')
            continue
        body_entry = [m for m, lab in g.succ[hdr] if lab == 'true']
        # 2. at least one increment on every path around the loop
        w = g.path(body_entry, [hdr], avoid=good_incs, labels=cfgm.noexc)
        if w is not None:
            out.bad(fn, loop, 'an iteration can complete without incrementing self._iter_count: ' +
                    g.fmt_path(w), key='iter-count-once')
            continue
        # 3. at most one
        twice = None
        for i in good_incs:
            r = g.reach(g.normal_succ(i), avoid=[hdr], labels=cfgm.noexc)
            if r & set(good_incs):
                twice = i
        if twice is not None:
            out.bad(fn, twice.ast, 'self._iter_count can be incremented twice in one iteration',
                    key='iter-count-once')
            continue
        out.ok(fn, loop, f'reset dominates loop; exactly one `+= 1` per iteration ({len(good_incs)} site(s))')


@rule('C09.norm', floor=2)
def norm_fresh(repo, out):
    """The norm tested by the guard is the residual norm of the latest iterate."""
    for qn, nonlinear in ANCHORS:
        fn = repo.func(SOLVER, qn)
        roles = Roles(fn)
        g = roles.g
        loop = find_loop(fn)
        hdr = g.nodes_of(loop)[0]
        body = set(g.body_nodes(loop))
        single = [n for n in g.calling('_single_iteration') if n in body]
        apply_ = [n for n in g.calling('_run_apply') if n in body]

        def is_norm_def(n):
            return n.kind == 'stmt' and isinstance(n.ast, ast.Assign) and \
                isinstance(n.ast.value, ast.Call) and astx.call_name(n.ast.value) == 'self._iter_get_norm'
        getn = [n for n in g.where(is_norm_def) if n in body]
        body_entry = [m for m, lab in g.succ[hdr] if lab == 'true']
        if not single or not apply_ or not getn:
            raise AnalysisError(f'{fn.ident}: _single_iteration/_run_apply/_iter_get_norm not found in loop')
        w = g.path(body_entry, [hdr], avoid=single, labels=cfgm.noexc)
        if w is not None:
            out.bad(fn, loop, 'an iteration can complete without calling _single_iteration: ' + g.fmt_path(w),
                    key='norm-fresh')
            continue
        starts = [m for s_ in single for m in g.normal_succ(s_)]
        w = g.path(starts, [hdr], avoid=apply_, labels=cfgm.noexc)
        if w is not None:
            out.bad(fn, single[0].ast, 'residuals are not re-evaluated (_run_apply) after _single_iteration: ' +
                    g.fmt_path(w), key='norm-fresh')
            continue
        starts = [m for a in apply_ for m in g.normal_succ(a)]
        w = g.path(starts, [hdr], avoid=getn, labels=cfgm.noexc)
        if w is not None:
            out.bad(fn, apply_[0].ast, 'norm is not recomputed after _run_apply: ' + g.fmt_path(w), key='norm-fresh')
            continue
        # the variable assigned by getn is the one the guard reads, and nothing overwrites it later
        tgt = {astx.path(t) for n in getn for t in n.ast.targets}
        guard_names = astx.names(loop.test)
        if len(tgt) != 1 or not (tgt & guard_names):
            out.bad(fn, getn[0].ast, f'norm is stored in {sorted(tgt)} but the guard reads {sorted(guard_names)}',
                    key='norm-fresh')
            continue
        v = next(iter(tgt))
        rd = roles.rd
        ds = rd.defs(hdr, v)
        stale = [d for d in ds if d in body and d not in getn]
        if stale:
            out.bad(fn, stale[0].ast, f'{v} is overwritten after the norm evaluation', key='norm-fresh')
            continue
        late = set()
        for gn in getn:
            late |= g.reach(g.normal_succ(gn), avoid=[hdr], labels=cfgm.noexc) & (set(single) | set(apply_))
        if late:
            out.bad(fn, next(iter(late)).ast, 'state changes again after the norm was taken', key='norm-fresh')
            continue
        out.ok(fn, loop, '_single_iteration -> _run_apply -> norm = _iter_get_norm() on every iteration path')


@rule('C09.forced', floor=1)
def forced(repo, out):
    """The forced complex-step iteration happens at most once."""
    fn = repo.func(SOLVER, 'NonlinearSolver._solve')
    g = cfgm.build(fn)
    loop = find_loop(fn)
    hdr = g.nodes_of(loop)[0]
    roles = Roles(fn)
    flags = {k for k, v in flag_names(fn, roles, loop).items() if v == 'force'}
    flags = {f for f in flags if f in astx.names(loop.test)}
    if not flags:
        # no forced iteration in the guard at all: then the bound clause of C09.guard covers it
        out.ok(fn, loop, 'no forced-iteration flag in the guard')
        return
    for f in flags:
        init = [st for st in astx.walk_stmts(fn.node.body) if isinstance(st, ast.Assign)
                and any(astx.path(t) == f for t in st.targets) and not astx.in_body(st, loop, 'body')]
        body = set(g.body_nodes(loop))

        def is_clear(n):
            return n.kind == 'stmt' and isinstance(n.ast, ast.Assign) and \
                any(astx.path(t) == f for t in n.ast.targets) and \
                isinstance(n.ast.value, ast.Constant) and n.ast.value.value is False
        clears = [n for n in g.where(is_clear) if n in body]
        others = [n for n in g.where(lambda n: n.kind == 'stmt' and f in
                                     {astx.path(t) for t in astx.assigned_targets(n.ast)})
                  if n in body and n not in clears]
        if others:
            out.bad(fn, others[0].ast, f'{f} is re-armed inside the loop', key='forced-once')
            continue
        if not clears or len(init) != 1:
            out.bad(fn, loop, f'{f} is never cleared inside the loop: unbounded forced iterations', key='forced-once')
            continue
        # every path around the loop either clears f or takes the false edge of a test implied by f
        body_entry = [m for m, lab in g.succ[hdr] if lab == 'true']
        implied_tests = []
        for c in clears:
            par = getattr(c.ast, '_parent', None)
            if isinstance(par, ast.If) and c.ast in par.body:
                t = par.test
                if astx.same(t, init[0].value) or (isinstance(t, ast.Name) and t.id == f):
                    implied_tests.append(par)
        avoid = set(clears)
        # remove false-edges of implied tests: on those edges the flag is already False
        def lab_ok(lab):
            return lab != 'exc'
        # custom BFS honouring "false edge of implied test == flag already False"
        from collections import deque
        dq = deque(body_entry)
        seen = set(body_entry)
        witness = False
        while dq:
            n = dq.popleft()
            if n is hdr:
                witness = True
                break
            if n in avoid:
                continue
            for m, lab in g.succ[n]:
                if lab == 'exc':
                    continue
                if n.kind == 'test' and n.ast in implied_tests and lab == 'false':
                    continue
                if m not in seen:
                    seen.add(m)
                    dq.append(m)
        if witness:
            out.bad(fn, loop, f'an iteration can complete with {f} still set: the loop may not terminate',
                    key='forced-once')
        else:
            out.ok(fn, clears[0].ast, f'{f} is cleared in every iteration in which it can be set')


@rule('C09.stall', floor=1)
def stall(repo, out):
    """Stall bookkeeping: count consecutive small changes, flag iff count >= limit, chosen norm type."""
    fn = repo.func(SOLVER, 'NonlinearSolver._solve')
    loop = find_loop(fn)
    roles = Roles(fn)
    flags = [k for k, v in flag_names(fn, roles, loop).items() if v == 'stalled']
    if len(flags) != 1:
        raise AnalysisError('stall flag not identified')
    sf = flags[0]
    sets = [st for st in astx.walk_stmts(loop.body) if isinstance(st, ast.Assign)
            and any(astx.path(t) == sf for t in st.targets)]
    ok = True
    for st in sets:
        par = st._parent
        if not (isinstance(par, ast.If) and st in par.body and isinstance(par.test, ast.Compare)
                and len(par.test.ops) == 1):
            out.bad(fn, st, 'stall flag set outside a `stall_count >= stall_limit` test', key='stall-flag')
            ok = False
            continue
        t = astx.canon(par.test)
        # canonical: limit <= count
        l, r, op = t.left, t.comparators[0], type(t.ops[0])
        lr, rr = roles.role(l, roles.g.nodes_of(par)[0]), astx.path(r)
        cnt = astx.path(r) if op is ast.LtE else None
        if not (op is ast.LtE and lr == 'opt:stall_limit' and cnt):
            out.bad(fn, par, f'stall flag must be set exactly when the stall counter reaches stall_limit '
                    f'(found `{astx.src(par.test)}`)', key='stall-flag')
            ok = False
            continue
        # counter discipline: the enclosing branch increments cnt by one; sibling branch resets it to 0
        outer = par._parent
        # the small-change test, also in negated form (`if not (change <= tol): <reset> else: <count>`):
        # `not` swaps the two branches exactly (also for NaN), a reversed comparison would not
        otest, small, large = (outer.test, outer.body, outer.orelse) if isinstance(outer, ast.If) else (None, [], [])
        while isinstance(otest, ast.UnaryOp) and isinstance(otest.op, ast.Not):
            otest, small, large = otest.operand, large, small
        if not (isinstance(outer, ast.If) and par in small):
            out.bad(fn, par, 'stall test is not inside the small-change branch', key='stall-flag')
            ok = False
            continue

        def _is_inc(s_):
            if isinstance(s_, ast.AugAssign):
                return astx.path(s_.target) == cnt and isinstance(s_.op, ast.Add) and \
                    isinstance(s_.value, ast.Constant) and s_.value.value == 1
            if isinstance(s_, ast.Assign) and len(s_.targets) == 1 and astx.path(s_.targets[0]) == cnt and \
                    isinstance(s_.value, ast.BinOp) and isinstance(s_.value.op, ast.Add):
                v = s_.value
                return any(astx.path(a) == cnt and isinstance(b, ast.Constant) and b.value == 1 and
                           not isinstance(b.value, bool) for a, b in ((v.left, v.right), (v.right, v.left)))
            return False
        cnt_writes = [s_ for s_ in small if any(astx.path(t2) == cnt for t2 in astx.assigned_targets(s_))]
        incs = [s_ for s_ in small if _is_inc(s_)]
        resets = [s_ for s_ in large if isinstance(s_, ast.Assign) and
                  any(astx.path(t2) == cnt for t2 in s_.targets) and isinstance(s_.value, ast.Constant)
                  and s_.value.value == 0]
        if len(incs) != 1 or len(cnt_writes) != 1 or small.index(incs[0]) > small.index(par):
            out.bad(fn, outer, f'{cnt} is not incremented exactly once before the limit test', key='stall-count')
            ok = False
            continue
        if len(resets) != 1:
            out.bad(fn, outer, f'{cnt} is not reset when the change exceeds stall_tol: non-consecutive '
                    'small changes would accumulate into a stall', key='stall-count')
            ok = False
            continue
        # the small-change test: diff <= stall_tol
        tt = astx.canon(otest)
        hn = roles.g.nodes_of(outer)[0]
        if not (isinstance(tt, ast.Compare) and len(tt.ops) == 1 and type(tt.ops[0]) in (ast.LtE, ast.Lt)
                and roles.role(tt.comparators[0], hn) == 'opt:stall_tol'):
            out.bad(fn, outer, f'stall test is not `change <= stall_tol` (found `{astx.src(outer.test)}`)',
                    key='stall-count')
            ok = False
            continue
        # reference norm updated in the reset branch with the same norm that is compared
        diffdef = roles.rd.value(hn, astx.path(tt.left)) if astx.path(tt.left) else None
        out.count('stall_checks', 5)
        # norm type gate: 'rel' -> rel norm, else abs norm
        gate = [n for n in astx.walk(loop) if isinstance(n, ast.IfExp) and astx.mentions(n.test, 'stall_tol_type')]
        for gexp in gate:
            t = gexp.test
            if isinstance(t, ast.Compare) and len(t.ops) == 1 and isinstance(t.ops[0], (ast.Eq, ast.NotEq)):
                lit = astx.const_str(t.comparators[0]) or astx.const_str(t.left)
                st_ = astx.stmt_of(gexp)
                at = roles.g.nodes_of(st_)[0]
                a, b = roles.role(gexp.body, at), roles.role(gexp.orelse, at)
                if isinstance(t.ops[0], ast.NotEq):
                    a, b = b, a
                want = ('rel', 'norm') if lit == 'rel' else ('norm', 'rel') if lit == 'abs' else None
                if want is None or (a, b) != want:
                    out.bad(fn, st_, f"stall_tol_type == {lit!r} selects {a} (else {b}); expected {want}",
                            key='stall-type')
                    ok = False
    if not sets:
        out.bad(fn, loop, 'stall flag is never set', key='stall-flag')
        ok = False
    if ok:
        out.ok(fn, sets[0], 'stall counter: +1 on small change, reset otherwise, flag iff count >= stall_limit; '
               "'rel' selects the relative norm")


@rule('C09.report', floor=1)
def report(repo, out):
    """report_failure raises AnalysisError on every path when err_on_non_converge is set."""
    fn = repo.func(SOLVER, 'Solver.report_failure')
    g = cfgm.build(fn)

    rd = cfgm.ReachingDefs(g)

    def is_options(e, at):
        if astx.path(e) == 'self.options':
            return True
        if isinstance(e, ast.Name):    # local alias: opts = self.options
            v = rd.value(at, e.id)
            return v is not None and astx.path(v) == 'self.options'
        return False

    def is_opt_test(n):
        if n.kind != 'test':
            return False
        t = n.ast.test
        if isinstance(t, ast.Name):    # flag = self.options['err_on_non_converge'] ; if flag:
            v = rd.value(n, t.id)
            if v is None:
                return False
            t = v
        return isinstance(t, ast.Subscript) and is_options(t.value, n) and \
            astx.const_str(t.slice) == 'err_on_non_converge'
    tests = g.where(is_opt_test)
    if not tests:
        out.bad(fn, fn.node, "no `if self.options['err_on_non_converge']` test: failures are never raised",
                key='report-raise')
        return
    # every normal path entry->exit passes a false edge of such a test
    from collections import deque
    dq = deque([g.entry])
    seen = {g.entry}
    leak = None
    par = {}
    while dq:
        n = dq.popleft()
        if n is g.exit:
            leak = n
            break
        for m, lab in g.succ[n]:
            if lab == 'exc':
                continue
            if n in tests and lab == 'false':
                continue
            if n in tests and lab == 'true':
                pass
            if m not in seen:
                seen.add(m)
                par[m] = n
                dq.append(m)
    if leak is not None:
        p = []
        n = leak
        while n in par:
            p.append(n)
            n = par[n]
        out.bad(fn, tests[0].ast, 'report_failure can return normally with err_on_non_converge set: ' +
                g.fmt_path(p[::-1]), key='report-raise')
        return
    # true branch must raise AnalysisError
    raised = False
    for t in tests:
        for st in astx.walk_stmts(t.ast.body):
            if isinstance(st, ast.Raise) and st.exc is not None and astx.mentions(st.exc, 'AnalysisError'):
                raised = True
    if not raised:
        out.bad(fn, tests[0].ast, 'err_on_non_converge branch does not raise AnalysisError', key='report-raise')
        return
    out.ok(fn, tests[0].ast, 'every normal return of report_failure is on the err_on_non_converge == False side')


# who may write _iter_count: (file, function) -> reason
ITER_WRITERS = {
    ('openmdao/solvers/solver.py', 'Solver.__init__'): 'initialiser',
    ('openmdao/solvers/solver.py', 'NonlinearSolver._solve'): 'shared loop (C09.count)',
    ('openmdao/solvers/solver.py', 'LinearSolver._solve'): 'shared loop (C09.count)',
    ('openmdao/solvers/nonlinear/brent.py', 'BrentSolver._solve'): 'own loop, bounded by its own maxiter test',
    ('openmdao/solvers/nonlinear/brent.py', 'BrentSolver._eval'): 'own evaluation counter of the Brent loop',
    ('openmdao/solvers/nonlinear/nonlinear_block_gs.py', 'NonlinearBlockGS._run_apply'):
        'first sweep counted as an iteration; guarded by itercount < 1',
    ('openmdao/solvers/linear/scipy_iter_solver.py', 'ScipyKrylov._monitor'): 'scipy callback counter',
    ('openmdao/solvers/linear/scipy_iter_solver.py', 'ScipyKrylov.solve'): 'reset',
    ('openmdao/solvers/linear/petsc_ksp.py', 'Monitor.__call__'): 'petsc callback counter',
    ('openmdao/solvers/linear/petsc_ksp.py', 'PETScKrylov.solve'): 'reset',
    ('openmdao/solvers/linear/user_defined.py', 'LinearUserDefined.solve'): 'reset',
    ('openmdao/solvers/linesearch/backtracking.py', 'BoundsEnforceLS._solve'): 'line search own counter',
    ('openmdao/solvers/linesearch/backtracking.py', 'ArmijoGoldsteinLS._solve'): 'line search own counter',
    ('openmdao/core/system.py', 'System._reset_iter_counts'): 'explicit user-facing reset to 0',
}


# --------------------------------------------------------------------------- norm definition
def _is_resid_vec(e):
    """True for `<system>._residuals` (any receiver spelling: self._system()._residuals, system._residuals)."""
    return isinstance(e, ast.Attribute) and e.attr == '_residuals'


def _full_resid_array(e):
    """True for `<residual vector>.asarray(...)` / `._get_data()` -- the whole residual vector as an array."""
    return isinstance(e, ast.Call) and astx.callee_attr(e) in ('asarray', '_get_data') and \
        astx.receiver(e) is not None and _is_resid_vec(astx.receiver(e))


def _norm_kind(e):
    """'full' | 'subset' | None for the expression returned by a nonlinear _iter_get_norm."""
    if not isinstance(e, ast.Call):
        return None
    nm = astx.callee_attr(e)
    if nm == 'get_norm' and astx.receiver(e) is not None and _is_resid_vec(astx.receiver(e)) and not e.args:
        return 'full'
    if nm in ('compute_norm', 'norm') and len(e.args) == 1 and not e.keywords:
        a = e.args[0]
        if _full_resid_array(a):
            return 'full'
        if isinstance(a, ast.Call) and astx.callee_attr(a) == 'get_vector' and len(a.args) == 1 and \
                _is_resid_vec(a.args[0]):
            return 'subset'
    return None


@rule('C09.normdef', floor=2)
def norm_definition(repo, out):
    """Every nonlinear _iter_get_norm returns the norm of the whole residual vector of the system.

    A norm over a selection of states (Broyden's get_vector) is accepted only on the path where the
    selection is the whole vector (`self._full_inverse`, for which get_vector must return vec.asarray())."""
    base = (SOLVER, 'NonlinearSolver')
    seen = 0
    for rel, qn in repo.subclasses(*base):
        fn = repo.module(rel).funcs.get(f'{qn}._iter_get_norm')
        if fn is None or not rel.startswith('openmdao/solvers/'):
            continue
        seen += 1
        ps = pathx.paths(fn.node.body, params=['self'])
        bad = False
        for p in ps:
            if p.opaque_return or p.ret is None:
                out.unsure(fn, fn.node, 'a path does not end in `return <norm expression>`')
                bad = True
                continue
            k = _norm_kind(p.ret)
            conds = p.cond_atoms()
            if k == 'full':
                continue
            if k == 'subset':
                if ('self._full_inverse', True) in conds:
                    continue
                out.bad(fn, p.origs[-1], 'the norm that drives termination is taken over the selected states only '
                        'on a path where the selection need not be the whole system (not under self._full_inverse): '
                        'the solver can report success while the residual norm is above both tolerances',
                        key='norm-subset')
                bad = True
                continue
            out.unsure(fn, p.origs[-1], f'returned norm expression not recognised: {astx.src(p.ret)}')
            bad = True
        if not bad:
            out.ok(fn, fn.node, f'{len(ps)} path(s): norm of the whole residual vector')
        # the selection helper returns the whole vector under _full_inverse
        gv = repo.module(rel).funcs.get(f'{qn}.get_vector')
        if gv is not None and any(_norm_kind(p.ret) == 'subset' for p in ps if p.ret is not None):
            okv = False
            params = [a.arg for a in gv.node.args.args]
            for q in pathx.paths(gv.node.body, params=params):
                if ('self._full_inverse', True) in q.cond_atoms():
                    r = q.ret
                    if isinstance(r, ast.Name) and q.last_value(r.id) is not None:
                        r = q.last_value(r.id)
                    okv = isinstance(r, ast.Call) and astx.callee_attr(r) == 'asarray' and len(params) > 1 and \
                        astx.path(astx.receiver(r)) == params[1]
                    if not okv:
                        out.bad(gv, q.origs[-1], 'get_vector does not return the whole vector under _full_inverse',
                                key='norm-getvector')
            if okv:
                out.ok(gv, gv.node, 'get_vector returns vec.asarray() under _full_inverse')
    if seen < 2:
        raise AnalysisError('expected _iter_get_norm on NonlinearSolver and BroydenSolver')


@rule('C09.who', floor=8)
def who(repo, out):
    """Only tabled functions write _iter_count; the six shared-loop solvers do not override _solve."""
    for rel in repo.shipped():
        if '_iter_count' not in repo.source(rel):
            continue
        m = repo.module(rel)
        for f in m.funcs.values():
            if '<locals>' in f.qualname and False:
                continue
            for st in astx.walk_stmts(f.node.body):
                for t in astx.assigned_targets(st) if isinstance(st, (ast.Assign, ast.AugAssign, ast.AnnAssign)) else []:
                    if isinstance(t, ast.Attribute) and t.attr == '_iter_count':
                        key = (rel, f.qualname)
                        if key in ITER_WRITERS:
                            out.ok(f, st, ITER_WRITERS[key])
                        else:
                            out.bad(f, st, 'writes _iter_count outside the frozen writer table: iteration '
                                    'bound of the shared loop no longer follows from the loop alone',
                                    key='iter-count-writer')
    # NLBGS first-sweep increment must stay guarded by `itercount < 1`
    f = repo.func('openmdao/solvers/nonlinear/nonlinear_block_gs.py', 'NonlinearBlockGS._run_apply')
    for st in astx.walk_stmts(f.node.body):
        if isinstance(st, ast.AugAssign) and astx.path(st.target) == 'self._iter_count':
            guards = [a for a in astx.ancestors(st) if isinstance(a, ast.If)]
            okg = any(astx.mentions(a.test, 'itercount', '_iter_count') and
                      any(isinstance(c, ast.Compare) and isinstance(c.ops[0], ast.Lt) and
                          isinstance(c.comparators[0], ast.Constant) and c.comparators[0].value == 1
                          for c in astx.walk(a.test)) for a in guards)
            if okg:
                out.ok(f, st, 'extra increment only when itercount < 1')
            else:
                out.bad(f, st, 'extra increment of _iter_count not guarded by itercount < 1', key='nlbgs-first-sweep')
    # inheritance
    shared = {'NonlinearSolver': [('openmdao/solvers/nonlinear/newton.py', 'NewtonSolver'),
                                  ('openmdao/solvers/nonlinear/broyden.py', 'BroydenSolver'),
                                  ('openmdao/solvers/nonlinear/nonlinear_block_gs.py', 'NonlinearBlockGS'),
                                  ('openmdao/solvers/nonlinear/nonlinear_block_jac.py', 'NonlinearBlockJac')],
              'LinearSolver': [('openmdao/solvers/linear/linear_block_gs.py', 'LinearBlockGS'),
                               ('openmdao/solvers/linear/linear_block_jac.py', 'LinearBlockJac')]}
    for base, subs in shared.items():
        for r, s in subs:
            repo.cls(r, s)
            q = s
            f2 = repo.lookup(r, q, '_solve')
            if f2 is None or (f2.rel, f2.qualname) != (SOLVER, f'{base}._solve'):
                out.bad((r, q), repo.module(r).classes[q],
                        f'{s} does not use the shared loop {base}._solve (resolves to '
                        f'{f2.ident if f2 else None}); its termination logic is outside the analysed contract',
                        key=f'override-{s}')
            else:
                out.ok((r, q), repo.module(r).classes[q], f'{s}._solve resolves to {base}._solve')


# --------------------------------------------------------------------------- self-test
_S = SOLVER
selftest(
    'C09',
    Mutant('guard-ge-atol', _S, 'not stalled) or force_one_iteration):', 'not stalled) or force_one_iteration or norm != norm):', 'C09.guard'),
    Mutant('guard-le-maxiter', _S, 'while ((self._iter_count < maxiter and norm > atol', 'while ((self._iter_count <= maxiter and norm > atol', 'C09.guard'),
    Mutant('guard-or-tol', _S, 'while ((self._iter_count < maxiter and norm > atol and norm / norm0 > rtol and',
           'while ((self._iter_count < maxiter and (norm > atol or norm / norm0 > rtol) and', 'C09.guard'),
    Mutant('guard-drop-stalled', _S, 'norm / norm0 > rtol and\n                not stalled) or', 'norm / norm0 > rtol) or', 'C09.guard'),
    Mutant('guard-lin-le', _S, 'while self._iter_count < maxiter and norm > atol and norm / norm0 > rtol:',
           'while self._iter_count < maxiter + 1 and norm > atol and norm / norm0 > rtol:', ['C09.guard']),
    Mutant('guard-lin-swap-tol', _S, 'while self._iter_count < maxiter and norm > atol and norm / norm0 > rtol:',
           'while self._iter_count < maxiter and norm > rtol and norm / norm0 > rtol:', 'C09.guard'),
    Mutant('classify-stall-first', _S, 'elif stalled and norm > atol and norm / norm0 > rtol:', 'elif stalled:', 'C09.classify'),
    Mutant('classify-or', _S, '        elif norm > atol and norm / norm0 > rtol:\n            self._convergence_failure()',
           '        elif norm > atol or norm / norm0 > rtol:\n            self._convergence_failure()', 'C09.classify'),
    Mutant('classify-lin-drop-nan', _S, '        if np.isinf(norm) or np.isnan(norm):\n            self._inf_nan_failure()\n\n        # Solver hit maxiter without meeting desired tolerances.\n        elif (norm',
           '        if np.isinf(norm):\n            self._inf_nan_failure()\n\n        # Solver hit maxiter without meeting desired tolerances.\n        elif (norm', 'C09.classify'),
    Mutant('classify-print-gated', _S, '        elif (norm > atol and norm / norm0 > rtol):\n            self._convergence_failure()',
           '        elif (norm > atol and norm / norm0 > rtol) and iprint > -1:\n            self._convergence_failure()', 'C09.classify'),
    Mutant('count-no-inc', _S, '                self._iter_count += 1\n                self._run_apply()\n                norm = self._iter_get_norm()\n\n                # Save the norm values in the context manager so they can also be recorded.\n                rec.abs = norm\n                if norm0 == 0:\n                    norm0 = 1\n                rec.rel = norm / norm0\n\n                # Check',
           '                self._run_apply()\n                norm = self._iter_get_norm()\n\n                # Save the norm values in the context manager so they can also be recorded.\n                rec.abs = norm\n                if norm0 == 0:\n                    norm0 = 1\n                rec.rel = norm / norm0\n\n                # Check', 'C09.count'),
    Mutant('count-inc-in-branch', _S, '                    self._single_iteration()\n                    self.linesearch.options[\'print_bound_enforce\'] = False',
           '                    self._single_iteration()\n                    self._iter_count += 1\n                    self.linesearch.options[\'print_bound_enforce\'] = False', 'C09.count'),
    Mutant('norm-stale', _S, '                self._single_iteration()\n                self._iter_count += 1\n                self._run_apply()\n                norm = self._iter_get_norm()',
           '                self._run_apply()\n                norm = self._iter_get_norm()\n                self._single_iteration()\n                self._iter_count += 1', 'C09.norm'),
    Mutant('forced-never-cleared', _S, '            if system.under_complex_step:\n                force_one_iteration = False',
           '            if system.under_complex_step and norm > atol:\n                force_one_iteration = False', 'C09.forced'),
    Twin('twin-stall-negated-branches', _S, "                    if norm_diff <= stall_tol:\n                        stall_count += 1\n                        if stall_count >= stall_limit:\n                            stalled = True\n                    else:\n                        stall_count = 0\n                        stall_norm = norm_for_stall\n", "                    if not (norm_diff <= stall_tol):\n                        stall_count = 0\n                        stall_norm = norm_for_stall\n                    else:\n                        stall_count = stall_count + 1\n                        if stall_limit <= stall_count:\n                            stalled = True\n"),
    Mutant('stall-negated-inc-two', _S, "                    if norm_diff <= stall_tol:\n                        stall_count += 1\n                        if stall_count >= stall_limit:\n                            stalled = True\n                    else:\n                        stall_count = 0\n                        stall_norm = norm_for_stall\n", "                    if not (norm_diff <= stall_tol):\n                        stall_count = 0\n                        stall_norm = norm_for_stall\n                    else:\n                        stall_count = stall_count + 2\n                        if stall_limit <= stall_count:\n                            stalled = True\n", 'C09.stall'),
    Mutant('stall-negated-branches-exchanged', _S, "                    if norm_diff <= stall_tol:\n                        stall_count += 1\n                        if stall_count >= stall_limit:\n                            stalled = True\n                    else:\n                        stall_count = 0\n                        stall_norm = norm_for_stall\n", "                    if not (norm_diff <= stall_tol):\n                        stall_count = stall_count + 1\n                        if stall_limit <= stall_count:\n                            stalled = True\n                    else:\n                        stall_count = 0\n                        stall_norm = norm_for_stall\n", 'C09.stall'),
    Twin('twin-lin-guard-predicate-helper', _S, "        while self._iter_count < maxiter and norm > atol and norm / norm0 > rtol:\n", "        while self._iter_count < maxiter and self._tols_unmet(norm, norm0, atol, rtol):\n",
         also=[(_S, "    def _run_apply(self):\n        \"\"\"\n        Run the apply_linear method on the system.\n", "    @staticmethod\n    def _tols_unmet(norm, norm0, atol, rtol):\n        return norm > atol and norm / norm0 > rtol\n\n    def _run_apply(self):\n        \"\"\"\n        Run the apply_linear method on the system.\n")]),
    Mutant('lin-guard-predicate-helper-or', _S, "        while self._iter_count < maxiter and norm > atol and norm / norm0 > rtol:\n", "        while self._iter_count < maxiter and self._tols_unmet(norm, norm0, atol, rtol):\n", 'C09.guard',
           also=[(_S, "    def _run_apply(self):\n        \"\"\"\n        Run the apply_linear method on the system.\n", "    @staticmethod\n    def _tols_unmet(norm, norm0, atol, rtol):\n        return norm > atol or norm / norm0 > rtol\n\n    def _run_apply(self):\n        \"\"\"\n        Run the apply_linear method on the system.\n")]),
    Mutant('lin-guard-predicate-helper-args-swapped', _S, "        while self._iter_count < maxiter and norm > atol and norm / norm0 > rtol:\n",
           "        while self._iter_count < maxiter and self._tols_unmet(norm, norm0, rtol, atol):\n", 'C09.guard',
           also=[(_S, "    def _run_apply(self):\n        \"\"\"\n        Run the apply_linear method on the system.\n", "    @staticmethod\n    def _tols_unmet(norm, norm0, atol, rtol):\n        return norm > atol and norm / norm0 > rtol\n\n    def _run_apply(self):\n        \"\"\"\n        Run the apply_linear method on the system.\n")]),
    Mutant('stall-no-reset', _S, '                    else:\n                        stall_count = 0\n                        stall_norm = norm_for_stall',
           '                    else:\n                        stall_norm = norm_for_stall', 'C09.stall'),
    Mutant('stall-type-swapped', _S, "rec.rel if stall_tol_type == 'rel' else rec.abs", "rec.abs if stall_tol_type == 'rel' else rec.rel", 'C09.stall'),
    Mutant('stall-gt-limit', _S, 'if stall_count >= stall_limit:', 'if stall_count > stall_limit + 1:', 'C09.stall'),
    Mutant('report-no-raise', _S, "        if self.options['err_on_non_converge']:\n            raise AnalysisError(msg)",
           "        if self.options['err_on_non_converge'] and iprint > -1:\n            raise AnalysisError(msg)", 'C09.report'),
    Mutant('report-early-return', _S, "        if iprint > -1 and print_flag:\n            print(self._solver_info.prefix + self.SOLVER + msg)",
           "        if iprint > -1 and print_flag:\n            print(self._solver_info.prefix + self.SOLVER + msg)\n        else:\n            return", 'C09.report'),
    Mutant('who-new-writer', 'openmdao/solvers/nonlinear/newton.py', '        self._solver_info.append_subsolver()\n',
           '        self._solver_info.append_subsolver()\n        self._iter_count = 0\n', 'C09.who'),
    Mutant('normdef-broyden-inverted', 'openmdao/solvers/nonlinear/broyden.py', '        if not self._full_inverse:\n            # Use full model residual for driving the main loop convergence.',
           '        if self._full_inverse:\n            # Use full model residual for driving the main loop convergence.', 'C09.normdef'),
    Mutant('normdef-broyden-subset-always', 'openmdao/solvers/nonlinear/broyden.py', '            fxm = self._system()._residuals.asarray()\n\n        return self.compute_norm(fxm)',
           '            pass\n\n        return self.compute_norm(fxm)', 'C09.normdef'),
    Twin('twin-normdef-broyden-else', 'openmdao/solvers/nonlinear/broyden.py', '        if not self._full_inverse:\n            # Use full model residual for driving the main loop convergence.\n            fxm = self._system()._residuals.asarray()\n\n        return self.compute_norm(fxm)',
         '        if self._full_inverse:\n            return self.compute_norm(fxm)\n        system = self._system()\n        return self.compute_norm(system._residuals.asarray())'),
    Twin('twin-count-plain-add', _S, '                self._single_iteration()\n                self._iter_count += 1\n                self._run_apply()', '                self._single_iteration()\n                self._iter_count = self._iter_count + 1\n                self._run_apply()'),
    Twin('twin-report-alias-nested', _S, "        if self.options['err_on_non_converge']:\n            raise AnalysisError(msg)\n        elif 'debug_print' in self.options and self.options['debug_print']:",
         "        opts = self.options\n        if opts['err_on_non_converge']:\n            raise AnalysisError(msg)\n        if 'debug_print' in self.options and self.options['debug_print']:"),
    Mutant('count-plus-two', _S, '                self._single_iteration()\n                self._iter_count += 1\n                self._run_apply()', '                self._single_iteration()\n                self._iter_count = self._iter_count + 2\n                self._run_apply()', 'C09.count'),
    Twin('twin-flip-compare', _S, 'while self._iter_count < maxiter and norm > atol and norm / norm0 > rtol:',
         'while maxiter > self._iter_count and atol < norm and rtol < norm / norm0:'),
    Twin('twin-classify-reorder', _S, '        elif (norm > atol and norm / norm0 > rtol):', '        elif (norm / norm0 > rtol and norm > atol):'),
    Twin('twin-inline-option', _S, 'while self._iter_count < maxiter and norm > atol and norm / norm0 > rtol:',
         "while self._iter_count < self.options['maxiter'] and norm > atol and norm / norm0 > rtol:"),
)
