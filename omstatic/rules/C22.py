"""C22 -- the constraint violation is measured elementwise and in driver units.

Anchor: ``Driver.get_constraint_values(viol=True)`` and its consumers ``Driver._compute_con_viol`` /
``Driver._find_feasible`` (core/driver.py).  The violation block of the anchor is reduced to a list
of *writes* (target storage, index, operator, operand) plus their guards; index sets are resolved
through reaching definitions to their boolean masks, bounds to ``meta['lower'|'upper'|'equals']``.
The masks are evaluated over the six order relations of (value, lower, upper) with lower <= upper,
the guards over truth tables of (viol, driver_scaling, equals is not None, total_scaler is not None).
"""
import ast

from .. import astx, cfg as cfgm, boolx
from ..core import AnalysisError, Func
from ..engine import rule, describe, selftest, Mutant, Twin

DRIVER = 'openmdao/core/driver.py'
OPTVEC = 'openmdao/vectors/optimizer_vector.py'
PROBLEM = 'openmdao/core/problem.py'
ANCHOR = 'Driver.get_constraint_values'
VEC_PATH = "self._vectors['constraint']"

describe('C22',
         'Decides for Driver.get_constraint_values(viol=True): (index) every indexed in-place update '
         'of the value array uses a bound that was normalised to the array shape and is indexed by the '
         'same index set (finding F7); (pair) the index set of the `- lower` update is the mask '
         '"value below lower", of the `- upper` update "value above upper", equality constraints '
         'subtract `equals` under `equals is not None` and exclusively; sign is value - bound; (zero) '
         'by evaluation over the 6 order relations of (value, lower, upper): satisfied entries are '
         'zeroed, violated ones are not, boundary entries end at 0; (order) masks are taken from the '
         'unmodified values; (result) the stored result is a fresh copy of the storage that received the '
         'arithmetic, taken after it, and OptimizerVector.__getitem__ hands out a view; (input) the '
         'vector is populated unscaled exactly when viol (truth table); (scale) the returned violation '
         'is multiplied by total_scaler exactly under viol & driver_scaling & scaler-present, never '
         'shifted by an adder or passed through apply_constraint_scaling (finding F8); (lsq/rows/flag) '
         '_compute_con_viol requests viol=True for a partition linear/nonlinear of the constraints '
         'after the model run and concatenates the unmodified arrays, the row order agrees between the '
         'residual, con_row_map and the Jacobian stack, and the driver_scaling flag of '
         'Problem.find_feasible reaches every site unchanged; (select) lintype dispatch and '
         'filter_by_meta (8-row table) pick exactly the linear / the other constraints; (surface) the '
         'all-zero residual substituted when the model raises is recorded in _exc_info and re-raised '
         'after the least-squares run (error path: outside the literal quantifier of C22, kept because '
         'it makes find_feasible report zero violation for violated constraints); (who, thorough) no '
         'Driver subclass overrides the analysed methods and no other code asks for viol=True.  Does '
         'not decide numpy arithmetic itself, MPI gathering, or the Jacobian values.',
         ['np.where/np.nonzero/np.flatnonzero/np.broadcast_to/np.full have their documented meaning',
          'declared bounds satisfy lower <= upper elementwise; values are not NaN',
          "meta['lower'|'upper'|'equals'] are in the constraint's declared units, unscaled "
          '(System.add_response stores them unscaled -- read, not checked here)'])

BOUND_KEYS = ('lower', 'upper', 'equals')
SCALE_KEYS = ('total_scaler', 'total_adder', 'scaler', 'adder', 'ref', 'ref0', 'unit_scaler', 'unit_adder')
_NP = ('np', 'numpy')


def dkey(e):
    """Context-insensitive structural key (a store target equals the same expression as a load).

    Same normalisation as astx.dump (comparison direction, no positions) but without its deepcopy,
    which follows the `_parent` links and copies the whole module (0.6 s per call on driver.py).
    """
    if isinstance(e, ast.AST):
        if isinstance(e, ast.expr_context):
            return ''
        if isinstance(e, ast.Compare) and len(e.ops) == 1 and isinstance(e.ops[0], (ast.Gt, ast.GtE)):
            op = 'Lt' if isinstance(e.ops[0], ast.Gt) else 'LtE'
            return f'Compare({dkey(e.comparators[0])},[{op}()],[{dkey(e.left)}])'
        return type(e).__name__ + '(' + ','.join(dkey(getattr(e, f, None)) for f in e._fields
                                                  if f not in ('ctx', 'type_comment')) + ')'
    if isinstance(e, list):
        return '[' + ','.join(dkey(x) for x in e) + ']'
    return repr(e)


def np_call(e, *names):
    """True if e is a call numpy.<name>(...) for one of names."""
    if not isinstance(e, ast.Call):
        return False
    f = e.func
    return isinstance(f, ast.Attribute) and f.attr in names and isinstance(f.value, ast.Name) \
        and f.value.id in _NP


def starred(call):
    """The call passes *args / **kwargs: its argument binding cannot be read off the source."""
    return any(isinstance(a, ast.Starred) for a in call.args) or any(k.arg is None for k in call.keywords)


def full_slice(s):
    return isinstance(s, ast.Slice) and s.lower is None and s.upper is None and s.step is None or \
        (isinstance(s, ast.Constant) and s.value is Ellipsis)


def is_num(e, val=None):
    if isinstance(e, ast.UnaryOp) and isinstance(e.op, ast.USub):
        return is_num(e.operand, None if val is None else -val)
    if isinstance(e, ast.Constant) and isinstance(e.value, (int, float)) and not isinstance(e.value, bool):
        return val is None or e.value == val
    return False


class Unknown(Exception):
    def __init__(self, node, why=''):
        self.node, self.why = node, why


class B:
    """A bound operand: key in BOUND_KEYS, form raw|array, index expression or None (whole)."""

    def __init__(self, key, form, index=None):
        self.key, self.form, self.index = key, form, index


class W:
    """One write to the value array ('array'), a private array ('local') or the result dict ('dict')."""

    def __init__(self, stmt, node, space, index, op, operand, rebind=False):
        self.stmt, self.node, self.space, self.index = stmt, node, space, index
        self.op, self.operand, self.rebind = op, operand, rebind


_OPNAME = {ast.Sub: 'sub', ast.Add: 'add', ast.Mult: 'mul', ast.Div: 'div'}

# relation of the value to a bound -> truth of `value OP bound`
_REL = {'lt': {ast.Lt: True, ast.LtE: True, ast.Gt: False, ast.GtE: False, ast.Eq: False, ast.NotEq: True},
        'eq': {ast.Lt: False, ast.LtE: True, ast.Gt: False, ast.GtE: True, ast.Eq: True, ast.NotEq: False},
        'gt': {ast.Lt: False, ast.LtE: False, ast.Gt: True, ast.GtE: True, ast.Eq: False, ast.NotEq: True}}
_SWAP = {ast.Lt: ast.Gt, ast.LtE: ast.GtE, ast.Gt: ast.Lt, ast.GtE: ast.LtE, ast.Eq: ast.Eq, ast.NotEq: ast.NotEq}

# (value ? lower, value ? upper) with lower <= upper
STATES = [dict(lower='lt', upper='lt'), dict(lower='eq', upper='lt'), dict(lower='eq', upper='eq'),
          dict(lower='gt', upper='lt'), dict(lower='gt', upper='eq'), dict(lower='gt', upper='gt')]
BELOW = {0}
ABOVE = {5}
ON_LOWER = {1, 2}
ON_UPPER = {2, 4}
INSIDE = {3}


def fmt_state(i):
    s = STATES[i]
    t = {'lt': '<', 'eq': '==', 'gt': '>'}
    return f"value {t[s['lower']]} lower, value {t[s['upper']]} upper"


# ------------------------------------------------------------------------------------- helper inlining
def clone(node, ren=None):
    """Copy of an AST subtree without the `_parent` links; Names renamed through `ren`."""
    if isinstance(node, list):
        return [clone(x, ren) for x in node]
    if not isinstance(node, ast.AST):
        return node
    new = type(node)()
    for f in node._fields:
        if hasattr(node, f):
            setattr(new, f, clone(getattr(node, f), ren))
    for a in node._attributes:
        if hasattr(node, a):
            setattr(new, a, getattr(node, a))
    if ren and isinstance(new, ast.Name) and new.id in ren:
        new.id = ren[new.id]
    return new


def _set_parents(root, parent):
    root._parent = parent
    for n in ast.walk(root):
        for ch in ast.iter_child_nodes(n):
            ch._parent = n


def _stored_names(body):
    out = set()
    for st in body:
        for n in astx.walk(st):
            if isinstance(n, ast.Name) and isinstance(n.ctx, (ast.Store, ast.Del)):
                out.add(n.id)
    return out


def fold_returns(stmts):
    """Rewrite early bare returns into if/else: `if c: A; return` + rest  ->  `if c: A else: rest` (and the
    mirrored form); a trailing bare return is dropped.  Works on cloned statements (no parent links)."""
    out = []
    for i, st in enumerate(stmts):
        rest = stmts[i + 1:]
        if isinstance(st, ast.Return) and st.value is None:
            return out      # anything after an unconditional return is dead
        if isinstance(st, ast.If):
            body, orelse = fold_returns(st.body), fold_returns(st.orelse)
            b_ret = bool(st.body) and _ends_with_return(st.body)
            o_ret = bool(st.orelse) and _ends_with_return(st.orelse)
            if b_ret or o_ret:
                tail = fold_returns(rest)
                nb = body if b_ret else body + tail
                no = orelse if o_ret else orelse + tail
                new = ast.If(test=st.test, body=nb or [ast.Pass()], orelse=no)
                ast.copy_location(new, st)
                ast.fix_missing_locations(new)
                out.append(new)
                return out
            new = ast.If(test=st.test, body=body or [ast.Pass()], orelse=orelse)
            ast.copy_location(new, st)
            out.append(new)
            continue
        out.append(st)
    return out


def _ends_with_return(stmts):
    last = stmts[-1]
    if isinstance(last, ast.Return) and last.value is None:
        return True
    if isinstance(last, ast.If) and last.orelse:
        return _ends_with_return(last.body) and _ends_with_return(last.orelse)
    return False


def _inlinable(helper):
    """A private helper can be spliced in place of its call statement: straight parameter list, no value
    returned, no return except as the last statement, no yield / nested scope."""
    a = helper.node.args
    if a.vararg or a.kwarg or a.posonlyargs or a.kwonlyargs:
        return False
    if [astx.path(d) for d in helper.node.decorator_list] not in ([], ['staticmethod']):
        return False
    body = astx.strip_doc(helper.node.body)
    for i, st in enumerate(body):
        for n in ast.walk(st):
            if isinstance(n, (ast.Yield, ast.YieldFrom, ast.FunctionDef, ast.AsyncFunctionDef, ast.Lambda,
                              ast.ClassDef, ast.Global, ast.Nonlocal)):
                return False
            if isinstance(n, ast.Return) and n.value is not None:
                return False
            if isinstance(n, ast.Return) and any(isinstance(a, (ast.For, ast.While, ast.Try, ast.With))
                                                 for a in astx.ancestors(n) if a is not helper.node
                                                 and helper.node in list(astx.ancestors(a))):
                return False    # only returns under plain if/else chains are folded
    return bool(body)


def inline_helpers(repo, fn):
    """(Func, inlined method names): `fn` with every statement `self._m(args)` inside a for loop replaced by
    the body of Driver._m (parameters bound to the arguments), when _m is inlinable."""
    if fn.cls is None:
        return fn, []
    cname = fn.qualname.rsplit('.', 1)[0]
    todo = []
    for st in astx.walk_stmts(fn.node.body):
        if isinstance(st, ast.Expr) and isinstance(st.value, ast.Call) and \
                isinstance(st.value.func, ast.Attribute) and astx.path(st.value.func.value) in ('self', cname) and \
                any(isinstance(a, ast.For) for a in astx.ancestors(st)) and not starred(st.value):
            h = repo.module(fn.rel).funcs.get(f'{cname}.{st.value.func.attr}')
            if h is not None and h is not fn and _inlinable(h):
                todo.append((st, h))
    if not todo:
        return fn, []
    taken = {n.id for n in ast.walk(fn.node) if isinstance(n, ast.Name)} | \
        {a.arg for a in fn.node.args.args + fn.node.args.kwonlyargs}
    repl = {}
    for st, h in todo:
        call = st.value
        params = [a.arg for a in h.node.args.args]
        if h.node.decorator_list:       # @staticmethod: no receiver parameter
            pass
        elif not params or params[0] != 'self':
            continue
        else:
            params = params[1:]
        bound = {}
        for i, a in enumerate(call.args):
            if i < len(params):
                bound[params[i]] = a
        for k in call.keywords:
            if k.arg in params and k.arg not in bound:
                bound[k.arg] = k.value
        ndef = len(h.node.args.defaults)
        for j, pn in enumerate(params):
            if pn not in bound:
                k = j - (len(params) - ndef)
                if k < 0:
                    bound = None
                    break
                bound[pn] = h.node.args.defaults[k]
        if bound is None:
            continue
        body = fold_returns(clone(astx.strip_doc(h.node.body)))
        if not body or any(isinstance(n, ast.Return) for st2 in body for n in ast.walk(st2)):
            continue
        ren, pre = {}, []

        def fresh(nm):
            cand = nm if nm not in taken else f'{h.node.name.lstrip("_")}__{nm}'
            while cand in taken:
                cand += '_'
            taken.add(cand)
            return cand
        for pn, a in bound.items():
            if isinstance(a, ast.Name):
                ren[pn] = a.id
            else:
                ren[pn] = fresh(pn)
                asg = ast.Assign(targets=[ast.Name(id=ren[pn], ctx=ast.Store())], value=clone(a), lineno=st.lineno,
                                 col_offset=st.col_offset, end_lineno=st.lineno, end_col_offset=st.col_offset)
                ast.fix_missing_locations(asg)
                pre.append(asg)
        for loc in sorted(_stored_names(body) - set(params)):
            ren[loc] = fresh(loc)
        repl[id(st)] = pre + clone(body, ren)
    if not repl:
        return fn, []

    def rebuild(node):
        if isinstance(node, list):
            out = []
            for x in node:
                if isinstance(x, ast.AST) and id(x) in repl:
                    out.extend(repl[id(x)])
                else:
                    out.append(rebuild(x))
            return out
        if not isinstance(node, ast.AST):
            return node
        new = type(node)()
        for f in node._fields:
            if hasattr(node, f):
                setattr(new, f, rebuild(getattr(node, f)))
        for a in node._attributes:
            if hasattr(node, a):
                setattr(new, a, getattr(node, a))
        return new
    node = rebuild(fn.node)
    _set_parents(node, getattr(fn.node, '_parent', None))
    return Func(fn.module, fn.qualname, node, fn.cls), sorted({h.node.name for _, h in todo})


# ------------------------------------------------------------------------------------- model
class Model:
    """Everything the rules need to know about Driver.get_constraint_values."""

    def __init__(self, repo):
        self.repo = repo
        fn, self.inlined = inline_helpers(repo, repo.func(DRIVER, ANCHOR))
        self.fn = fn
        self.g = cfgm.build(fn)
        self.rd = cfgm.ReachingDefs(self.g)
        a = fn.node.args
        params = [x.arg for x in a.posonlyargs + a.args + a.kwonlyargs]
        for p in ('viol', 'driver_scaling'):
            if p not in params:
                raise AnalysisError(f'{fn.ident}: parameter {p!r} vanished')
        body = list(astx.walk_stmts(fn.node.body))
        rets = [st for st in body if isinstance(st, ast.Return)]
        if not rets or not all(isinstance(r.value, ast.Name) for r in rets) or \
                len({r.value.id for r in rets}) != 1:
            raise AnalysisError(f'{fn.ident}: expected every return to return one local dict')
        self.rets = rets
        self.D = rets[0].value.id
        stores = [st for st in body if isinstance(st, ast.Assign) and len(st.targets) == 1 and
                  isinstance(st.targets[0], ast.Subscript) and astx.path(st.targets[0].value) == self.D]
        # `D[k] = D[k] * s` updates an entry, it does not create it
        stores = [st for st in stores if not any(isinstance(n, ast.Subscript) and dkey(n) == dkey(st.targets[0])
                                                 for n in astx.walk(st.value))]
        if not stores:
            raise AnalysisError(f'{fn.ident}: no store into the returned dict {self.D}')
        loops = []
        for st in stores:
            lp = None
            for anc in astx.ancestors(st):
                if anc is fn.node:
                    break
                if isinstance(anc, (ast.For, ast.While)):
                    lp = anc
                    break
            if lp is None or not isinstance(lp, ast.For):
                raise AnalysisError(f'{fn.ident}: result store outside a for loop')
            if not any(lp is x for x in loops):
                loops.append(lp)
        if len(loops) != 1:
            raise AnalysisError(f'{fn.ident}: expected one loop filling {self.D}, found {len(loops)}')
        self.loop = loop = loops[0]
        tg = loop.target
        if not (isinstance(tg, ast.Tuple) and len(tg.elts) == 2 and all(isinstance(e, ast.Name) for e in tg.elts)):
            raise AnalysisError(f'{fn.ident}: loop target is not (name, meta)')
        keys = {st.targets[0].slice.id if isinstance(st.targets[0].slice, ast.Name) else None for st in stores}
        if len(keys) != 1 or None in keys:
            raise AnalysisError(f'{fn.ident}: result stores use different keys')
        self.K = keys.pop()
        names = [e.id for e in tg.elts]
        if self.K != names[0]:
            raise AnalysisError(f'{fn.ident}: result key {self.K} is not the first loop target')
        self.M = names[1]
        self.stores = stores
        self.hdr = self.g.nodes_of(loop)[0]
        self.loop_stmts = list(astx.walk_stmts(loop.body))
        for st in self.loop_stmts:
            for t in astx.assigned_targets(st):
                if isinstance(t, ast.Name) and t.id in (self.K, self.M):
                    raise AnalysisError(f'{fn.ident}: loop variable {t.id} is reassigned in the loop')
        self._writes = None
        self._guards = {}

    # ---------------------------------------------------------------- basic resolution
    def at(self, stmt):
        ns = self.g.nodes_of(stmt)
        if not ns:
            raise AnalysisError(f'{self.fn.ident}: unreachable statement `{astx.src(stmt)}`')
        return ns[0]

    def defval(self, name, at):
        """(value expr, def node) if exactly one plain `name = value` reaches `at`, else (None, None)."""
        v = self.rd.value(at, name)
        if v is None:
            return None, None
        return v, next(iter(self.rd.defs(at, name)))

    def is_param(self, name, at):
        return self.rd.defs(at, name) == {self.g.entry}

    def is_vec(self, e, at, depth=0):
        if astx.path(e) == VEC_PATH:
            return True
        if isinstance(e, ast.Name) and depth < 3:
            v, d = self.defval(e.id, at)
            return v is not None and self.is_vec(v, d, depth + 1)
        return False

    def vec_item(self, e, at):
        return isinstance(e, ast.Subscript) and isinstance(e.slice, ast.Name) and e.slice.id == self.K \
            and self.is_vec(e.value, at)

    @staticmethod
    def peel_copy(e):
        """(inner, True) for X.copy() / np.array(X) / np.copy(X); else (e, False)."""
        if isinstance(e, ast.Call):
            if isinstance(e.func, ast.Attribute) and e.func.attr == 'copy' and not e.args and \
                    not (isinstance(e.func.value, ast.Name) and e.func.value.id in _NP):
                return e.func.value, True
            if np_call(e, 'array', 'copy') and len(e.args) == 1:
                cp = astx.kwarg(e, 'copy')
                if cp is None or (isinstance(cp, ast.Constant) and cp.value is True):
                    return e.args[0], True
        return e, False

    def root_defs(self, name, at):
        """Reaching definitions of a local, looking through in-place updates (`x op= y` keeps the storage)."""
        out, seen, todo = set(), set(), [at]
        while todo:
            n = todo.pop()
            for d in self.rd.defs(n, name):
                if d in seen:
                    continue
                seen.add(d)
                if d.kind == 'stmt' and isinstance(d.ast, ast.AugAssign) and isinstance(d.ast.target, ast.Name):
                    todo.append(d)
                else:
                    out.add(d)
        return out

    def def_kinds(self, e, at):
        """Set of kinds over the reaching definitions of a Name ({'view'}, {'copy'}, both) or None."""
        return self.arr_kind(e, at, want_set=True)

    def arr_kind(self, e, at, depth=0, want_set=False):
        """'view' (aliases the vector's storage), 'copy' (private array) or None (not the values)."""
        if self.vec_item(e, at):
            return {'view'} if want_set else 'view'
        if isinstance(e, ast.Subscript) and full_slice(e.slice) and depth < 4:
            return self.arr_kind(e.value, at, depth + 1, want_set)
        if isinstance(e, ast.Name) and depth < 4:
            kinds = set()
            for d in self.root_defs(e.id, at):
                if d.kind != 'stmt' or not isinstance(d.ast, ast.Assign) or len(d.ast.targets) != 1 or \
                        not isinstance(d.ast.targets[0], ast.Name):
                    return None
                v = d.ast.value
                if isinstance(v, ast.BinOp) and any(isinstance(x, ast.Name) and x.id == e.id
                                                    for x in (v.left, v.right)):
                    kinds.add('copy')   # v = v - b : a new array derived from itself
                    continue
                inner, cp = self.peel_copy(v)
                k = self.arr_kind(inner, d, depth + 1)
                if k is None:
                    return None
                kinds.add('copy' if cp else k)
            if want_set:
                return kinds or None
            if len(kinds) == 1:
                return kinds.pop()
            if kinds == {'view', 'copy'}:
                return 'copy'
        return None

    def meta_key(self, e, at, depth=0):
        """k if e denotes meta['k'] / meta.get('k') (possibly through a local alias), else None."""
        if isinstance(e, ast.Subscript) and isinstance(e.value, ast.Name) and e.value.id == self.M:
            return astx.const_str(e.slice)
        if isinstance(e, ast.Call) and isinstance(e.func, ast.Attribute) and e.func.attr == 'get' and \
                isinstance(e.func.value, ast.Name) and e.func.value.id == self.M and len(e.args) == 1:
            return astx.const_str(e.args[0])
        if isinstance(e, ast.Name) and depth < 3:
            v, d = self.defval(e.id, at)
            if v is not None:
                return self.meta_key(v, d, depth + 1)
        return None

    def bound(self, e, at, depth=0):
        """Resolve an operand to a bound B(key, form, index) or None."""
        if depth > 6:
            return None
        k = self.meta_key(e, at) if not isinstance(e, ast.Name) else None
        if k is not None:
            return B(k, 'raw') if k in BOUND_KEYS else None
        if isinstance(e, ast.Subscript):
            inner = self.bound(e.value, at, depth + 1)
            if inner is None or inner.index is not None:
                return None
            if full_slice(e.slice):
                return inner
            return B(inner.key, inner.form, e.slice)
        if isinstance(e, ast.Name):
            v, d = self.defval(e.id, at)
            if v is None:
                return None
            return self.bound(v, d, depth + 1)
        if isinstance(e, ast.Call):
            x = None
            if np_call(e, 'broadcast_to') and len(e.args) + len(e.keywords) == 2:
                x, shp = astx.arg(e, 0, 'array'), astx.arg(e, 1, 'shape')
            elif np_call(e, 'full') and len(e.args) + len(e.keywords) == 2:
                shp, x = astx.arg(e, 0, 'shape'), astx.arg(e, 1, 'fill_value')
            elif np_call(e, 'full_like') and len(e.args) + len(e.keywords) == 2:
                shp, x = astx.arg(e, 0, 'a'), astx.arg(e, 1, 'fill_value')
            elif np_call(e, 'asarray', 'atleast_1d', 'array', 'ravel') and len(e.args) == 1:
                return self.bound(e.args[0], at, depth + 1)
            if x is not None and shp is not None:
                inner = self.bound(x, at, depth + 1)
                if inner is not None and inner.index is None and self.shape_ok(shp, at):
                    return B(inner.key, 'array')
            return None
        if isinstance(e, ast.BinOp) and isinstance(e.op, ast.Mult):
            for ones, x in ((e.left, e.right), (e.right, e.left)):
                if np_call(ones, 'ones', 'ones_like') and len(ones.args) == 1 and self.shape_ok(ones.args[0], at):
                    inner = self.bound(x, at, depth + 1)
                    if inner is not None and inner.index is None:
                        return B(inner.key, 'array')
        return None

    def shape_ok(self, shp, at, depth=0):
        """The shape argument is derived from the value array or the constraint size."""
        for n in astx.walk(shp):
            if isinstance(n, ast.Name) and self.arr_kind(n, at) is not None:
                return True
            if isinstance(n, ast.Name) and depth < 3:
                v, d = self.defval(n.id, at)    # shape = con_val.shape
                if v is not None and self.shape_ok(v, d, depth + 1):
                    return True
            if self.vec_item(n, at):
                return True
            if self.meta_key(n, at) in ('size', 'global_size'):
                return True
        return False

    def scale_key(self, e, at, depth=0):
        """(key, none_safe) if the operand is a scaling quantity of the constraint, else None."""
        k = self.meta_key(e, at)
        if k is not None:
            return (k, False) if k in SCALE_KEYS else None
        if isinstance(e, ast.IfExp) and depth < 2:
            # 1.0 if s is None else s   /   s if s is not None else 1.0
            t = e.test
            if isinstance(t, ast.Compare) and len(t.ops) == 1 and isinstance(t.ops[0], (ast.Is, ast.IsNot)) and \
                    isinstance(t.comparators[0], ast.Constant) and t.comparators[0].value is None:
                neutral, val = (e.body, e.orelse) if isinstance(t.ops[0], ast.Is) else (e.orelse, e.body)
                k1, k2 = self.meta_key(t.left, at), self.meta_key(val, at)
                if k1 is not None and k1 == k2 and k1 in SCALE_KEYS and is_num(neutral, 1):
                    return (k1, True)
        if isinstance(e, ast.Name) and depth < 3:
            v, d = self.defval(e.id, at)
            if v is not None:
                return self.scale_key(v, d, depth + 1)
        return None

    # ---------------------------------------------------------------- masks
    def mask(self, e, at, depth=0):
        """Resolve an index expression to (boolean mask expression, node) or None."""
        if depth > 6:
            return None
        if isinstance(e, ast.Name):
            v, d = self.defval(e.id, at)
            if v is None:
                return None
            return self.mask(v, d, depth + 1)
        if isinstance(e, ast.Subscript) and isinstance(e.slice, ast.Constant) and e.slice.value == 0 and \
                np_call(e.value, 'where', 'nonzero') and len(e.value.args) == 1 and not e.value.keywords:
            return self.mask(e.value.args[0], at, depth + 1)
        if np_call(e, 'flatnonzero', 'where', 'nonzero') and len(e.args) == 1 and not e.keywords:
            return self.mask(e.args[0], at, depth + 1)
        if isinstance(e, ast.Compare) or (isinstance(e, ast.BinOp) and isinstance(e.op, (ast.BitAnd, ast.BitOr))) \
                or (isinstance(e, ast.UnaryOp) and isinstance(e.op, ast.Invert)) \
                or np_call(e, 'logical_and', 'logical_or', 'logical_not'):
            return e, at
        return None

    def ev_mask(self, e, at, s, depth=0):
        """Truth of mask expression e for an element in order-relation state s."""
        if depth > 8:
            raise Unknown(e, 'too deep')
        if isinstance(e, ast.BinOp) and isinstance(e.op, (ast.BitAnd, ast.BitOr)):
            a, b = self.ev_mask(e.left, at, s, depth + 1), self.ev_mask(e.right, at, s, depth + 1)
            return (a and b) if isinstance(e.op, ast.BitAnd) else (a or b)
        if isinstance(e, ast.UnaryOp) and isinstance(e.op, ast.Invert):
            return not self.ev_mask(e.operand, at, s, depth + 1)
        if np_call(e, 'logical_and', 'logical_or') and len(e.args) == 2 and not e.keywords:
            a, b = self.ev_mask(e.args[0], at, s, depth + 1), self.ev_mask(e.args[1], at, s, depth + 1)
            return (a and b) if e.func.attr == 'logical_and' else (a or b)
        if np_call(e, 'logical_not') and len(e.args) == 1 and not e.keywords:
            return not self.ev_mask(e.args[0], at, s, depth + 1)
        if isinstance(e, ast.Name):
            v, d = self.defval(e.id, at)
            if v is None:
                raise Unknown(e, 'mask name has no unique definition')
            return self.ev_mask(v, d, s, depth + 1)
        if isinstance(e, ast.Compare) and len(e.ops) == 1 and type(e.ops[0]) in _SWAP:
            l, r, op = e.left, e.comparators[0], type(e.ops[0])
            if self.arr_kind(r, at) is not None and self.arr_kind(l, at) is None:
                l, r, op = r, l, _SWAP[op]
            if self.arr_kind(l, at) is None:
                raise Unknown(e, 'comparison does not involve the constraint value')
            b = self.bound(r, at)
            if b is None or b.index is not None or b.key not in ('lower', 'upper'):
                raise Unknown(e, 'comparison is not against the whole lower/upper bound')
            return _REL[s[b.key]][op]
        raise Unknown(e, 'not a recognised mask expression')

    def truth_set(self, index_expr, at):
        """Set of STATES indices selected by an index expression; raises Unknown."""
        m = self.mask(index_expr, at)
        if m is None:
            raise Unknown(index_expr, 'index set is not np.where/np.nonzero/flatnonzero of a mask')
        me, mat = m
        return {i for i, s in enumerate(STATES) if self.ev_mask(me, mat, s)}

    def mask_nodes(self, index_expr, at, depth=0):
        """CFG nodes at which the mask of an index expression is evaluated."""
        if isinstance(index_expr, ast.Name) and depth < 6:
            v, d = self.defval(index_expr.id, at)
            if v is None:
                return {at}
            out = set()
            sub = self.mask(v, d)
            if sub is not None and sub[1] is d and not isinstance(v, ast.Name):
                out.add(d)
                for n in astx.walk(sub[0]):
                    if isinstance(n, ast.Name) and self.arr_kind(n, d) is None and self.bound(n, d) is None:
                        out |= self.mask_nodes(n, d, depth + 1)
                return out
            return self.mask_nodes(v, d, depth + 1) if isinstance(v, ast.Name) else {d}
        return {at}

    # ---------------------------------------------------------------- writes
    def _target(self, t, at):
        """(space, index) of a store target, or None."""
        k = self.arr_kind(t, at)
        if isinstance(t, ast.Name):
            return (('array' if k == 'view' else 'local'), None) if k else None
        if isinstance(t, ast.Subscript):
            if k:   # con_vec[name] itself
                return 'array', None
            if astx.path(t.value) == self.D and isinstance(t.slice, ast.Name) and t.slice.id == self.K:
                return 'dict', None
            base = self._target(t.value, at)
            if base is not None and base[1] is None:
                return base[0], (None if full_slice(t.slice) else t.slice)
        return None

    def writes(self):
        if self._writes is not None:
            return self._writes
        out = []
        for st in self.loop_stmts:
            if isinstance(st, ast.AugAssign):
                at = self.at(st)
                tg = self._target(st.target, at)
                if tg is None:
                    continue
                out.append(W(st, at, tg[0], tg[1], _OPNAME.get(type(st.op), type(st.op).__name__), st.value))
            elif isinstance(st, ast.Assign) and len(st.targets) == 1:
                at = self.at(st)
                t, v = st.targets[0], st.value
                if any(st is s for s in self.stores):
                    continue
                if isinstance(t, ast.Name):
                    # rebinding `v = v - b` (a new array, not in place)
                    if isinstance(v, ast.BinOp) and any(isinstance(x, ast.Name) and x.id == t.id
                                                        for x in (v.left, v.right)) and \
                            self.arr_kind(ast.Name(id=t.id, ctx=ast.Load()), at) is not None:
                        op, opd = self._binop(t, v)
                        out.append(W(st, at, 'local', None, op, opd, rebind=True))
                    continue
                tg = self._target(t, at)
                if tg is None:
                    continue
                if isinstance(t, ast.Subscript) and full_slice(t.slice) and isinstance(v, ast.BinOp) and \
                        dkey(t.value) in (dkey(v.left), dkey(v.right)):
                    t = t.value      # v[:] = v - b
                if isinstance(v, ast.BinOp) and (dkey(v.left) == dkey(t) or dkey(v.right) == dkey(t)):
                    op, opd = self._binop(t, v)
                    out.append(W(st, at, tg[0], tg[1], op, opd))
                else:
                    out.append(W(st, at, tg[0], tg[1], 'set', v))
        self._writes = out
        return out

    @staticmethod
    def _binop(t, v):
        name = _OPNAME.get(type(v.op), type(v.op).__name__)
        if dkey(v.left) == dkey(t):
            return name, v.right
        if name in ('add', 'mul'):
            return name, v.left
        return 'r' + name, v.left

    # ---------------------------------------------------------------- guards
    def atom(self, x, at, depth=0):
        if isinstance(x, ast.Name):
            if x.id == 'viol' and self.is_param('viol', at):
                return 'viol'
            if x.id == 'driver_scaling' and self.is_param('driver_scaling', at):
                return 'ds'
            k = self.meta_key(x, at)
            if k is not None:
                return 't:' + k
            v, d = self.defval(x.id, at)
            if v is not None and depth < 4:
                return boolx.from_ast(v, lambda y: self.atom(y, d, depth + 1))
            return 'u:' + dkey(x)
        if isinstance(x, ast.Compare) and len(x.ops) == 1 and isinstance(x.ops[0], (ast.Is, ast.IsNot)):
            l, r = x.left, x.comparators[0]
            if isinstance(l, ast.Constant) and l.value is None:
                l, r = r, l
            if isinstance(r, ast.Constant) and r.value is None:
                k = self.meta_key(l, at)
                key = 'nn:' + (k if k is not None else dkey(l))
                return key if isinstance(x.ops[0], ast.IsNot) else ('not', key)
        k = self.meta_key(x, at)
        if k is not None:
            return 't:' + k
        return 'u:' + dkey(x)

    def guard(self, stmt):
        """Conjunction of the branch conditions under which stmt executes (boolx formula)."""
        if id(stmt) in self._guards:
            return self._guards[id(stmt)]
        parts = []
        cur = stmt
        for anc in astx.ancestors(stmt):
            if anc is self.fn.node:
                break
            if isinstance(anc, ast.If):
                at = self.at(anc)
                f = boolx.from_ast(anc.test, lambda y: self.atom(y, at))
                if any(c is cur for c in anc.body):
                    parts.append(f)
                elif any(c is cur for c in anc.orelse):
                    parts.append(boolx.Not(f))
            elif isinstance(anc, ast.While):
                parts.append(boolx.A('u:while:' + dkey(anc.test)))
            elif isinstance(anc, (ast.Try, ast.Match)):
                parts.append(boolx.A('u:' + type(anc).__name__ + str(len(parts))))
            cur = anc
        f = boolx.And(*parts) if parts else boolx.TRUE
        self._guards[id(stmt)] = f
        return f

    @staticmethod
    def sat(f, **fixed):
        """A valuation satisfying f with the given atoms fixed, or None."""
        for v in boolx.valuations(f.atoms() | set(fixed)):
            if all(v[k] == b for k, b in fixed.items()) and f.ev(v):
                return v
        return None

    def under_viol(self, stmt):
        return self.sat(self.guard(stmt), viol=True) is not None

    @staticmethod
    def unknown_atoms(f):
        return sorted(a for a in f.atoms() if a.startswith('u:'))

    # ---------------------------------------------------------------- derived sets
    def viol_writes(self, space=('array', 'local')):
        return [w for w in self.writes() if w.space in space and self.under_viol(w.stmt)]

    def same_iteration_path(self, a_nodes, b_nodes):
        """Witness path from (after) a to b inside one loop iteration, or None."""
        starts = [m for a in a_nodes for m in self.g.normal_succ(a)]
        return self.g.path(starts, list(b_nodes), avoid=[self.hdr], labels=cfgm.noexc)


def model(repo):
    m = getattr(repo, '_c22_model', None)
    if m is None:
        m = Model(repo)
        repo._c22_model = m
    return m


def scalar_guard(m, w, bkey):
    """'proved' if the write sits on the true side of np.isscalar(<that bound>), 'maybe' if some
    enclosing test talks about scalar-ness at all, else None."""
    cur = w.stmt
    res = None
    for anc in astx.ancestors(w.stmt):
        if anc is m.fn.node:
            break
        if isinstance(anc, ast.If):
            at = m.at(anc)
            t = anc.test
            if np_call(t, 'isscalar') and len(t.args) == 1 and any(c is cur for c in anc.body):
                b = m.bound(t.args[0], at)
                if b is not None and b.key == bkey and b.form == 'raw' and b.index is None:
                    return 'proved'
            if astx.mentions(t, 'isscalar', 'ndim', 'isinstance', 'size', 'shape'):
                res = 'maybe'
        cur = anc
    return res


# ------------------------------------------------------------------------------------- rules
@rule('C22.index', floor=4)
def index(repo, out):
    """Indexed updates of the value array use a shape-normalised bound indexed by the same index set."""
    m = model(repo)
    for w in m.viol_writes():
        opd = w.operand
        if m.scale_key(opd, w.node) is not None:
            continue    # scaling statements are C22.scale's business
        tgt = 'whole array' if w.index is None else f'[{astx.src(w.index)}]'
        if is_num(opd):
            out.ok(m.fn, w.stmt, f'scalar constant written to {tgt}')
            continue
        b = m.bound(opd, w.node)
        if b is None:
            out.unsure(m.fn, w.stmt, f'operand `{astx.src(opd)}` is neither a constant nor a resolvable bound')
            continue
        if w.index is None:
            if b.index is None:
                out.ok(m.fn, w.stmt, f"whole-array update with the whole {b.key} bound (elementwise)")
            else:
                out.unsure(m.fn, w.stmt, 'whole-array update with an indexed bound')
            continue
        # indexed target
        if b.form == 'array' and b.index is not None:
            if dkey(b.index) == dkey(w.index):
                out.ok(m.fn, w.stmt, f'{b.key} bound broadcast to the value shape and indexed by the same '
                       f'index set `{astx.src(w.index)}`')
            else:
                out.bad(m.fn, w.stmt, f'value is indexed by `{astx.src(w.index)}` but the {b.key} bound by '
                        f'`{astx.src(b.index)}`: elements are compared with the bounds of other elements',
                        key=f'index-mismatch-{b.key}')
            continue
        sg = scalar_guard(m, w, b.key)
        if sg == 'proved' and b.index is None:
            out.ok(m.fn, w.stmt, f'{b.key} bound proved scalar by np.isscalar guard')
            continue
        if sg == 'maybe':
            out.unsure(m.fn, w.stmt, 'bound used under a scalar-ness test that is not recognised')
            continue
        if b.index is None:
            how = 'the whole (broadcast) bound array' if b.form == 'array' else f"meta['{b.key}'] whole"
            out.bad(m.fn, w.stmt, f'value subset `{astx.src(w.index)}` is updated with {how}: for an array '
                    f'bound this raises ValueError (or pairs wrong elements) unless every element is '
                    f'selected; index the shape-normalised bound with the same index set',
                    key=f'bound-not-indexed-{b.key}')
        else:
            out.bad(m.fn, w.stmt, f"meta['{b.key}'] is indexed without being normalised to the value shape: "
                    f'a scalar bound is not subscriptable', key=f'raw-bound-indexed-{b.key}')


def _ineq_subs(m):
    """Writes that combine the value array with the lower/upper bound, and the equality ones."""
    ineq, eq, other = [], [], []
    for w in m.viol_writes():
        if w.op == 'set' and is_num(w.operand):
            continue
        if m.scale_key(w.operand, w.node) is not None:
            continue
        b = m.bound(w.operand, w.node)
        if b is None:
            other.append(w)
        elif b.key == 'equals':
            eq.append((w, b))
        else:
            ineq.append((w, b))
    return ineq, eq, other


def _sign_ok(out, m, w, what):
    if w.op == 'sub':
        return True
    if w.op in ('add', 'rsub'):
        out.bad(m.fn, w.stmt, f'{what}: the violation must be value - bound (negative below, positive '
                f'above; the Jacobian used by find_feasible is +d(value)/dx); found '
                f'`{astx.src(w.stmt)}`', key='sign-' + what.split()[0])
        return False
    if w.op in ('mul', 'div', 'rdiv'):
        out.bad(m.fn, w.stmt, f'{what}: the bound is combined with `{w.op}` instead of being subtracted',
                key='sign-' + what.split()[0])
        return False
    out.unsure(m.fn, w.stmt, f'{what}: operator {w.op} not recognised')
    return False


@rule('C22.pair', floor=3)
def pair(repo, out):
    """`- lower` on the mask value<lower, `- upper` on value>upper, `- equals` iff equals is not None."""
    m = model(repo)
    arith = [w for w in m.writes() if w.space in ('array', 'local') and m.scale_key(w.operand, w.node) is None]
    for w in arith:
        g = m.guard(w.stmt)
        cx = m.sat(g, viol=False)
        if cx is not None and (m.unknown_atoms(g) or any(a.startswith('t:') for a in g.atoms())):
            out.unsure(m.fn, w.stmt, f'guard `{g!r}` of the violation arithmetic has unrecognised atoms')
            return
        if cx is not None:
            out.bad(m.fn, w.stmt, f'the violation arithmetic `{astx.src(w.stmt)}` also runs when viol is False '
                    f'({boolx.fmt_val(cx)}): plain constraint values are replaced by distances'
                    + ('' if m.under_viol(w.stmt) else ' and no violation is computed when viol is True'),
                    key='wrong-branch')
            return
    ineq, eq, other = _ineq_subs(m)
    for w in other:
        out.unsure(m.fn, w.stmt, f'write to the value array with unresolved operand `{astx.src(w.operand)}`')
    seen = {}
    for w, b in ineq:
        what = f'{b.key} violation'
        if w.index is None:
            out.bad(m.fn, w.stmt, f'the {b.key} bound is subtracted from every element, not only from those '
                    f'outside it', key=f'unmasked-{b.key}')
            continue
        try:
            ts = m.truth_set(w.index, w.node)
        except Unknown as u:
            out.unsure(m.fn, w.stmt, f'mask of `{astx.src(w.index)}` not decided: {u.why}: {astx.src(u.node)}')
            continue
        out.count('abstract_states', len(STATES))
        core, edge = (BELOW, ON_LOWER) if b.key == 'lower' else (ABOVE, ON_UPPER)
        side = 'below the lower' if b.key == 'lower' else 'above the upper'
        if not core <= ts:
            out.bad(m.fn, w.stmt, f'elements {side} bound are not selected by `{astx.src(w.index)}` '
                    f'(selected: {[fmt_state(i) for i in sorted(ts)] or "none"}): their violation is '
                    f'not measured against {b.key}', key=f'mask-{b.key}')
            continue
        extra = ts - core - edge
        if extra:
            out.bad(m.fn, w.stmt, f'`{astx.src(w.index)}` also selects elements with '
                    f'{fmt_state(min(extra))}: the {b.key} bound is subtracted from entries that are not '
                    f'{side} bound', key=f'mask-{b.key}')
            continue
        if not _sign_ok(out, m, w, what):
            continue
        seen.setdefault(b.key, []).append(w)
        out.ok(m.fn, w.stmt, f'{b.key} bound subtracted exactly from the elements {side} bound')
    # each side once
    if ineq:
        for k in ('lower', 'upper'):
            ws = seen.get(k, [])
            if not ws and not any(b.key == k for _, b in ineq):
                out.bad(m.fn, ineq[0][0].stmt, f'no update measures the distance beyond the {k} bound: '
                        f'{k} violations are reported as raw values or zero', key=f'missing-{k}')
            for i in range(len(ws)):
                for j in range(i + 1, len(ws)):
                    both = boolx.And(m.guard(ws[i].stmt), m.guard(ws[j].stmt))
                    if m.sat(both, viol=True) is not None:
                        out.bad(m.fn, ws[j].stmt, f'the {k} bound is subtracted twice from the same entries',
                                key=f'twice-{k}')
    # equality
    tkey = 't:equals'
    for w, b in eq:
        g = m.guard(w.stmt)
        if tkey in g.atoms():
            out.bad(m.fn, w.stmt, "equality branch selected by the truthiness of meta['equals']: equals=0.0 "
                    "is treated as an inequality with infinite bounds (violation always 0)",
                    key='equals-truthiness')
            continue
        if m.unknown_atoms(g):
            out.unsure(m.fn, w.stmt, f'guard of the equality update has unrecognised atoms {m.unknown_atoms(g)}')
            continue
        if w.index is not None or b.index is not None:
            out.unsure(m.fn, w.stmt, 'indexed equality update')
            continue
        cx = m.sat(boolx.And(g, boolx.Not(boolx.A('nn:equals'))), viol=True)
        if cx is not None and b.form == 'raw':
            out.bad(m.fn, w.stmt, f"meta['equals'] is subtracted although it is None ({boolx.fmt_val(cx)})",
                    key='equals-guard')
            continue
        if not _sign_ok(out, m, w, 'equals deviation'):
            continue
        miss = m.sat(boolx.And(boolx.A('nn:equals'), boolx.Not(g)), viol=True)
        others = [w2 for w2, _ in eq if w2 is not w]
        if miss is not None and not any(m.sat(boolx.And(m.guard(o.stmt), boolx.A('nn:equals')), **miss)
                                        for o in others):
            out.bad(m.fn, w.stmt, f'an equality constraint is not measured against equals when '
                    f'{boolx.fmt_val(miss)}', key='equals-guard')
            continue
        out.ok(m.fn, w.stmt, 'value - equals for the whole array, exactly when equals is not None')
    if ineq and not eq:
        if any(astx.mentions(st, 'equals') for st in m.loop_stmts):
            out.unsure(m.fn, m.loop, "meta['equals'] is used in an unrecognised way")
        else:
            out.bad(m.fn, m.loop, "equality constraints are never measured against meta['equals'] (their "
                    "lower/upper are infinite, so their violation is always 0)", key='missing-equals')
    # exclusivity: the inequality arithmetic must not run for equality constraints
    for w, b in ineq:
        g = m.guard(w.stmt)
        if tkey in g.atoms():
            out.bad(m.fn, w.stmt, "inequality branch selected by the truthiness of meta['equals']: equals=0.0 "
                    "is treated as an inequality with infinite bounds", key='equals-truthiness')
            break
        cx = m.sat(boolx.And(g, boolx.A('nn:equals')), viol=True)
        if cx is not None and eq:
            out.bad(m.fn, w.stmt, 'the lower/upper arithmetic also runs for equality constraints (whose bounds '
                    f'are infinite): the equality deviation is then zeroed ({boolx.fmt_val(cx)})',
                    key='equals-exclusive')
            break


def _zero_writes(m):
    return [w for w in m.viol_writes(('array',)) if w.op == 'set' and is_num(w.operand) and w.index is not None]


@rule('C22.zero', floor=1)
def zero(repo, out):
    """Over the 6 order relations: satisfied entries are zeroed, violated ones keep their distance."""
    m = model(repo)
    ineq, eq, other = _ineq_subs(m)
    subs = [(w, b) for w, b in ineq if w.index is not None and w.op in ('sub', 'add', 'rsub')]
    if not subs:
        raise AnalysisError(f'{m.fn.ident}: no indexed lower/upper update found in the violation block')
    zs = _zero_writes(m)
    unknown_writes = [w for w in m.viol_writes(('array',)) if w not in zs and not any(w is s for s, _ in subs)
                      and not any(w is e for e, _ in eq) and m.scale_key(w.operand, w.node) is None]
    if unknown_writes:
        out.unsure(m.fn, unknown_writes[0].stmt, 'another write to the value array is not understood')
        return
    if not zs:
        out.bad(m.fn, subs[0][0].stmt, 'entries that satisfy both bounds are never set to 0: they keep their raw '
                'constraint value in the violation vector', key='no-zero')
        return
    for z in zs:
        if not is_num(z.operand, 0):
            out.bad(m.fn, z.stmt, f'satisfied entries are set to {astx.src(z.operand)} instead of 0',
                    key='zero-value')
            return
    try:
        T0 = set()
        for z in zs:
            T0 |= m.truth_set(z.index, z.node)
        Tl, Tu = set(), set()
        for w, b in subs:
            ts = m.truth_set(w.index, w.node)
            if b.key == 'lower':
                Tl |= ts
            else:
                Tu |= ts
    except Unknown as u:
        out.unsure(m.fn, zs[0].stmt, f'mask not decided: {u.why}: {astx.src(u.node)}')
        return
    out.count('abstract_states', 3 * len(STATES))
    z0 = zs[0]
    for i in range(len(STATES)):
        st = fmt_state(i)
        inT0, inTl, inTu = i in T0, i in Tl, i in Tu
        if i in INSIDE and not inT0:
            out.bad(m.fn, z0.stmt, f'entries strictly inside the bounds ({st}) are not zeroed by '
                    f'`{astx.src(z0.index)}`', key='zero-mask')
            return
        if (i in BELOW or i in ABOVE) and inT0:
            out.bad(m.fn, z0.stmt, f'violated entries ({st}) are selected by the zero mask '
                    f'`{astx.src(z0.index)}`: their violation is erased', key='zero-mask')
            return
        if (i in ON_LOWER or i in ON_UPPER) and not (inT0 or inTl or inTu):
            out.bad(m.fn, z0.stmt, f'entries exactly on a bound ({st}) are selected by none of the three masks '
                    f'and keep their raw value (a non-zero "violation" for a satisfied entry)',
                    key='zero-mask')
            return
        if inTl and inTu and not inT0:
            out.bad(m.fn, z0.stmt, f'entries with {st} have both bounds subtracted', key='zero-mask')
            return
        if inT0 and (inTl or inTu):
            # overlap on a boundary state: the zeroing has to come last
            for w, b in subs:
                if m.same_iteration_path([z.node for z in zs], [w.node]) is not None:
                    out.bad(m.fn, w.stmt, f'entries on the bound ({st}) are zeroed first and then have the bound '
                            f'subtracted: they end at -bound', key='zero-order')
                    return
    out.ok(m.fn, z0.stmt, 'zero mask is the complement of the two violation masks on all 6 order relations '
           '(boundary entries end at 0)')


@rule('C22.order', floor=3)
def order(repo, out):
    """Every mask is evaluated on the unmodified values (before any in-place update of the iteration)."""
    m = model(repo)
    ws = [w for w in m.viol_writes(('array', 'local')) if w.index is not None]
    muts = [w for w in m.viol_writes(('array', 'local'))]
    if not ws:
        raise AnalysisError(f'{m.fn.ident}: no indexed update found')
    for w in ws:
        nodes = m.mask_nodes(w.index, w.node) if isinstance(w.index, ast.Name) else {w.node}
        late = None
        for mu in muts:
            for n in nodes:
                if n is mu.node:
                    continue
                p = m.same_iteration_path([mu.node], [n])
                if p is not None:
                    late = (mu, n)
                    break
            if late:
                break
        if late:
            mu, n = late
            out.bad(m.fn, n.ast, f'the mask for `{astx.src(w.stmt)}` is evaluated after '
                    f'`{astx.src(mu.stmt)}` has already replaced values by distances: it compares distances '
                    f'with bounds', key='stale-mask')
        else:
            out.ok(m.fn, w.stmt, f'mask `{astx.src(w.index)}` taken before any in-place update')


def _getitem_view(repo):
    """(ok?, node, why) for OptimizerVector.__getitem__ returning a view of self._data."""
    f = repo.func(OPTVEC, 'OptimizerVector.__getitem__')
    rets = [st for st in astx.walk_stmts(f.node.body) if isinstance(st, ast.Return) and st.value is not None]
    if not rets:
        raise AnalysisError(f'{f.ident}: no return')
    g = cfgm.build(f)
    rd = cfgm.ReachingDefs(g)
    for r in rets:
        e = r.value
        at = g.nodes_of(r)[0]
        hops = 0
        while True:
            hops += 1
            if hops > 8:
                return f, None, r, 'return expression too deep'
            if isinstance(e, ast.Name):
                v = rd.value(at, e.id)
                if v is None:
                    return f, None, r, f'`{e.id}` has no unique definition'
                at = next(iter(rd.defs(at, e.id)))
                e = v
                continue
            if isinstance(e, ast.Call) and isinstance(e.func, ast.Attribute):
                nm = e.func.attr
                if nm in ('reshape', 'ravel', 'view', 'squeeze'):
                    e = e.func.value
                    continue
                if nm in ('copy', 'flatten', 'astype', 'tolist') or np_call(e, 'array', 'copy'):
                    return f, False, r, f'`.{nm}()` returns a private copy of the data'
                if np_call(e, 'asarray', 'atleast_1d'):
                    e = e.args[0]
                    continue
                return f, None, r, f'call `{astx.src(e)}` not recognised'
            if isinstance(e, ast.Subscript):
                if astx.path(e.value) == 'self._data':
                    break
                e = e.value
                continue
            if isinstance(e, ast.BinOp):
                return f, False, r, 'arithmetic creates a new array'
            return f, None, r, f'`{astx.src(e)}` not recognised'
    return f, True, rets[0], 'returns a (reshaped) slice view of self._data'


@rule('C22.result', floor=4)
def result(repo, out):
    """The stored result is a fresh copy of the storage that received the arithmetic, taken after it."""
    m = model(repo)
    muts = [w for w in m.viol_writes(('array', 'local')) if m.scale_key(w.operand, w.node) is None]
    if not muts:
        raise AnalysisError(f'{m.fn.ident}: no violation arithmetic found')
    lsq = repo.func(DRIVER, 'Driver._compute_con_viol')
    ncalls = len([c for c in astx.calls(lsq.node) if astx.callee_attr(c) == 'get_constraint_values'])
    relies_on_view = False

    def root(t):
        while isinstance(t, ast.Subscript) and not (isinstance(t.slice, ast.Name) and t.slice.id == m.K):
            t = t.value
        return t
    def cases(e, f, at, depth=0):
        # split conditional expressions into (condition, expression) alternatives
        if isinstance(e, ast.IfExp) and depth < 4:
            t = boolx.from_ast(e.test, lambda y: m.atom(y, at))
            return cases(e.body, boolx.And(f, t), at, depth + 1) + \
                cases(e.orelse, boolx.And(f, boolx.Not(t)), at, depth + 1)
        return [(f, e)]
    todo = []
    for st in m.stores:
        for f, e in cases(st.value, m.guard(st), m.at(st)):
            val = m.sat(f, viol=True)
            if val is not None:
                todo.append((st, e, '' if e is st.value else
                             f' (alternative `{astx.src(e)}`, taken for {boolx.fmt_val(val)})'))
    for st, e, when in todo:
        at = m.at(st)
        hops = 0
        while isinstance(e, ast.Name) and m.def_kinds(e, at) == {'copy'} and hops < 4:
            # a temporary that holds a private copy: judge the expression that made the copy
            roots = m.root_defs(e.id, at)
            d = next(iter(roots)) if len(roots) == 1 else None
            if d is None or d.kind != 'stmt' or not isinstance(d.ast, ast.Assign) or len(d.ast.targets) != 1:
                break
            v = d.ast.value
            if isinstance(v, ast.BinOp) and any(isinstance(x, ast.Name) and x.id == e.id for x in (v.left, v.right)):
                break
            e, at, hops = v, d, hops + 1
        inner, copied = m.peel_copy(e)
        fresh = copied
        if isinstance(inner, ast.BinOp):
            # arithmetic result (e.g. values * scaler): fresh; look at the array operand
            cands = [x for x in (inner.left, inner.right) if m.arr_kind(m.peel_copy(x)[0], at) is not None]
            if len(cands) != 1:
                out.unsure(m.fn, st, 'stored expression not recognised')
                continue
            inner, fresh = m.peel_copy(cands[0])[0], True
        kind = m.arr_kind(inner, at)
        if kind is None:
            out.unsure(m.fn, st, f'stored value `{astx.src(e)}` is not derived from the constraint vector')
            continue
        if isinstance(inner, ast.Name) and m.def_kinds(inner, at) == {'copy'}:
            fresh = True
        # (i) does it see the arithmetic?
        lost = None
        for w in muts:
            tgt = root(w.stmt.targets[0] if isinstance(w.stmt, ast.Assign) else w.stmt.target)
            same_var = dkey(tgt) == dkey(inner)
            if isinstance(inner, ast.Name):
                if w.space == 'array' and not same_var and kind != 'view':
                    lost = (w, 'is applied to the vector storage but the stored array is a private copy taken '
                               'elsewhere')
                if w.space == 'local' and not same_var:
                    lost = (w, f'updates `{astx.src(tgt)}` but `{inner.id}` is stored')
            elif w.space == 'local':
                lost = (w, ('produces a new private array (not in place)' if w.rebind else
                            'works on a private copy of the values') +
                        '; the stored value re-reads the vector and does not see it')
            if w.space == 'array' and not same_var:
                relies_on_view = True
            if lost:
                break
        if lost:
            w, why = lost
            out.bad(m.fn, w.stmt, f'`{astx.src(w.stmt)}` {why}: the reported violation is the raw constraint '
                    f'value', key='arithmetic-lost')
            continue
        # (ii) after the arithmetic
        p = m.same_iteration_path([at], [w.node for w in muts])
        if p is not None:
            out.bad(m.fn, st, 'the result is copied before the violation arithmetic has finished: ' +
                    m.g.fmt_path(p), key='copied-too-early')
            continue
        out.ok(m.fn, st, 'stored value is read from the storage that received the arithmetic, after it')
        # (iii) fresh copy
        if not fresh:
            if ncalls >= 2:
                out.bad(m.fn, st, 'the result aliases the constraint vector' + when + ': _compute_con_viol calls '
                        'get_constraint_values twice and the second call repopulates the vector in place, '
                        'overwriting the violations returned by the first', key='result-aliases-vector')
            else:
                out.unsure(m.fn, st, 'result aliases the constraint vector')
        else:
            out.ok(m.fn, st, 'result is a fresh array (not overwritten by the next update_from_model)')
    # (iv) no constraint of the selection is skipped
    starts = [mm for mm, lab in m.g.succ[m.hdr] if lab == 'true']
    p = m.g.path(starts, [m.hdr], avoid=[m.at(s) for s in m.stores], labels=cfgm.noexc)
    if p is not None:
        out.bad(m.fn, m.loop, 'an iteration can end without storing a value for the constraint: its violation is '
                'missing from the result and every later row of the residual vector shifts: ' + m.g.fmt_path(p),
                key='constraint-dropped')
    else:
        out.ok(m.fn, m.loop, 'every selected constraint gets an entry')
    # (v) the dict is only filled by the loop
    inloop = {id(x) for x in m.loop_stmts} | {id(m.loop)}
    for st in astx.walk_stmts(m.fn.node.body):
        if id(st) in inloop or isinstance(st, ast.Return) or not astx.mentions(st, m.D):
            continue
        if isinstance(st, (ast.If, ast.For, ast.While, ast.With, ast.Try)) and \
                not any(astx.mentions(x, m.D) for x in m.g.nodes_of(st)[0].exprs()):
            continue    # a compound statement that merely contains the loop / other mentions
        if isinstance(st, ast.Assign) and len(st.targets) == 1 and isinstance(st.targets[0], ast.Name) and \
                st.targets[0].id == m.D and (isinstance(st.value, ast.Dict) and not st.value.keys or
                                             (isinstance(st.value, ast.Call) and not st.value.args and
                                              astx.callee_attr(st.value) in ('dict', 'OrderedDict'))):
            continue
        out.unsure(m.fn, st, f'the result dict `{m.D}` is also touched outside the loop')
    f, okv, node, why = _getitem_view(repo)
    if okv is None:
        out.unsure(f, node, why)
    elif okv:
        out.ok(f, node, why)
    elif relies_on_view:
        out.bad(f, node, f'{why}: the in-place violation arithmetic in get_constraint_values works on '
                f'`con_vec[name]` and the result re-reads `con_vec[name]`, so it would be lost',
                key='getitem-not-a-view')
    else:
        out.ok(f, node, 'copy semantics, and get_constraint_values does not rely on a view')


def _truth2(m, expr, at):
    """Formula of a boolean expression over viol / ds."""
    return boolx.from_ast(expr, lambda y: m.atom(y, at))


@rule('C22.input', floor=2)
def input_unscaled(repo, out):
    """The vector is refreshed before the loop and populated scaled iff driver_scaling and not viol."""
    m = model(repo)
    upd = [n for n in m.g.calling('update_from_model') if any(
        astx.callee_attr(c) == 'update_from_model' and m.is_vec(astx.receiver(c), n) for c in n.calls())]
    if not upd:
        raise AnalysisError(f'{m.fn.ident}: no update_from_model on the constraint vector')
    w = m.g.dominated_by(m.hdr, upd, labels=cfgm.noexc)
    if w is not None:
        out.bad(m.fn, m.loop, 'the loop can be reached without update_from_model: stale (or previously '
                'overwritten) constraint values: ' + m.g.fmt_path(w), key='stale-vector')
    else:
        out.ok(m.fn, upd[0].ast, 'update_from_model dominates the loop')
    spec = boolx.And(boolx.A('ds'), boolx.Not(boolx.A('viol')))
    for n in upd:
        for c in n.calls():
            if astx.callee_attr(c) != 'update_from_model':
                continue
            e = astx.arg(c, 1, 'driver_scaling')
            if starred(c):
                out.unsure(m.fn, n.ast, 'update_from_model is called with */** arguments')
                continue
            if e is None:
                out.bad(m.fn, n.ast, 'update_from_model is called without driver_scaling (default True): with '
                        'viol=True the scaled values (adder included) are compared with unscaled bounds',
                        key='input-scaling')
                continue
            f = _truth2(m, e, n)
            if m.unknown_atoms(f) or any(a.startswith(('t:', 'nn:')) for a in f.atoms()):
                out.unsure(m.fn, n.ast, f'driver_scaling argument `{astx.src(e)}` has unrecognised atoms')
                continue
            okk, rows, cx = boolx.equivalent(f, spec, extra_atoms=('ds', 'viol'))
            out.count('truth_table_rows', rows)
            if okk:
                out.ok(m.fn, n.ast, 'vector populated scaled iff driver_scaling and not viol (4 rows)')
            else:
                how = ('the values are scaled (adder and scaler) before being compared with the unscaled '
                       "meta['lower'/'upper'/'equals']" if cx.get('viol') else
                       'plain constraint values are not returned in the requested units')
                out.bad(m.fn, n.ast, f'driver_scaling=`{astx.src(e)}` for {boolx.fmt_val(cx)}: {how}',
                        key='input-scaling')


_AFFINE_CALLS = ('apply_constraint_scaling', '_apply_vec_scaling', 'apply_objective_scaling',
                 'apply_design_var_scaling')


@rule('C22.scale', floor=1)
def scale(repo, out):
    """Returned violation *= total_scaler exactly when viol & driver_scaling & scaler present; nothing else."""
    m = model(repo)
    good = []
    nbad = 0
    spec = boolx.And(boolx.A('viol'), boolx.A('ds'), boolx.A('nn:total_scaler'))
    muts = [w for w in m.viol_writes(('array', 'local')) if m.scale_key(w.operand, w.node) is None]
    # whole-vector affine scaling of something that holds distances
    for n in m.g.where(lambda n: any(astx.callee_attr(c) in _AFFINE_CALLS for c in n.calls())):
        st = n.ast
        g = m.guard(st) if isinstance(st, ast.stmt) and n.kind == 'stmt' else boolx.TRUE
        if m.sat(g, viol=True) is None:
            continue
        after = any(m.g.path(m.g.normal_succ(m.at(s)), [n], labels=cfgm.noexc) is not None for s in m.stores)
        extra = (' and it runs after the results were copied, so it does not reach the returned values at all'
                 if after else '')
        out.bad(m.fn, st, 'an affine scaling routine ((x + total_adder) * total_scaler) is applied to the '
                'vector that holds violations: a violation is a distance and must only be multiplied by '
                'the scaler' + extra, key='affine-scaling-of-distance')
        nbad += 1
    pseudo = []
    for st in m.stores:
        # a scaling factor folded into the stored expression: `D[k] = values * s`
        v = st.value
        if isinstance(v, ast.BinOp) and isinstance(v.op, (ast.Mult, ast.Div, ast.Add, ast.Sub)):
            for opd, other in ((v.right, v.left), (v.left, v.right)):
                if m.scale_key(opd, m.at(st)) is not None and m.arr_kind(m.peel_copy(other)[0], m.at(st)):
                    op = _OPNAME[type(v.op)]
                    if opd is v.left and op in ('sub', 'div'):
                        op = 'r' + op
                    pseudo.append(W(st, m.at(st), 'store', None, op, opd))
                    break
            else:
                if astx.mentions(v, *SCALE_KEYS):
                    out.unsure(m.fn, st, 'scaling inside the stored expression is not in a recognised form')
                    nbad += 1
        elif astx.mentions(v, *SCALE_KEYS):
            out.unsure(m.fn, st, 'scaling inside the stored expression is not in a recognised form')
            nbad += 1
    for w in m.writes() + pseudo:
        sk = m.scale_key(w.operand, w.node)
        if sk is None or not m.under_viol(w.stmt):
            continue
        key, none_safe = sk
        if w.space not in ('dict', 'array', 'local', 'store'):
            continue
        if key != 'total_scaler' or w.op != 'mul':
            why = {'total_adder': 'an adder is applied to a distance (a shift cancels in value - bound)',
                   'adder': 'an adder is applied to a distance (a shift cancels in value - bound)',
                   'scaler': "the declared scaler is used instead of total_scaler: it is None when the "
                             "constraint is scaled by ref/ref0",
                   'total_scaler': f'the violation is combined with total_scaler by `{w.op}` instead of '
                                   f'being multiplied by it'}.get(
                key, f"meta['{key}'] is not the constraint's scaling factor (total_scaler)")
            out.bad(m.fn, w.stmt, why, key=f'scale-{key}-{w.op}')
            nbad += 1
            continue
        if w.index is not None:
            out.unsure(m.fn, w.stmt, 'indexed scaling statement')
            continue
        g = m.guard(w.stmt)
        if m.unknown_atoms(g) or any(a.startswith('t:') for a in g.atoms()):
            out.unsure(m.fn, w.stmt, f'guard of the scaling statement has unrecognised atoms: {g!r}')
            continue
        lhs = g if not none_safe else boolx.And(g, boolx.A('nn:total_scaler'))
        okk, rows, cx = boolx.equivalent(lhs, spec, extra_atoms=('viol', 'ds', 'nn:total_scaler'))
        out.count('truth_table_rows', rows)
        if not okk:
            if g.ev(cx) and not cx.get('nn:total_scaler', True):
                how = 'multiplies by None (TypeError)'
            elif g.ev(cx) and not cx.get('viol'):
                how = ('plain constraint values were already scaled by update_from_model and are multiplied '
                       'by the scaler a second time')
            elif g.ev(cx):
                how = 'the violation is scaled although driver scaling was not requested'
            else:
                how = 'the violation is returned in model units although driver scaling was requested'
            out.bad(m.fn, w.stmt, f'scaling guard `{g!r}` differs from viol & driver_scaling & '
                    f'(total_scaler is not None) at {boolx.fmt_val(cx)}: {how}', key='scale-guard')
            nbad += 1
            continue
        # position
        if w.space == 'store':
            pass
        elif w.space == 'dict':
            starts = [mm for mm, lab in m.g.succ[m.hdr] if lab == 'true']
            p = m.g.path(starts, [w.node], avoid=[m.at(s) for s in m.stores] + [m.hdr], labels=cfgm.noexc)
            if p is not None:
                out.bad(m.fn, w.stmt, 'the result entry is scaled before it is stored (KeyError / overwritten '
                        'by the store)', key='scale-position')
                nbad += 1
                continue
            late = m.same_iteration_path([w.node], [m.at(s) for s in m.stores])
            if late is not None:
                out.bad(m.fn, w.stmt, 'the scaled entry is overwritten by a later store in the same iteration',
                        key='scale-position')
                nbad += 1
                continue
        else:
            if w.space == 'local':
                tn = w.stmt.target if isinstance(w.stmt, ast.AugAssign) else w.stmt.targets[0]
                if not (isinstance(tn, ast.Name) and any(
                        isinstance(m.peel_copy(s_.value)[0], ast.Name) and m.peel_copy(s_.value)[0].id == tn.id
                        for s_ in m.stores)):
                    out.unsure(m.fn, w.stmt, 'a private array is scaled but it is not (recognisably) what is stored')
                    nbad += 1
                    continue
            p = m.same_iteration_path([w.node], [x.node for x in muts])
            if p is not None:
                out.bad(m.fn, w.stmt, 'the values are scaled before the bounds (model units) are subtracted',
                        key='scale-position')
                nbad += 1
                continue
            p = m.same_iteration_path([m.at(s) for s in m.stores], [w.node])
            if p is not None and any(m.peel_copy(s.value)[1] for s in m.stores):
                out.bad(m.fn, w.stmt, 'the vector is scaled after the result was copied out of it: the returned '
                        'violation is unscaled', key='scale-position')
                nbad += 1
                continue
        good.append(w)
        out.ok(m.fn, w.stmt, 'violation *= total_scaler iff viol & driver_scaling & scaler present (8 rows); '
               'no adder')
    if not good and not nbad:
        mention = [st for st in m.loop_stmts if astx.mentions(st, *SCALE_KEYS) or astx.mentions(st, '_autoscaler')]
        stored_scaled = [s for s in m.stores if astx.mentions(s.value, *SCALE_KEYS)]
        if mention or stored_scaled:
            out.unsure(m.fn, (mention or stored_scaled)[0], 'scaling of the violation is not in a recognised form')
        else:
            out.bad(m.fn, m.stores[0], 'with viol=True the vector is populated unscaled and nothing multiplies the '
                    'returned violation by total_scaler: driver_scaling has no effect on the violation',
                    key='violation-not-scaled')
    elif not good and nbad:
        pass
    elif len(good) > 1:
        for i in range(len(good)):
            for j in range(i + 1, len(good)):
                if m.sat(boolx.And(m.guard(good[i].stmt), m.guard(good[j].stmt))) is not None:
                    out.bad(m.fn, good[j].stmt, 'the violation is multiplied by total_scaler twice',
                            key='scaled-twice')


# ------------------------------------------------------------------------------------- consumers
def _lin_filter(expr_ifs):
    """'linear' / 'nonlinear' for the filter list of a comprehension over self._cons.items()."""
    if len(expr_ifs) != 1:
        return None
    t = expr_ifs[0]
    neg = False
    if isinstance(t, ast.UnaryOp) and isinstance(t.op, ast.Not):
        neg, t = True, t.operand
    k = None
    if isinstance(t, ast.Subscript):
        k = astx.const_str(t.slice)
    elif isinstance(t, ast.Call) and isinstance(t.func, ast.Attribute) and t.func.attr == 'get' and t.args:
        k = astx.const_str(t.args[0])
    if k != 'linear':
        return None
    return 'nonlinear' if neg else 'linear'


class Lsq:
    def __init__(self, repo, qn):
        self.fn = repo.func(DRIVER, qn)
        self.g = cfgm.build(self.fn)
        self.rd = cfgm.ReachingDefs(self.g)

    def at(self, node):
        st = astx.stmt_of(node)
        ns = self.g.nodes_of(st)
        if not ns:
            raise AnalysisError(f'{self.fn.ident}: unreachable `{astx.src(st)}`')
        return ns[0]

    def param(self, e, at, name):
        return isinstance(e, ast.Name) and e.id == name and self.rd.defs(at, name) == {self.g.entry}

    def values(self, name, at):
        """All defining value expressions of a local (list of (expr, node)); None if not plain assigns."""
        out = []
        for d in self.rd.defs(at, name):
            if d.kind == 'stmt' and isinstance(d.ast, ast.Assign) and len(d.ast.targets) == 1 and \
                    astx.path(d.ast.targets[0]) == name:
                out.append((d.ast.value, d))
            else:
                return None
        return out

    def cons_tag(self, e, at, depth=0):
        """'linear'/'nonlinear' for an expression denoting a name collection filtered from self._cons."""
        if depth > 5:
            return None
        if isinstance(e, ast.Call) and isinstance(e.func, ast.Name) and e.func.id in ('list', 'tuple') and \
                len(e.args) == 1:
            return self.cons_tag(e.args[0], at, depth + 1)
        if isinstance(e, ast.Call) and isinstance(e.func, ast.Attribute) and \
                e.func.attr in ('keys', 'items', 'values') and not e.args:
            return self.cons_tag(e.func.value, at, depth + 1)
        if isinstance(e, (ast.DictComp, ast.ListComp, ast.GeneratorExp, ast.SetComp)) and len(e.generators) == 1:
            gen = e.generators[0]
            if isinstance(gen.iter, ast.Call) and astx.path(gen.iter.func) == 'self._cons.items':
                return _lin_filter(gen.ifs)
            return None
        if isinstance(e, ast.Name):
            vs = self.values(e.id, at)
            if vs and len(vs) == 1:
                return self.cons_tag(vs[0][0], vs[0][1], depth + 1)
        return None


def lsq_of(repo, qn):
    cache = getattr(repo, '_c22_lsq', None)
    if cache is None:
        cache = repo._c22_lsq = {}
    if qn not in cache:
        cache[qn] = Lsq(repo, qn)
    return cache[qn]


def literal_range(name):
    """Constants a Name ranges over when it is the target of an enclosing comprehension generator or for
    loop over a literal tuple/list of constants; else None."""
    cur = name
    for anc in astx.ancestors(name):
        gens = []
        if isinstance(anc, (ast.ListComp, ast.GeneratorExp, ast.SetComp, ast.DictComp)):
            gens = [(g.target, g.iter, bool(g.ifs)) for g in anc.generators]
        elif isinstance(anc, ast.For) and any(c is cur for c in anc.body):
            gens = [(anc.target, anc.iter, False)]
        for tg, it, filt in gens:
            if isinstance(tg, ast.Name) and tg.id == name.id:
                if not filt and isinstance(it, (ast.Tuple, ast.List)) and it.elts and \
                        all(isinstance(x, ast.Constant) for x in it.elts):
                    return [x.value for x in it.elts]
                return None
        if isinstance(anc, (ast.FunctionDef, ast.AsyncFunctionDef)):
            return None
        cur = anc
    return None


def _gcv_calls(L):
    return [c for c in astx.calls(L.fn.node) if astx.callee_attr(c) == 'get_constraint_values' and
            astx.path(astx.receiver(c)) == 'self']


@rule('C22.lsq', floor=5)
def lsq(repo, out):
    """_compute_con_viol asks for viol=True in the requested units, once per constraint, after the run."""
    L = lsq_of(repo, 'Driver._compute_con_viol')
    calls = _gcv_calls(L)
    if not calls:
        raise AnalysisError(f'{L.fn.ident}: does not call self.get_constraint_values')
    lintypes = []
    decided = 0
    for c in calls:
        at = L.at(c)
        st = astx.stmt_of(c)
        if starred(c):
            out.unsure(L.fn, st, 'get_constraint_values is called with */** arguments')
            continue
        v = astx.arg(c, 3, 'viol')
        if v is None or (isinstance(v, ast.Constant) and v.value is not True):
            out.bad(L.fn, st, 'get_constraint_values is called without viol=True: the least-squares residual is '
                    'the raw constraint value, not the violation', key='lsq-viol')
            continue
        if not (isinstance(v, ast.Constant) and v.value is True):
            out.unsure(L.fn, st, f'viol argument `{astx.src(v)}` not a literal')
            continue
        d = astx.arg(c, 2, 'driver_scaling')
        if d is None:
            out.bad(L.fn, st, 'driver_scaling is not forwarded (default True): the residual ignores the units '
                    'requested from find_feasible', key='lsq-units')
            continue
        if isinstance(d, ast.Constant):
            out.bad(L.fn, st, f'driver_scaling is fixed to {d.value!r} instead of the requested flag',
                    key='lsq-units')
            continue
        if isinstance(d, ast.UnaryOp) and isinstance(d.op, ast.Not) and L.param(d.operand, at, 'driver_scaling'):
            out.bad(L.fn, st, 'driver_scaling is forwarded negated', key='lsq-units')
            continue
        if not L.param(d, at, 'driver_scaling'):
            out.unsure(L.fn, st, f'driver_scaling argument `{astx.src(d)}` not recognised')
            continue
        ct = astx.arg(c, 0, 'ctype')
        if ct is not None and astx.const_str(ct) != 'all':
            out.bad(L.fn, st, f'ctype={astx.src(ct)} drops part of the constraints from the residual',
                    key='lsq-partition')
            continue
        lt = astx.arg(c, 1, 'lintype')
        rng = literal_range(lt) if isinstance(lt, ast.Name) else None
        if rng is not None:     # one call evaluated once per literal of a constant sequence
            for x in rng:
                lintypes.append(x if isinstance(x, str) else None)
                out.ok(L.fn, st, f'viol=True, driver_scaling forwarded, lintype={x!r} (from the literal sequence)')
        else:
            lintypes.append('all' if lt is None else astx.const_str(lt))
            out.ok(L.fn, st, f'viol=True, driver_scaling forwarded, lintype={lintypes[-1]}')
        decided += 1
    if decided == len(calls):
        if sorted(map(str, lintypes)) in (['all'], ['linear', 'nonlinear']):
            out.ok(L.fn, astx.stmt_of(calls[0]), f'constraints partitioned as {lintypes}: each appears once')
        elif None in lintypes:
            out.unsure(L.fn, astx.stmt_of(calls[0]), 'lintype is not a literal')
        else:
            out.bad(L.fn, astx.stmt_of(calls[-1]), f'lintype selections {lintypes} do not partition the '
                    f'constraints: some violations are missing or duplicated in the residual vector',
                    key='lsq-partition')
    # the residual elements are the violations themselves
    rp = residual_parts(L)
    if rp is None:
        out.unsure(L.fn, L.fn.node, 'residual construction not recognised')
    elif rp['filtered']:
        out.bad(L.fn, rp['stmt'], 'violation arrays are filtered / conditionally skipped while the residual is '
                'assembled: its rows no longer match con_row_map', key='lsq-elements')
    else:
        verdicts = []
        for elt, var, st in rp['elts']:
            e = elt
            while True:
                if isinstance(e, ast.Call) and isinstance(e.func, ast.Attribute) and \
                        e.func.attr in ('ravel', 'flatten', 'reshape', 'copy') and not np_call(e, 'ravel', 'copy'):
                    e = e.func.value
                elif np_call(e, 'ravel', 'atleast_1d', 'asarray', 'array') and len(e.args) == 1:
                    e = e.args[0]
                else:
                    break
            if isinstance(e, ast.Name) and e.id == var:
                verdicts.append('ok')
            elif (isinstance(e, ast.Call) and astx.callee_attr(e) in ('abs', 'absolute', 'fabs', 'square',
                                                                       'negative')) or \
                    isinstance(e, (ast.UnaryOp, ast.BinOp)):
                out.bad(L.fn, st, f'the residual is `{astx.src(elt)}`, not the signed violation: its sign/magnitude '
                        f'no longer matches the Jacobian +d(value)/dx handed to least_squares', key='lsq-elements')
                verdicts.append('bad')
            else:
                out.unsure(L.fn, st, f'residual element `{astx.src(elt)}` not recognised')
                verdicts.append('unsure')
        if all(v == 'ok' for v in verdicts):
            out.ok(L.fn, rp['stmt'], 'residual elements are the flattened violation arrays, unmodified')
    # freshness
    run = L.g.calling('_run_solve_nonlinear')
    setdv = L.g.calling('_set_design_vars')
    cnodes = [L.at(c) for c in calls]
    if not run or not setdv:
        raise AnalysisError(f'{L.fn.ident}: _set_design_vars/_run_solve_nonlinear not found')
    w = None
    for n in cnodes:
        w = w or L.g.dominated_by(n, run, labels=cfgm.noexc)
    w2 = None
    for n in run:
        w2 = w2 or L.g.dominated_by(n, setdv, labels=cfgm.noexc)
    w3 = None
    for n in run:
        for s in setdv:
            if L.g.path(L.g.normal_succ(n), [s], labels=cfgm.noexc) is not None:
                w3 = s
    if w is not None:
        out.bad(L.fn, cnodes[0].ast, 'violations are read without running the model at x_new: ' + L.g.fmt_path(w),
                key='lsq-fresh')
    elif w2 is not None or w3 is not None:
        out.bad(L.fn, run[0].ast, 'the model is run before the new design variables are set: the residual '
                'belongs to the previous point', key='lsq-fresh')
    else:
        out.ok(L.fn, run[0].ast, '_set_design_vars -> _run_solve_nonlinear -> get_constraint_values')


def _flatten_concat(e):
    """Operands of a `+` chain / chain(...) / [*a, *b] in order."""
    if isinstance(e, ast.BinOp) and isinstance(e.op, ast.Add):
        a, b = _flatten_concat(e.left), _flatten_concat(e.right)
        return None if a is None or b is None else a + b
    if isinstance(e, ast.Call) and astx.callee_attr(e) == 'chain' and not e.keywords:
        out = []
        for a in e.args:
            f = _flatten_concat(a)
            if f is None:
                return None
            out += f
        return out
    if isinstance(e, (ast.List, ast.Tuple)) and e.elts and all(isinstance(x, ast.Starred) for x in e.elts):
        out = []
        for x in e.elts:
            f = _flatten_concat(x.value)
            if f is None:
                return None
            out += f
        return out
    if isinstance(e, ast.Call) and isinstance(e.func, ast.Name) and e.func.id in ('list', 'tuple') and len(e.args) == 1:
        return _flatten_concat(e.args[0])
    return [e]


def dict_seq(L, e, at, depth=0):
    """Ordered parts of an expression denoting a *sequence of violation dicts*: a literal tuple/list, a local
    bound to one, or `[self.get_constraint_values(.., t, ..) for t in (<literals>)]` (each literal becomes
    a Constant part carrying the lintype).  None if not recognised."""
    if depth > 4:
        return None
    if isinstance(e, (ast.Tuple, ast.List)) and e.elts and not any(isinstance(x, ast.Starred) for x in e.elts):
        return [(x, at) for x in e.elts]
    if isinstance(e, ast.Name):
        vs = L.values(e.id, at)
        if vs and len(vs) == 1:
            return dict_seq(L, vs[0][0], vs[0][1], depth + 1)
        return None
    if isinstance(e, (ast.ListComp, ast.GeneratorExp)) and len(e.generators) == 1 and not e.generators[0].ifs:
        c = e.elt
        if isinstance(c, ast.Call) and astx.callee_attr(c) == 'get_constraint_values' and not starred(c):
            lt = astx.arg(c, 1, 'lintype')
            rng = literal_range(lt) if isinstance(lt, ast.Name) else None
            if rng is not None and isinstance(e.generators[0].target, ast.Name) and \
                    e.generators[0].target.id == lt.id:
                return [(ast.Constant(value=x), at) for x in rng]
    return None


def part_tag(L, p, at):
    """lintype tag ('linear' / 'nonlinear' / 'all') of one residual part, or None."""
    if isinstance(p, ast.Constant):
        return p.value if isinstance(p.value, str) else None
    call = None
    if isinstance(p, ast.Call):
        call = p
    elif isinstance(p, ast.Name):
        vs = L.values(p.id, at)
        if vs and len(vs) == 1:
            call = vs[0][0]
    if isinstance(call, ast.Call) and astx.callee_attr(call) == 'get_constraint_values' and not starred(call):
        lt = astx.arg(call, 1, 'lintype')
        return 'all' if lt is None else astx.const_str(lt)
    return None


def _expand_iter(L, e, at, outer):
    """Dict expressions iterated by `e` (an iterable of violation arrays), in order; None if unknown.

    `outer` maps a loop variable to the ordered literal sequence it ranges over.
    """
    parts = _flatten_concat(e)
    if parts is None:
        return None
    out = []
    for p in parts:
        if isinstance(p, ast.Call) and isinstance(p.func, ast.Attribute) and p.func.attr == 'values' and not p.args:
            p = p.func.value
        else:
            return None
        if isinstance(p, ast.Name) and p.id in outer:
            out.extend((x, at) for x in outer[p.id])
        else:
            out.append((p, at))
    return out


def _const_seq(it):
    if isinstance(it, (ast.Tuple, ast.List)) and it.elts and all(isinstance(x, ast.Constant) for x in it.elts):
        return [x.value for x in it.elts]
    return None


def array_seq(L, e, at, st, depth=0):
    """An expression denoting an ordered sequence of violation arrays ->
    dict(parts=[(dict expr, node, const_loops)], elts=[(element expr, var, stmt)], filtered) or None.

    Accepted: concatenations / chain / [*..] of `D.values()`; comprehensions `[f(v) for v in <array seq>]` and
    `[f(v) for d in <dict seq> for v in d.values()]`; a local bound to any of these; an accumulator
    `acc = []` filled by `acc.append(f(v))` / `acc.extend(<array seq>)` inside for loops over a literal
    sequence of dicts or of constants.
    """
    if depth > 5:
        return None
    got = _expand_iter(L, e, at, {})
    if got is not None:
        return dict(parts=[(x, n, ()) for x, n in got], elts=[], filtered=False)
    if isinstance(e, ast.Call) and isinstance(e.func, ast.Name) and e.func.id in ('list', 'tuple') and \
            len(e.args) == 1:
        return array_seq(L, e.args[0], at, st, depth + 1)
    if isinstance(e, (ast.ListComp, ast.GeneratorExp)):
        gens = e.generators
        if len(gens) not in (1, 2) or not all(isinstance(g_.target, ast.Name) for g_ in gens):
            return None
        filt = any(g_.ifs for g_ in gens)
        if len(gens) == 2:      # for d in <sequence of dicts> for v in d.values()
            seq = dict_seq(L, gens[0].iter, at)
            if seq is None:
                return None
            got = _expand_iter(L, gens[1].iter, at, {gens[0].target.id: [x for x, _ in seq]})
            if got is None:
                return None
            return dict(parts=[(x, n, ()) for x, n in got], elts=[(e.elt, gens[1].target.id, st)], filtered=filt)
        inner = array_seq(L, gens[0].iter, at, st, depth + 1)
        if inner is None:
            return None
        return dict(parts=inner['parts'], elts=inner['elts'] + [(e.elt, gens[0].target.id, st)],
                    filtered=filt or inner['filtered'])
    if not isinstance(e, ast.Name):
        return None
    acc = e.id
    defs = L.rd.defs(at, acc)
    if len(defs) != 1:
        return None
    d0 = next(iter(defs))
    if not (d0.kind == 'stmt' and isinstance(d0.ast, ast.Assign) and len(d0.ast.targets) == 1 and
            astx.path(d0.ast.targets[0]) == acc):
        return None
    v0 = d0.ast.value
    if not (isinstance(v0, ast.List) and not v0.elts):
        return array_seq(L, v0, d0, d0.ast, depth + 1)      # a temporary holding the sequence
    parts, elts, filtered = [], [], False
    for s2 in astx.walk_stmts(L.fn.node.body):
        if s2 is d0.ast or isinstance(s2, (ast.For, ast.If, ast.With, ast.Try, ast.While)):
            continue
        if not (isinstance(s2, ast.Expr) and isinstance(s2.value, ast.Call) and
                isinstance(s2.value.func, ast.Attribute) and astx.path(s2.value.func.value) == acc):
            if any(isinstance(t, ast.Name) and t.id == acc for t in astx.assigned_targets(s2)
                   if isinstance(s2, (ast.Assign, ast.AugAssign, ast.Delete))):
                return None     # the accumulator is rebound / changed in another way
            continue            # a mere reader
        if s2.value.func.attr not in ('append', 'extend') or len(s2.value.args) != 1 or not L.g.nodes_of(s2):
            return None
        n2 = L.g.nodes_of(s2)[0]
        loops = []
        for anc in astx.ancestors(s2):
            if anc is L.fn.node:
                break
            if isinstance(anc, ast.For):
                loops.append(anc)
            elif isinstance(anc, (ast.If, ast.While)):
                filtered = True
            elif not isinstance(anc, (ast.Try, ast.With)):
                return None
        loops.reverse()
        if any(lp.orelse for lp in loops) or any(isinstance(x, (ast.Break, ast.Continue))
                                                 for lp in loops for x in astx.walk_stmts(lp.body)):
            filtered = True
        arg = s2.value.args[0]
        outer, consts = {}, []
        if s2.value.func.attr == 'append':
            if not loops or not isinstance(loops[-1].target, ast.Name):
                return None
            inner_iter, seq_loops = loops[-1].iter, loops[:-1]
            elts.append((arg, loops[-1].target.id, s2))
        else:
            inner_iter, seq_loops = None, loops
        for lp in seq_loops:
            if not isinstance(lp.target, ast.Name) or not L.g.nodes_of(lp):
                return None
            cs = _const_seq(lp.iter)
            if cs is not None:
                consts.append((lp.target.id, tuple(cs)))
                continue
            seq = dict_seq(L, lp.iter, L.g.nodes_of(lp)[0])
            if seq is None or outer:
                return None
            outer[lp.target.id] = [x for x, _ in seq]
        if inner_iter is not None:
            got = _expand_iter(L, inner_iter, n2, outer)
            if got is None:
                return None
            parts += [(x, n, tuple(consts)) for x, n in got]
        else:
            got = _expand_iter(L, arg, n2, outer)
            if got is not None:
                parts += [(x, n, tuple(consts)) for x, n in got]
            else:
                if outer or consts:
                    return None
                inner = array_seq(L, arg, n2, s2, depth + 1)
                if inner is None:
                    return None
                parts += inner['parts']
                elts += inner['elts']
                filtered = filtered or inner['filtered']
    if not parts:
        return None
    return dict(parts=parts, elts=elts, filtered=filtered)


def residual_parts(L):
    """How _compute_con_viol builds the flat residual: dict(stmt, parts, elts, filtered) or None."""
    for st in astx.walk_stmts(L.fn.node.body):
        if not (isinstance(st, ast.Return) and isinstance(st.value, ast.Call) and
                astx.callee_attr(st.value) in ('concatenate', 'hstack') and len(st.value.args) >= 1):
            continue
        r = array_seq(L, st.value.args[0], L.g.nodes_of(st)[0], st)
        if r is None:
            return None
        if not r['elts']:
            r['elts'] = []
        return dict(r, stmt=st)
    return None


def part_tags(L, p, at, consts):
    """Ordered lintype tags contributed by one residual part (a part inside loops over constants counts once
    per iteration; a lintype argument bound to such a loop variable takes its literals)."""
    if isinstance(p, ast.Constant):
        tags = [p.value if isinstance(p.value, str) else None]
        var = None
    else:
        call, var = None, None
        if isinstance(p, ast.Call):
            call = p
        elif isinstance(p, ast.Name):
            vs = L.values(p.id, at)
            if vs and len(vs) == 1:
                call = vs[0][0]
        if not (isinstance(call, ast.Call) and astx.callee_attr(call) == 'get_constraint_values'
                and not starred(call)):
            return [None]
        lt = astx.arg(call, 1, 'lintype')
        if isinstance(lt, ast.Name) and any(lt.id == v for v, _ in consts):
            var = lt.id
            tags = [None]
        else:
            tags = ['all' if lt is None else astx.const_str(lt)]
    out = tags
    for v, cs in reversed(consts):
        if v == var:
            out = [c if isinstance(c, str) else None for c in cs for _ in out] if out == [None] else out
        else:
            out = out * len(cs)
    return out


@rule('C22.rows', floor=3)
def rows(repo, out):
    """Residual rows, con_row_map and the Jacobian stack all use the order linear-then-nonlinear."""
    orders = {}
    # (A) residual vector
    L = lsq_of(repo, 'Driver._compute_con_viol')
    recog = False
    rp = residual_parts(L)
    if rp is not None:
        tags = []
        for p, at, consts in rp['parts']:
            tags += part_tags(L, p, at, consts)
        if tags and None not in tags:
            orders['residual'] = (L.fn, rp['stmt'], tags)
            recog = True
    if not recog:
        out.unsure(L.fn, L.fn.node, 'residual concatenation not recognised')
    # (B) con_row_map
    F = lsq_of(repo, 'Driver._find_feasible')
    recog = False
    for st in astx.walk_stmts(F.fn.node.body):
        if not isinstance(st, ast.For):
            continue
        stores = [s for s in st.body if isinstance(s, ast.Assign) and len(s.targets) == 1 and
                  isinstance(s.targets[0], ast.Subscript) and isinstance(s.value, ast.Call) and
                  isinstance(s.value.func, ast.Name) and s.value.func.id == 'slice']
        if not stores or not astx.mentions(stores[0].targets[0], 'con_row_map'):
            continue
        parts = _flatten_concat(st.iter)
        at = F.g.nodes_of(st)[0]
        tags = [F.cons_tag(p, at) for p in parts or []]
        if parts and None not in tags:
            orders['con_row_map'] = (F.fn, st, tags)
            recog = True
            # the offsets must accumulate
            sl = stores[0].value
            advanced = {astx.path(t) for s2 in astx.walk_stmts(st.body)
                        if isinstance(s2, (ast.Assign, ast.AugAssign)) and
                        not (isinstance(s2, ast.Assign) and isinstance(s2.value, ast.Constant))
                        for t in astx.assigned_targets(s2)}
            if len(sl.args) == 2 and isinstance(sl.args[0], ast.Name) and sl.args[0].id not in advanced:
                out.bad(F.fn, stores[0], f'row offset `{sl.args[0].id}` is not advanced in the loop: all constraints '
                        f'map to the same rows of the violation vector', key='row-offset')
    if not recog:
        out.unsure(F.fn, F.fn.node, 'con_row_map construction not recognised')
    # (C) Jacobian stack
    G = lsq_of(repo, 'Driver._compute_con_viol_grad')
    recog = False
    for c in astx.calls(G.fn.node):
        if astx.callee_attr(c) != 'vstack' or not c.args or not isinstance(c.args[0], (ast.Tuple, ast.List)):
            continue
        at = G.at(c)
        tags = []
        for p in c.args[0].elts:
            tag = None
            if isinstance(p, ast.Name) and G.rd.defs(at, p.id) == {G.g.entry}:
                # a parameter: bound by functools.partial in _find_feasible
                for pc in astx.calls(F.fn.node):
                    if astx.callee_attr(pc) == 'partial' and pc.args and \
                            astx.path(pc.args[0]) == 'self._compute_con_viol_grad':
                        kv = astx.kwarg(pc, p.id)
                        if isinstance(kv, ast.Name):
                            tag = _totals_tag(F, kv.id, F.at(pc))
            elif isinstance(p, ast.Name):
                tag = _totals_tag(G, p.id, at)
            tags.append(tag)
        if tags and None not in tags:
            orders['jacobian'] = (G.fn, astx.stmt_of(c), tags)
            recog = True
    if not recog:
        out.unsure(G.fn, G.fn.node, 'Jacobian stack not recognised')
    ref = ['linear', 'nonlinear']
    if not orders:
        return
    cands = [tags for _, _, tags in orders.values()]
    best = max(cands, key=lambda t: (sum(1 for c in cands if c == t), t == ref))
    if sorted(best) != sorted(ref):
        best = ref
    for what, (fn, st, tags) in orders.items():
        if tags == best:
            out.ok(fn, st, f'{what} rows ordered {tags}, as at the other sites')
        else:
            others = {k: v[2] for k, v in orders.items() if k != what}
            out.bad(fn, st, f'{what} rows are ordered {tags} but the other sites use {others}: violations are '
                    f'attributed to the wrong constraint rows (max-violation report, active-row masking, '
                    f'Jacobian)', key=f'row-order-{what}')


def _totals_tag(L, name, at):
    """Tag of a local holding `_compute_totals(of=<filtered names>)` (np.empty defs are neutral)."""
    vs = L.values(name, at)
    if not vs:
        return None
    tags = set()
    for v, d in vs:
        if np_call(v, 'empty', 'zeros'):
            continue
        if isinstance(v, ast.Call) and astx.callee_attr(v) == '_compute_totals':
            of = astx.arg(v, 0, 'of')
            tags.add(L.cons_tag(of, d) if of is not None else None)
        else:
            tags.add(None)
    return tags.pop() if len(tags) == 1 else None


@rule('C22.flag', floor=5)
def flag(repo, out):
    """The driver_scaling flag of Problem.find_feasible reaches the residual and its Jacobian unchanged."""
    # Problem.find_feasible -> driver._find_feasible
    P = repo.func(PROBLEM, 'Problem.find_feasible')
    gP = cfgm.build(P)
    rdP = cfgm.ReachingDefs(gP)
    n = 0
    for c in astx.calls(P.node):
        if astx.callee_attr(c) != '_find_feasible':
            continue
        n += 1
        st = astx.stmt_of(c)
        at = gP.nodes_of(st)[0]
        e = astx.arg(c, 0, 'driver_scaling')
        if starred(c):
            out.unsure(P, st, '_find_feasible is called with */** arguments')
            continue
        _flag_site(out, P, st, e, lambda x: isinstance(x, ast.Name) and x.id == 'driver_scaling' and
                   rdP.defs(at, 'driver_scaling') == {gP.entry}, 'Problem.find_feasible -> _find_feasible')
    if not n:
        raise AnalysisError(f'{P.ident}: no call of driver._find_feasible')
    F = lsq_of(repo, 'Driver._find_feasible')
    viol_params = [a.arg for a in repo.func(DRIVER, 'Driver._compute_con_viol').node.args.args]
    seen = 0
    for c in astx.calls(F.fn.node):
        if astx.callee_attr(c) != 'partial' or not c.args:
            continue
        at = F.at(c)
        st = astx.stmt_of(c)
        isp = lambda x: F.param(x, at, 'driver_scaling')
        if starred(c) and any(astx.path(a) in ('self._compute_con_viol', 'self._compute_con_viol_grad')
                              for a in c.args):
            seen += 1
            out.unsure(F.fn, st, 'functools.partial with */** arguments')
            continue
        if any(astx.path(a) == 'self._compute_con_viol' for a in c.args):
            kw = astx.kwarg(c, 'kwargs')
            seen += 1
            if not isinstance(kw, ast.Dict):
                out.unsure(F.fn, st, 'kwargs of the least_squares residual not a dict literal')
                continue
            e = None
            for k, v in zip(kw.keys, kw.values):
                if astx.const_str(k) == 'driver_scaling':
                    e = v
            if 'driver_scaling' not in viol_params:
                out.unsure(F.fn, st, '_compute_con_viol has no driver_scaling parameter')
                continue
            _flag_site(out, F.fn, st, e, isp, 'least_squares residual kwargs')
        elif astx.path(c.args[0]) == 'self._compute_con_viol_grad':
            seen += 1
            if len(c.args) > 1:
                out.unsure(F.fn, st, 'Jacobian callback bound with positional arguments')
                continue
            _flag_site(out, F.fn, st, astx.kwarg(c, 'driver_scaling'), isp, 'Jacobian callback')
    for c in astx.calls(F.fn.node):
        if astx.callee_attr(c) == '_compute_totals' and astx.path(astx.receiver(c)) == 'self':
            at = F.at(c)
            if starred(c):
                out.unsure(F.fn, astx.stmt_of(c), '_compute_totals called with */** arguments')
                continue
            _flag_site(out, F.fn, astx.stmt_of(c), astx.arg(c, 3, 'driver_scaling'),
                       lambda x: F.param(x, at, 'driver_scaling'), 'cached linear constraint gradient')
    if seen < 2:
        out.unsure(F.fn, F.fn.node, 'functools.partial wiring of residual/Jacobian not recognised')
    G = lsq_of(repo, 'Driver._compute_con_viol_grad')
    for c in astx.calls(G.fn.node):
        if astx.callee_attr(c) == '_compute_totals' and astx.path(astx.receiver(c)) == 'self':
            at = G.at(c)
            if starred(c):
                out.unsure(G.fn, astx.stmt_of(c), '_compute_totals called with */** arguments')
                continue
            _flag_site(out, G.fn, astx.stmt_of(c), astx.arg(c, 3, 'driver_scaling'),
                       lambda x: G.param(x, at, 'driver_scaling'), 'nonlinear constraint gradient')


def _flag_site(out, fn, st, e, is_param, what):
    if e is None:
        out.bad(fn, st, f'{what}: driver_scaling is not forwarded (the callee defaults to True): violation and '
                f'Jacobian are not in the units requested from find_feasible', key='flag-' + what.split()[0])
    elif is_param(e):
        out.ok(fn, st, f'{what}: driver_scaling forwarded unchanged')
    elif isinstance(e, ast.Constant) or (isinstance(e, ast.UnaryOp) and isinstance(e.op, ast.Not)
                                         and is_param(e.operand)):
        out.bad(fn, st, f'{what}: driver_scaling=`{astx.src(e)}` instead of the requested flag: the violation '
                f'and its Jacobian end up in different units', key='flag-' + what.split()[0])
    else:
        out.unsure(fn, st, f'{what}: driver_scaling argument `{astx.src(e)}` not recognised')


# ------------------------------------------------------------------------------------- selection
def _gen_yields(stmts, env, loopvar=None):
    """Does a generator body yield for one element under env?  Raises Unknown."""
    for st in stmts:
        if astx.is_docstring(st):
            continue
        if isinstance(st, ast.For) and isinstance(st.target, ast.Name) and not st.orelse:
            if _gen_yields(st.body, dict(env, **{'$loop': st.target.id})):
                return True
        elif isinstance(st, ast.If):
            t = _gen_truth(st.test, env)
            if _gen_yields(st.body if t else st.orelse, env):
                return True
        elif isinstance(st, ast.Expr) and isinstance(st.value, ast.Yield):
            v = st.value.value
            if not (isinstance(v, ast.Name) and v.id == env.get('$loop')):
                raise Unknown(st, 'yields something else than the item')
            return True
        elif isinstance(st, ast.Assign) and len(st.targets) == 1 and isinstance(st.targets[0], ast.Name):
            env[st.targets[0].id] = _gen_truth(st.value, env)
        else:
            raise Unknown(st, 'statement not understood')
    return False


def _is_item_val(e, env):
    """tup[1][key]"""
    return isinstance(e, ast.Subscript) and isinstance(e.slice, ast.Name) and e.slice.id == env['$key'] and \
        isinstance(e.value, ast.Subscript) and isinstance(e.value.slice, ast.Constant) and e.value.slice.value == 1 \
        and isinstance(e.value.value, ast.Name) and e.value.value.id == env.get('$loop')


def _gen_truth(e, env):
    if isinstance(e, ast.Name) and e.id in env:
        return env[e.id]
    if isinstance(e, ast.Constant) and isinstance(e.value, bool):
        return e.value
    if isinstance(e, ast.UnaryOp) and isinstance(e.op, ast.Not):
        return not _gen_truth(e.operand, env)
    if isinstance(e, ast.BoolOp):
        vals = [_gen_truth(v, env) for v in e.values]
        return all(vals) if isinstance(e.op, ast.And) else any(vals)
    if _is_item_val(e, env):
        return env['$truthy']
    if isinstance(e, ast.Compare) and len(e.ops) == 1 and isinstance(e.ops[0], (ast.Is, ast.IsNot)) and \
            isinstance(e.comparators[0], ast.Constant) and e.comparators[0].value is None and \
            _is_item_val(e.left, env):
        return env['$none'] if isinstance(e.ops[0], ast.Is) else not env['$none']
    raise Unknown(e, 'condition not understood')


@rule('C22.select', floor=3)
def select(repo, out):
    """lintype='linear' keeps exactly the linear constraints, 'nonlinear' exactly the others."""
    m = model(repo)
    it = m.loop.iter.id if isinstance(m.loop.iter, ast.Name) else None
    if it is None:
        raise AnalysisError(f'{m.fn.ident}: loop does not iterate a local iterator')
    want = {'linear': False, 'nonlinear': True}
    found = {}
    for st in astx.walk_stmts(m.fn.node.body):
        if not isinstance(st, ast.If):
            continue
        t = st.test
        if not (isinstance(t, ast.Compare) and len(t.ops) == 1 and isinstance(t.ops[0], ast.Eq)):
            continue
        l, r = t.left, t.comparators[0]
        if astx.const_str(l) is not None:
            l, r = r, l
        lit = astx.const_str(r)
        if not (isinstance(l, ast.Name) and l.id == 'lintype' and m.is_param('lintype', m.at(st)) and lit in want):
            continue
        calls = [s for s in st.body if isinstance(s, ast.Assign) and len(s.targets) == 1 and
                 astx.path(s.targets[0]) == it and isinstance(s.value, ast.Call) and
                 astx.callee_attr(s.value) == 'filter_by_meta']
        if len(calls) != 1 or len(st.body) != 1:
            out.unsure(m.fn, st, f"branch lintype == '{lit}' is not a single `{it} = filter_by_meta(...)`")
            found[lit] = None
            continue
        c = calls[0].value
        if starred(c):
            out.unsure(m.fn, calls[0], 'filter_by_meta called with */** arguments')
            found[lit] = None
            continue
        src, key = astx.arg(c, 0, 'metadict_items'), astx.arg(c, 1, 'key')
        chk, exc = astx.arg(c, 2, 'chk_none'), astx.arg(c, 3, 'exclude')
        found[lit] = calls[0]
        if not (isinstance(src, ast.Name) and src.id == it) or astx.const_str(key) != 'linear' or \
                (exc is not None and not isinstance(exc, ast.Constant)) or \
                (chk is not None and not isinstance(chk, ast.Constant)):
            out.unsure(m.fn, calls[0], 'filter_by_meta arguments not recognised')
            continue
        excl = bool(exc.value) if exc is not None else False
        if chk is not None and chk.value:
            out.bad(m.fn, calls[0], "the 'linear' flag is compared with None (chk_none=True): it is a bool, so the "
                    "selection is all-or-nothing", key=f'select-{lit}')
        elif excl != want[lit]:
            out.bad(m.fn, calls[0], f"lintype='{lit}' selects the {'non' if excl else ''}linear constraints: "
                    f"_compute_con_viol then measures some constraints twice and others never",
                    key=f'select-{lit}')
        else:
            out.ok(m.fn, calls[0], f"lintype='{lit}' -> filter_by_meta('linear', exclude={excl})")
    for lit in want:
        if lit not in found:
            out.bad(m.fn, m.loop, f"lintype='{lit}' is not dispatched: every constraint is returned and "
                    f"_compute_con_viol measures constraints twice", key=f'select-{lit}')
    f = repo.func(DRIVER, 'filter_by_meta')
    a = [x.arg for x in f.node.args.args]
    if a[:4] != ['metadict_items', 'key', 'chk_none', 'exclude']:
        raise AnalysisError(f'{f.ident}: signature changed')
    try:
        n = 0
        for chk in (False, True):
            for excl in (False, True):
                for flag in (False, True):
                    env = {'chk_none': chk, 'exclude': excl, '$key': 'key', '$truthy': flag, '$none': not flag}
                    got = _gen_yields(f.node.body, env)
                    n += 1
                    if got != (flag != excl):
                        what = 'is not None' if chk else 'is truthy'
                        out.bad(f, f.node, f'filter_by_meta(chk_none={chk}, exclude={excl}) '
                                f"{'yields' if got else 'drops'} an item whose value {what} == {flag}",
                                key='filter-semantics')
                        return
        out.count('truth_table_rows', n)
        out.ok(f, f.node, 'yields an item iff (value present/truthy) != exclude (8 rows)')
    except Unknown as u:
        out.unsure(f, u.node, f'generator body not understood: {u.why}')


# ------------------------------------------------------------------------------------- error path
@rule('C22.surface', floor=2)
def surface(repo, out):
    """Zeros substituted for the violations after an exception are never taken for a result: re-raised."""
    L = lsq_of(repo, 'Driver._compute_con_viol')
    g = L.g
    substituting = []
    for st in astx.walk_stmts(L.fn.node.body):
        if not isinstance(st, ast.Try):
            continue
        for h in st.handlers:
            rets = [s for s in astx.walk_stmts(h.body) if isinstance(s, ast.Return)]
            if not rets:
                continue
            substituting.append(h)
            hn = [n for n in g.nodes if n.kind == 'except' and n.ast is h]
            rec = set(g.where(lambda n: n.kind == 'stmt' and isinstance(n.ast, ast.Assign) and
                              any(astx.path(t) == 'self._exc_info' for t in n.ast.targets) and
                              not (isinstance(n.ast.value, ast.Constant) and n.ast.value.value is None)))

            def recorded_test(n):
                if n.kind != 'test' or not isinstance(n.ast, ast.If):
                    return None
                t = n.ast.test
                if isinstance(t, ast.Compare) and len(t.ops) == 1 and astx.path(t.left) == 'self._exc_info' and \
                        isinstance(t.comparators[0], ast.Constant) and t.comparators[0].value is None:
                    return 'false' if isinstance(t.ops[0], ast.Is) else 'true' if isinstance(t.ops[0], ast.IsNot) else None
                return None
            # search a path handler -> return that neither records nor knows that something is recorded
            from collections import deque
            dq = deque(hn)
            seen = set(hn)
            leak = None
            rnodes = {n for r in rets for n in g.nodes_of(r)}
            while dq and leak is None:
                n = dq.popleft()
                if n in rnodes:
                    leak = n
                    break
                if n in rec:
                    continue
                skip = recorded_test(n)
                for mm, lab in g.succ[n]:
                    if lab == 'exc' or (skip is not None and lab == skip):
                        continue
                    if mm not in seen:
                        seen.add(mm)
                        dq.append(mm)
            if leak is not None:
                out.bad(L.fn, h, 'the handler returns a substitute (zero) violation vector without recording the '
                        'exception in self._exc_info: the failure is silently reported as "no violation"',
                        key='exception-not-recorded')
            else:
                out.ok(L.fn, h, 'substitute residual only after the exception was recorded in self._exc_info')
    if not substituting:
        out.ok(L.fn, L.fn.node, 'exceptions propagate out of the residual function')
        out.ok(L.fn, L.fn.node, 'nothing to re-raise')
        return
    F = lsq_of(repo, 'Driver._find_feasible')
    fg = F.g

    def is_lsq_value(v):
        if not isinstance(v, ast.Call):
            return False
        if astx.callee_attr(v) == 'partial' and any(astx.path(a) == 'self._compute_con_viol' for a in v.args):
            return True
        return astx.callee_attr(v) == 'least_squares' and any(astx.path(a) == 'self._compute_con_viol'
                                                              for a in v.args)
    runs = []
    for n in fg.where(lambda n: True):
        for c in n.calls():
            if astx.callee_attr(c) == 'least_squares' and is_lsq_value(c):
                runs.append(n)
            elif isinstance(c.func, ast.Name) and not c.args and not c.keywords:
                vs = F.values(c.func.id, n)
                if vs and all(is_lsq_value(v) for v, _ in vs):
                    runs.append(n)
    if not runs:
        raise AnalysisError(f'{F.fn.ident}: the least-squares call over self._compute_con_viol was not found')
    checks = set(fg.calling('_reraise', recv='self'))
    for n in fg.where(lambda n: n.kind == 'test' and isinstance(n.ast, ast.If)):
        if astx.mentions(n.ast.test, '_exc_info') and any(
                astx.callee_attr(c) == '_reraise' for s in n.ast.body for c in astx.calls(s)):
            checks.add(n)
    for n in runs:
        w = fg.path(fg.normal_succ(n), [fg.exit], avoid=checks, labels=cfgm.noexc)
        if w is not None:
            out.bad(F.fn, n.ast, 'after this least-squares run _find_feasible can return without checking '
                    'self._exc_info / calling self._reraise(): an exception raised by the model inside '
                    '_compute_con_viol was replaced by an all-zero violation vector, so the run is reported as '
                    '"Feasible point found" (success=True) although no violation was measured. Path: ' +
                    fg.fmt_path(w, limit=6), key='reraise-after-lsq')
        else:
            out.ok(F.fn, n.ast, 'every return after the least-squares run passes the _exc_info re-raise check')


# ------------------------------------------------------------------------------------- repo-wide
_ANALYSED = ('get_constraint_values', '_compute_con_viol', '_compute_con_viol_grad', '_find_feasible')


@rule('C22.who', floor=5, tier='thorough')
def who(repo, out):
    """No Driver subclass overrides the analysed methods; nobody else asks for viol=True."""
    # Driver subclasses by a fixed point over the modules that mention "Driver" (repo.subclasses would
    # parse the whole package: ~8 s)
    cands = []
    for rel in repo.shipped():
        if 'Driver' in repo.source(rel):
            mod = repo.module(rel)
            cands += [(rel, q, c) for q, c in mod.classes.items() if c.bases and (rel, q) != (DRIVER, 'Driver')]
    known = {(DRIVER, 'Driver'): None}
    changed = True
    while changed:
        changed = False
        for rel, q, c in cands:
            if (rel, q) in known:
                continue
            mod = repo.module(rel)
            for b in c.bases:
                nm = b.id if isinstance(b, ast.Name) else b.attr if isinstance(b, ast.Attribute) else None
                parent = None
                if nm in mod.classes and (rel, nm) in known:
                    parent = (rel, nm)
                elif nm in mod.imports and mod.imports[nm][1]:
                    orig = mod.imports[nm][1]
                    r2 = mod.imports[nm][0].replace('.', '/') + '.py'
                    if (r2, orig) in known:
                        parent = (r2, orig)
                    else:
                        same = [k for k in known if k[1] == orig]
                        parent = same[0] if len(same) == 1 and not repo.exists(r2) else None
                if parent is not None:
                    known[(rel, q)] = parent
                    changed = True
                    break
    subs = sorted(k for k in known if k != (DRIVER, 'Driver'))

    def lookup(r, q, meth):
        k = (r, q)
        while k is not None:
            f = repo.module(k[0]).funcs.get(f'{k[1]}.{meth}')
            if f is not None:
                return f
            k = known.get(k)
        return None
    for r, q in subs:
        wrong = []
        for meth in _ANALYSED + tuple(model(repo).inlined):
            f = lookup(r, q, meth)
            if f is None or (f.rel, f.qualname) != (DRIVER, f'Driver.{meth}'):
                wrong.append((meth, f))
        cls = repo.module(r).classes[q]
        if wrong:
            meth, f = wrong[0]
            out.bad((r, q), cls, f'{q}.{meth} resolves to {f.ident if f else None}, not Driver.{meth}: its violation '
                    f'computation is outside the analysed code', key=f'override-{q}-{meth}')
        else:
            out.ok((r, q), cls, f'{q} inherits ' + ', '.join(_ANALYSED + tuple(model(repo).inlined)))
    for rel in repo.shipped():
        if 'viol' not in repo.source(rel) or 'get_constraint_values' not in repo.source(rel):
            continue
        for f in repo.module(rel).funcs.values():
            for c in astx.calls(f.node):
                if astx.callee_attr(c) == 'get_constraint_values' and astx.arg(c, 3, 'viol') is not None:
                    if (rel, f.qualname) == (DRIVER, 'Driver._compute_con_viol'):
                        out.ok(f, astx.stmt_of(c), 'the analysed consumer of viol=True')
                    else:
                        out.bad(f, astx.stmt_of(c), 'a consumer of viol=True that the C22 rules do not analyse '
                                '(units / row order / freshness unchecked)', key='viol-consumer')


# ------------------------------------------------------------------------------------- self-test
_D = DRIVER
_ELSE = ("                else:\n"
         "                    lower = np.broadcast_to(meta['lower'], con_val.shape)\n"
         "                    upper = np.broadcast_to(meta['upper'], con_val.shape)\n"
         "                    lower_viol_idxs = np.where(con_val < lower)[0]\n"
         "                    upper_viol_idxs = np.where(con_val > upper)[0]\n"
         "                    non_viol_idxs = np.where((con_val >= lower) & (con_val <= upper))[0]\n"
         "                    con_val[lower_viol_idxs] -= lower[lower_viol_idxs]\n"
         "                    con_val[upper_viol_idxs] -= upper[upper_viol_idxs]\n"
         "                    con_val[non_viol_idxs] = 0.0\n")
_PREFIX_F7 = ("                else:\n"
              "                    lower_viol_idxs = np.where(con_val < meta['lower'])[0]\n"
              "                    upper_viol_idxs = np.where(con_val > meta['upper'])[0]\n"
              "                    non_viol_idxs = np.where((con_val >= meta['lower'])\n"
              "                                             & (con_val <= meta['upper']))[0]\n"
              "                    con_val[lower_viol_idxs] -= meta['lower']\n"
              "                    con_val[upper_viol_idxs] -=  meta['upper']\n"
              "                    con_val[non_viol_idxs] = 0.0\n")
_EQ_IF = ("                if meta['equals'] is not None:\n"
          "                    con_val -= meta['equals']\n")
_SCALE = ("            # Violations are computed in model units.  A violation is a distance, so in\n"
          "            # driver-scaled space it is multiplied by the scaler only (no adder).\n"
          "            if viol and driver_scaling and meta['total_scaler'] is not None:\n"
          "                con_dict[name] *= meta['total_scaler']\n")
_SCALE_IF = "            if viol and driver_scaling and meta['total_scaler'] is not None:\n"
_SCALE_ST = "                con_dict[name] *= meta['total_scaler']\n"
_STORE = "            con_dict[name] = con_vec[name].copy()\n"
_LSUB = "                    con_val[lower_viol_idxs] -= lower[lower_viol_idxs]\n"
_USUB = "                    con_val[upper_viol_idxs] -= upper[upper_viol_idxs]\n"
_ZERO = "                    con_val[non_viol_idxs] = 0.0\n"
_UMASK = "                    upper_viol_idxs = np.where(con_val > upper)[0]\n"
_NMASK = "                    non_viol_idxs = np.where((con_val >= lower) & (con_val <= upper))[0]\n"
_UPD = "driver_scaling=driver_scaling and not viol"
_LIN_CALL = ("            lin_con_viol_dict = self.get_constraint_values(lintype='linear',\n"
             "                                                           driver_scaling=driver_scaling,\n"
             "                                                           viol=True)\n")
_NL_CALL = ("            nl_con_viol_dict = self.get_constraint_values(lintype='nonlinear',\n"
            "                                                          driver_scaling=driver_scaling,\n"
            "                                                          viol=True)\n")
_RUN = ("            with RecordingDebugging(self._get_name(), self.iter_count, self):\n"
        "                self.iter_count += 1\n"
        "                with model._relevance.nonlinear_active('iter'):\n"
        "                    self._run_solve_nonlinear()\n")
_CHK = '        # an exception raised by the model inside _compute_con_viol was recorded there (and\n        # replaced by a zero violation vector so that scipy could return); surface it now.\n        if self._exc_info is not None:\n            self._reraise()\n\n'
_CONCAT = ("list(lin_con_viol_dict.values()) +\n"
           "                                   list(nl_con_viol_dict.values())")

_VIOL_BLOCK = "            if viol:\n                con_val = con_vec[name]\n" + _EQ_IF + _ELSE
_HELPER_CALL = "            if viol:\n                self._val_to_viol(con_vec[name], meta)\n"
_NEXT_DEF = "    def _get_ordered_nl_responses(self):\n"
_RETURN_CONCAT = ("            return np.concatenate([v.ravel() for v in\n"
                  "                                   " + _CONCAT + "])\n")


def _helper_def(block):
    """Source of a private helper holding the (16-space indented) violation block."""
    body = ''.join((ln[8:] if ln.strip() else ln) for ln in block.splitlines(True))
    return ('    def _val_to_viol(self, con_val, meta):\n        """Convert values to violations in place."""\n'
            + body + '\n')


_ROWMAP = ("        i = 0\n        for name, meta in chain(lincons.items(), nl_cons.items()):\n"
           "            size = meta['global_size'] if meta['distributed'] else meta['size']\n"
           "            con_row_map[name] = slice(i, i + size)\n            i += size\n")


def _static_helper():
    return ("    @staticmethod\n    def _val_to_viol(con_val, meta):\n"
            '        """Replace values by violations in place."""\n'
            "        if meta['equals'] is None:\n"
            "            shape = con_val.shape\n"
            "            lower = np.broadcast_to(meta['lower'], shape)\n"
            "            upper = np.broadcast_to(meta['upper'], shape)\n"
            "            below = np.where(con_val < lower)[0]\n"
            "            above = np.where(con_val > upper)[0]\n"
            "            inside = np.where((con_val >= lower) & (con_val <= upper))[0]\n"
            "            con_val[below] -= lower[below]\n"
            "            con_val[above] -= upper[above]\n"
            "            con_val[inside] = 0.0\n"
            "        else:\n"
            "            con_val -= meta['equals']\n\n")


def _comp_residual(literals):
    return ("            viol_dicts = [self.get_constraint_values('all', lintype, driver_scaling, True)\n"
            f"                          for lintype in {literals}]\n\n"
            "            return np.concatenate([viol.ravel() for viol_dict in viol_dicts\n"
            "                                   for viol in viol_dict.values()])\n")


_TEMP_SCALE = ("            val_copy = con_vec[name].copy()\n\n"
               "            if viol and driver_scaling:\n"
               "                if meta['total_scaler'] is not None:\n"
               "                    val_copy *= meta['total_scaler']\n\n"
               "            con_dict[name] = val_copy\n")


def _early_return_helper():
    return ("    @staticmethod\n    def _val_to_viol(vals, meta):\n"
            '        """Replace values by violations in place."""\n'
            "        if meta['equals'] is None:\n"
            "            lo = np.broadcast_to(meta['lower'], vals.shape)\n"
            "            hi = np.broadcast_to(meta['upper'], vals.shape)\n"
            "            below = np.where(vals < lo)[0]\n"
            "            above = np.where(vals > hi)[0]\n"
            "            inside = np.where((vals >= lo) & (vals <= hi))[0]\n"
            "            vals[below] -= lo[below]\n"
            "            vals[above] -= hi[above]\n"
            "            vals[inside] = 0.0\n"
            "            return\n\n"
            "        vals -= meta['equals']\n\n")


def _const_loop_residual(literals):
    return ("            viol_arrays = []\n"
            f"            for lintype in {literals}:\n"
            "                viol_dict = self.get_constraint_values(lintype=lintype,\n"
            "                                                       driver_scaling=driver_scaling,\n"
            "                                                       viol=True)\n"
            "                viol_arrays.extend(viol_dict.values())\n\n"
            "            flat_viols = [v.ravel() for v in viol_arrays]\n"
            "            return np.concatenate(flat_viols)\n")


def _loop_residual(seq, elt):
    return ("            flat_viols = []\n"
            f"            for viol_dict in {seq}:\n"
            "                for con_viol in viol_dict.values():\n"
            f"                    flat_viols.append({elt})\n"
            "            return np.concatenate(flat_viols)\n")


selftest(
    'C22',
    # ---- index
    Mutant('index-prefix-F7', _D, _ELSE, _PREFIX_F7, 'C22.index'),
    Mutant('index-whole-broadcast', _D, _LSUB, "                    con_val[lower_viol_idxs] -= lower\n", 'C22.index'),
    Mutant('index-other-index-set', _D, 'upper[upper_viol_idxs]', 'upper[lower_viol_idxs]', 'C22.index'),
    Mutant('index-raw-bound-indexed', _D, '-= lower[lower_viol_idxs]', "-= meta['lower'][lower_viol_idxs]", 'C22.index'),
    Mutant('index-no-normalisation', _D, "upper = np.broadcast_to(meta['upper'], con_val.shape)", "upper = meta['upper']",
           'C22.index'),
    Mutant('index-one-side-only-fixed', _D, '-= upper[upper_viol_idxs]', "-= meta['upper']", 'C22.index'),
    # ---- pair
    Mutant('pair-wrong-bound', _D, '-= lower[lower_viol_idxs]', '-= upper[lower_viol_idxs]', 'C22.pair'),
    Mutant('pair-mask-direction', _D, 'np.where(con_val < lower)[0]', 'np.where(con_val > lower)[0]', 'C22.pair'),
    Mutant('pair-mask-wrong-bound', _D, 'np.where(con_val > upper)[0]', 'np.where(con_val > lower)[0]', 'C22.pair'),
    Mutant('pair-sign-add', _D, 'con_val[upper_viol_idxs] -= upper', 'con_val[upper_viol_idxs] += upper', 'C22.pair'),
    Mutant('pair-sign-reversed', _D, _LSUB,
           "                    con_val[lower_viol_idxs] = lower[lower_viol_idxs] - con_val[lower_viol_idxs]\n", 'C22.pair'),
    Mutant('pair-equals-truthiness', _D, "if meta['equals'] is not None:\n                    con_val -=",
           "if meta['equals']:\n                    con_val -=", 'C22.pair'),
    Mutant('pair-equals-sign', _D, "con_val -= meta['equals']", "con_val += meta['equals']", 'C22.pair'),
    Mutant('pair-equals-not-exclusive', _D, "                else:\n                    lower = np.broadcast_to",
           "                if True:\n                    lower = np.broadcast_to", 'C22.pair'),
    Mutant('pair-upper-forgotten', _D, _USUB, '', 'C22.pair'),
    Mutant('pair-equals-forgotten', _D, _EQ_IF + _ELSE, _ELSE.replace('                else:\n', '                if True:\n'),
           'C22.pair'),
    Mutant('pair-unmasked', _D, _LSUB, "                    con_val -= lower\n", 'C22.pair'),
    Mutant('pair-subtracted-twice', _D, _USUB, _USUB + _USUB, 'C22.pair'),
    # ---- zero
    Mutant('zero-missing', _D, _ZERO, "                    pass\n", 'C22.zero'),
    Mutant('zero-or-mask', _D, '(con_val >= lower) & (con_val <= upper)', '(con_val >= lower) | (con_val <= upper)', 'C22.zero'),
    Mutant('zero-strict-mask', _D, '(con_val >= lower) & (con_val <= upper)', '(con_val > lower) & (con_val < upper)', 'C22.zero'),
    Mutant('zero-one-sided-mask', _D, '(con_val >= lower) & (con_val <= upper)', '(con_val >= lower)', 'C22.zero'),
    Mutant('zero-not-zero', _D, 'con_val[non_viol_idxs] = 0.0', 'con_val[non_viol_idxs] = 1.0', 'C22.zero'),
    Mutant('zero-before-sub-overlap', _D, _UMASK + _NMASK + _LSUB + _USUB + _ZERO,
           "                    upper_viol_idxs = np.where(con_val >= upper)[0]\n" + _NMASK + _ZERO + _LSUB + _USUB,
           'C22.zero'),
    # ---- order
    Mutant('order-upper-mask-late', _D, _UMASK + _NMASK + _LSUB, _NMASK + _LSUB + _UMASK, 'C22.order'),
    Mutant('order-zero-mask-late', _D, _NMASK + _LSUB + _USUB, _LSUB + _USUB + _NMASK, 'C22.order'),
    Mutant('order-inline-zero-mask', _D, 'con_val[non_viol_idxs] = 0.0',
           'con_val[np.where((con_val >= lower) & (con_val <= upper))[0]] = 0.0', 'C22.order'),
    # ---- result
    Mutant('result-private-copy', _D, "                con_val = con_vec[name]\n", "                con_val = con_vec[name].copy()\n",
           'C22.result'),
    Mutant('result-rebind-equals', _D, "con_val -= meta['equals']", "con_val = con_val - meta['equals']", 'C22.result'),
    Mutant('result-no-copy', _D, 'con_dict[name] = con_vec[name].copy()', 'con_dict[name] = con_vec[name]', 'C22.result'),
    Mutant('result-copied-too-early', _D, "            if viol:\n                con_val = con_vec[name]\n",
           _STORE + "            if viol:\n                con_val = con_vec[name]\n", 'C22.result',
           also=[(_D, "\n" + _STORE + "\n            # Violations", "\n\n            # Violations")]),
    Mutant('result-getitem-copies', OPTVEC, "return self._data[info['slice']].reshape(-1)",
           "return self._data[info['slice']].reshape(-1).copy()", 'C22.result'),
    Mutant('result-getitem-flatten', OPTVEC, "return self._data[info['slice']].reshape(-1)",
           "return self._data[info['slice']].flatten()", 'C22.result'),
    # ---- input
    Mutant('input-always-requested', _D, _UPD, 'driver_scaling=driver_scaling', 'C22.input'),
    Mutant('input-or', _D, _UPD, 'driver_scaling=driver_scaling or not viol', 'C22.input'),
    Mutant('input-default', _D, 'con_vec.update_from_model(driver=self, ' + _UPD + ')', 'con_vec.update_from_model(driver=self)',
           'C22.input'),
    Mutant('input-viol-swapped', _D, _UPD, 'driver_scaling=viol and not driver_scaling', 'C22.input'),
    Mutant('input-stale', _D, '        con_vec.update_from_model(', '        if not viol:\n            con_vec.update_from_model(',
           'C22.input'),
    # ---- scale
    Mutant('scale-prefix-F8', _D, _SCALE + "\n        return con_dict\n",
           "        # If we computed violations, those were unscaled.\n        # Now scale them.\n"
           "        if driver_scaling and viol:\n            self._autoscaler.apply_constraint_scaling(con_vec)\n"
           "\n        return con_dict\n", 'C22.scale'),
    Mutant('scale-affine-before-copy', _D, _STORE,
           "            if viol and driver_scaling:\n                self._autoscaler.apply_constraint_scaling(con_vec)\n" + _STORE,
           'C22.scale'),
    Mutant('scale-guard-no-flag', _D, _SCALE_IF, "            if viol and meta['total_scaler'] is not None:\n", 'C22.scale'),
    Mutant('scale-guard-no-viol', _D, _SCALE_IF, "            if driver_scaling and meta['total_scaler'] is not None:\n", 'C22.scale'),
    Mutant('scale-guard-negated-flag', _D, _SCALE_IF,
           "            if viol and not driver_scaling and meta['total_scaler'] is not None:\n", 'C22.scale'),
    Mutant('scale-guard-none', _D, _SCALE_IF, "            if viol and driver_scaling:\n", 'C22.scale'),
    Mutant('scale-divide', _D, "con_dict[name] *= meta['total_scaler']", "con_dict[name] /= meta['total_scaler']", 'C22.scale'),
    Mutant('scale-adds-adder', _D, _SCALE_IF,
           "            if viol and driver_scaling and meta['total_adder'] is not None:\n"
           "                con_dict[name] += meta['total_adder']\n" + _SCALE_IF, 'C22.scale'),
    Mutant('scale-declared-scaler', _D, _SCALE_IF + _SCALE_ST,
           "            if viol and driver_scaling and meta['scaler'] is not None:\n"
           "                con_dict[name] *= meta['scaler']\n", 'C22.scale'),
    Mutant('scale-removed', _D, _SCALE_IF + _SCALE_ST, '', 'C22.scale'),
    Mutant('scale-vector-after-copy', _D, _SCALE_ST, "                con_vec[name] *= meta['total_scaler']\n", 'C22.scale'),
    Mutant('scale-twice', _D, _SCALE_ST, _SCALE_ST + _SCALE_ST, 'C22.scale'),
    # ---- lsq
    Mutant('lsq-no-viol', _D, _LIN_CALL, _LIN_CALL.replace(",\n                                                           viol=True)", ")"),
           'C22.lsq'),
    Mutant('lsq-viol-false', _D, _NL_CALL, _NL_CALL.replace('viol=True', 'viol=False'), 'C22.lsq'),
    Mutant('lsq-units-fixed', _D, _NL_CALL, _NL_CALL.replace('driver_scaling=driver_scaling', 'driver_scaling=True'), 'C22.lsq'),
    Mutant('lsq-units-dropped', _D, _LIN_CALL, _LIN_CALL.replace("driver_scaling=driver_scaling,\n" + ' ' * 59, ''), 'C22.lsq'),
    Mutant('lsq-duplicate-linear', _D, _NL_CALL, _NL_CALL.replace("lintype='nonlinear'", "lintype='linear'"), 'C22.lsq'),
    Mutant('lsq-overlap-all', _D, _NL_CALL, _NL_CALL.replace("lintype='nonlinear',\n" + ' ' * 58, ''), 'C22.lsq'),
    Mutant('lsq-ineq-only', _D, _NL_CALL, _NL_CALL.replace("lintype='nonlinear'", "ctype='ineq', lintype='nonlinear'"), 'C22.lsq'),
    Mutant('lsq-read-before-run', _D, _RUN, _LIN_CALL + _RUN, 'C22.lsq',
           also=[(_D, "            # apply the cached linear constraint gradient.\n" + _LIN_CALL,
                  "            # apply the cached linear constraint gradient.\n")]),
    Mutant('lsq-run-before-set', _D,
           "            dv_vec.set_data(x_new, driver_scaling=True)\n"
           "            self._set_design_vars(desvar_names=desvar_names, driver_scaling=True)\n", '', 'C22.lsq',
           also=[(_D, _RUN, _RUN + "            dv_vec.set_data(x_new, driver_scaling=True)\n"
                  "            self._set_design_vars(desvar_names=desvar_names, driver_scaling=True)\n")]),
    # ---- rows
    Mutant('rows-residual-swapped', _D, _CONCAT,
           "list(nl_con_viol_dict.values()) +\n                                   list(lin_con_viol_dict.values())", 'C22.rows'),
    Mutant('rows-map-swapped', _D, 'chain(lincons.items(), nl_cons.items())', 'chain(nl_cons.items(), lincons.items())', 'C22.rows'),
    Mutant('rows-jac-swapped', _D, 'np.vstack((lin_con_grad, nl_con_grad))', 'np.vstack((nl_con_grad, lin_con_grad))', 'C22.rows'),
    Mutant('rows-filter-flipped', _D, "lincons = {name: meta for name, meta in self._cons.items() if meta.get('linear')}",
           "lincons = {name: meta for name, meta in self._cons.items() if not meta.get('linear')}", 'C22.rows'),
    Mutant('rows-offset-stuck', _D, "            con_row_map[name] = slice(i, i + size)\n            i += size\n",
           "            con_row_map[name] = slice(i, i + size)\n", 'C22.rows'),
    # ---- flag
    Mutant('flag-residual-fixed', _D, "kwargs={'driver_scaling': driver_scaling,", "kwargs={'driver_scaling': True,", 'C22.flag'),
    Mutant('flag-residual-dropped', _D, "kwargs={'driver_scaling': driver_scaling,\n                                          'desvar_names'",
           "kwargs={'desvar_names'", 'C22.flag'),
    Mutant('flag-problem-dropped', PROBLEM, "return driver._find_feasible(driver_scaling=driver_scaling,\n",
           "return driver._find_feasible(\n", 'C22.flag'),
    Mutant('flag-jac-dropped', _D, 'driver_scaling=driver_scaling, lin_con_grad=lincongrad_cache,', 'lin_con_grad=lincongrad_cache,',
           'C22.flag'),
    Mutant('flag-jac-negated', _D, 'driver_scaling=driver_scaling, lin_con_grad=lincongrad_cache,',
           'driver_scaling=not driver_scaling, lin_con_grad=lincongrad_cache,', 'C22.flag'),
    # ---- twins
    Twin('twin-flip-compare', _D, 'np.where(con_val < lower)[0]', 'np.where(lower > con_val)[0]'),
    Twin('twin-flip-equals-branches', _D, _EQ_IF + _ELSE,
         "                if meta['equals'] is None:\n" + _ELSE.replace('                else:\n', '') +
         "                else:\n                    con_val -= meta['equals']\n"),
    Twin('twin-extract-scaler', _D, _SCALE_IF + _SCALE_ST,
         "            total = meta['total_scaler']\n            if viol and driver_scaling and total is not None:\n"
         "                con_dict[name] *= total\n"),
    Twin('twin-nested-scale-guard', _D, _SCALE_IF + _SCALE_ST,
         "            if driver_scaling and viol:\n                if meta['total_scaler'] is not None:\n"
         "                    con_dict[name] = con_dict[name] * meta['total_scaler']\n"),
    Twin('twin-reorder-subtractions', _D, _LSUB + _USUB, _USUB + _LSUB),
    Twin('twin-boolean-masks', _D, _ELSE,
         "                else:\n"
         "                    lo = np.full(con_val.shape, meta['lower'])\n"
         "                    hi = np.ones(con_val.size) * meta['upper']\n"
         "                    below = con_val < lo\n"
         "                    above = hi < con_val\n"
         "                    inside = ~(below | above)\n"
         "                    con_val[inside] = 0.0\n"
         "                    con_val[above] = con_val[above] - hi[above]\n"
         "                    con_val[below] -= lo[below]\n"),
    Twin('twin-complement-mask', _D, 'np.where((con_val >= lower) & (con_val <= upper))[0]',
         'np.flatnonzero(np.logical_not(np.logical_or(con_val < lower, con_val > upper)))'),
    Twin('twin-renamed-view', _D, "                con_val = con_vec[name]\n" + _EQ_IF,
         "                vals = con_vec[name]\n                con_val = vals\n" + _EQ_IF),
    Twin('twin-input-reordered', _D, _UPD, 'driver_scaling=not viol and driver_scaling'),
    Twin('twin-input-extracted', _D, '        con_vec.update_from_model(driver=self, ' + _UPD + ')',
         '        scaled = driver_scaling and not viol\n        con_vec.update_from_model(self, scaled)'),
    Twin('twin-store-np-array', _D, 'con_dict[name] = con_vec[name].copy()', 'con_dict[name] = np.array(con_vec[name])'),
    Twin('twin-residual-chain', _D, _CONCAT, 'chain(lin_con_viol_dict.values(), nl_con_viol_dict.values())'),
    Twin('twin-lsq-positional', _D, _LIN_CALL,
         "            lin_con_viol_dict = self.get_constraint_values('all', 'linear', driver_scaling, True)\n"),
    Twin('twin-inclusive-masks', _D, _ELSE, _ELSE.replace('con_val < lower)', 'con_val <= lower)')),
    # ---- branch / selection / error path
    Mutant('pair-wrong-branch', _D, "            if viol:\n                con_val = con_vec[name]\n",
           "            if not viol:\n                con_val = con_vec[name]\n", 'C22.pair'),
    Mutant('pair-branch-widened', _D, "            if viol:\n                con_val = con_vec[name]\n",
           "            if viol or driver_scaling:\n                con_val = con_vec[name]\n", 'C22.pair'),
    Mutant('select-nonlinear-not-excluded', _D, "it = filter_by_meta(it, 'linear', exclude=True)", "it = filter_by_meta(it, 'linear')",
           'C22.select'),
    Mutant('select-linear-excluded', _D, "        if lintype == 'linear':\n            it = filter_by_meta(it, 'linear')\n",
           "        if lintype == 'linear':\n            it = filter_by_meta(it, 'linear', exclude=True)\n", 'C22.select'),
    Mutant('select-nonlinear-dropped', _D, "        elif lintype == 'nonlinear':\n            it = filter_by_meta(it, 'linear', exclude=True)\n",
           '', 'C22.select'),
    Mutant('select-filter-semantics', _D, "            elif tup[1][key]:\n                yield tup",
           "            elif not tup[1][key]:\n                yield tup", 'C22.select'),
    Mutant('select-filter-exclude-ignored', _D, "            if exclude:\n                if not tup[1][key]:\n                    yield tup\n"
           "            elif tup[1][key]:\n                yield tup",
           "            if tup[1][key]:\n                yield tup", 'C22.select'),
    Mutant('surface-not-recorded', _D, "            if self._exc_info is None:  # only record the first one\n"
           "                self._exc_info = sys.exc_info()\n            return np.zeros", "            return np.zeros", 'C22.surface'),
    Mutant('surface-recorded-on-wrong-branch', _D, "            if self._exc_info is None:  # only record the first one\n",
           "            if self._exc_info is not None:  # only record the first one\n", 'C22.surface'),
    Mutant('surface-prefix-reraise-before-lsq', _D, _CHK, '', 'C22.surface',
           also=[(_D, "        if iprint == 2:\n            print()\n",
                  "        if self._exc_info is not None:\n            self._reraise()\n\n        if iprint == 2:\n            print()\n")]),
    Mutant('surface-reraise-removed', _D, _CHK, '', 'C22.surface'),
    Mutant('surface-reraise-one-branch-only', _D, _CHK, '', 'C22.surface',
           also=[(_D, "                res = f_lsq()\n                self.result.success = res.success and res.cost <= loss_tol\n",
                  "                res = f_lsq()\n                self.result.success = res.success and res.cost <= loss_tol\n"
                  "                if self._exc_info is not None:\n                    self._reraise()\n")]),
    Twin('twin-reraise-right-after-each-run', _D, _CHK, '',
         also=[(_D, "                res = f_lsq()\n                self.result.success = res.success and res.cost <= loss_tol\n",
                "                res = f_lsq()\n                if self._exc_info is not None:\n                    self._reraise()\n"
                "                self.result.success = res.success and res.cost <= loss_tol\n"),
               (_D, "                    res = f_lsq()\n                    self.result.success = res.success and res.cost <= loss_tol\n",
                "                    res = f_lsq()\n                    if self._exc_info is not None:\n                        self._reraise()\n"
                "                    self.result.success = res.success and res.cost <= loss_tol\n")]),
    Mutant('result-seed-view-when-viol', _D, 'con_dict[name] = con_vec[name].copy()',
           'con_dict[name] = con_val if viol else con_vec[name].copy()', 'C22.result'),
    Mutant('result-view-in-branch', _D, _STORE,
           "            if viol:\n                con_dict[name] = con_val\n            else:\n                con_dict[name] = con_vec[name].copy()\n",
           'C22.result'),
    Twin('twin-np-array-of-view', _D, _STORE, "            val = con_vec[name]\n            con_dict[name] = np.array(val)\n"),
    Twin('twin-conditional-copies', _D, 'con_dict[name] = con_vec[name].copy()',
         'con_dict[name] = con_val.copy() if viol else con_vec[name].copy()'),
    Twin('twin-rows-all-swapped', _D, _CONCAT,
         "list(nl_con_viol_dict.values()) +\n                                   list(lin_con_viol_dict.values())",
         also=[(_D, 'chain(lincons.items(), nl_cons.items())', 'chain(nl_cons.items(), lincons.items())'),
               (_D, 'np.vstack((lin_con_grad, nl_con_grad))', 'np.vstack((nl_con_grad, lin_con_grad))')]),
    Mutant('lsq-abs-residual', _D, 'np.concatenate([v.ravel() for v in', 'np.concatenate([np.abs(v).ravel() for v in', 'C22.lsq'),
    Mutant('lsq-negated-residual', _D, 'np.concatenate([v.ravel() for v in', 'np.concatenate([-v.ravel() for v in', 'C22.lsq'),
    Twin('twin-residual-flatten', _D, 'np.concatenate([v.ravel() for v in', 'np.concatenate([np.ravel(v) for v in'),
    Twin('twin-copy-in-temporary', _D, _STORE, "            val = con_vec[name].copy()\n            con_dict[name] = val\n"),
    Twin('twin-view-full-slice', _D, "                con_val = con_vec[name]\n", "                con_val = con_vec[name][:]\n"),
    Twin('twin-scale-view-before-copy', _D, _STORE, _SCALE_IF + "                con_vec[name] *= meta['total_scaler']\n" + _STORE,
         also=[(_D, _SCALE_IF + _SCALE_ST, '')]),
    # ---- shapes accepted after the robustness round: extracted helper, hoisted flag, loop-built residual
    Twin('twin-extracted-helper', _D, _VIOL_BLOCK, _HELPER_CALL, also=[(_D, _NEXT_DEF, _helper_def(_EQ_IF + _ELSE) + _NEXT_DEF)]),
    Mutant('helper-prefix-F7', _D, _VIOL_BLOCK, _HELPER_CALL, 'C22.index',
           also=[(_D, _NEXT_DEF, _helper_def(_EQ_IF + _PREFIX_F7) + _NEXT_DEF)]),
    Mutant('helper-wrong-mask', _D, _VIOL_BLOCK, _HELPER_CALL, 'C22.pair',
           also=[(_D, _NEXT_DEF, _helper_def(_EQ_IF + _ELSE.replace('con_val < lower)', 'con_val < upper)')) + _NEXT_DEF)]),
    Mutant('helper-on-a-copy', _D, _VIOL_BLOCK, _HELPER_CALL.replace('con_vec[name], meta', 'con_vec[name].copy(), meta'), 'C22.result',
           also=[(_D, _NEXT_DEF, _helper_def(_EQ_IF + _ELSE) + _NEXT_DEF)]),
    Twin('twin-hoisted-scale-flag', _D, "        for name, meta in it:\n            if viol:\n",
         "        scale_viol = viol and driver_scaling\n\n        for name, meta in it:\n            if viol:\n",
         also=[(_D, _SCALE_IF, "            if scale_viol and meta['total_scaler'] is not None:\n")]),
    Mutant('hoisted-scale-flag-or', _D, "        for name, meta in it:\n            if viol:\n",
           "        scale_viol = viol or driver_scaling\n\n        for name, meta in it:\n            if viol:\n", 'C22.scale',
           also=[(_D, _SCALE_IF, "            if scale_viol and meta['total_scaler'] is not None:\n")]),
    Twin('twin-residual-append-loops', _D, _RETURN_CONCAT, _loop_residual('(lin_con_viol_dict, nl_con_viol_dict)', 'con_viol.ravel()')),
    Twin('twin-residual-extend', _D, _RETURN_CONCAT,
         "            flat = []\n            flat.extend(v.ravel() for v in lin_con_viol_dict.values())\n"
         "            flat.extend(v.ravel() for v in nl_con_viol_dict.values())\n            return np.concatenate(flat)\n"),
    Mutant('loop-residual-swapped', _D, _RETURN_CONCAT, _loop_residual('(nl_con_viol_dict, lin_con_viol_dict)', 'con_viol.ravel()'),
           'C22.rows'),
    Mutant('loop-residual-abs', _D, _RETURN_CONCAT, _loop_residual('(lin_con_viol_dict, nl_con_viol_dict)', 'abs(con_viol.ravel())'),
           'C22.lsq'),
    Mutant('loop-residual-skips', _D, _RETURN_CONCAT,
           _loop_residual('(lin_con_viol_dict, nl_con_viol_dict)', 'con_viol.ravel()').replace(
               "                    flat_viols.append(", "                    if con_viol.size > 1:\n                        flat_viols.append("),
           'C22.lsq'),
    # round-2 seed 2: one call in declaration order instead of linear-then-nonlinear (seeds 1 and 3 are the
    # mutants scale-declared-scaler and zero-strict-mask above)
    Mutant('rows-seed-single-call-declaration-order', _D, _LIN_CALL + "\n" + _NL_CALL + "\n" + _RETURN_CONCAT,
           "            con_viol_dict = self.get_constraint_values(driver_scaling=driver_scaling,\n"
           "                                                       viol=True)\n\n"
           "            return np.concatenate([v.ravel() for v in con_viol_dict.values()])\n", 'C22.rows'),
    # ---- second robustness round: static helper with swapped branches, comprehension-built calls, start/end offsets
    Twin('twin-static-helper-swapped', _D, _VIOL_BLOCK, _HELPER_CALL, also=[(_D, _NEXT_DEF, _static_helper() + _NEXT_DEF)]),
    Mutant('static-helper-wrong-mask', _D, _VIOL_BLOCK, _HELPER_CALL, 'C22.pair',
           also=[(_D, _NEXT_DEF, _static_helper().replace('con_val < lower)', 'con_val > lower)') + _NEXT_DEF)]),
    Mutant('static-helper-unindexed-bound', _D, _VIOL_BLOCK, _HELPER_CALL, 'C22.index',
           also=[(_D, _NEXT_DEF, _static_helper().replace('-= upper[above]', "-= meta['upper']") + _NEXT_DEF)]),
    Mutant('static-helper-strict-zero-mask', _D, _VIOL_BLOCK, _HELPER_CALL, 'C22.zero',
           also=[(_D, _NEXT_DEF, _static_helper().replace('(con_val >= lower) & (con_val <= upper)',
                                                          '(con_val > lower) & (con_val < upper)') + _NEXT_DEF)]),
    Twin('twin-residual-nested-comprehension', _D, _LIN_CALL + "\n" + _NL_CALL + "\n" + _RETURN_CONCAT,
         _comp_residual("('linear', 'nonlinear')")),
    Mutant('comp-residual-swapped-literals', _D, _LIN_CALL + "\n" + _NL_CALL + "\n" + _RETURN_CONCAT,
           _comp_residual("('nonlinear', 'linear')"), 'C22.rows'),
    Mutant('comp-residual-duplicate-literal', _D, _LIN_CALL + "\n" + _NL_CALL + "\n" + _RETURN_CONCAT,
           _comp_residual("('linear', 'linear')"), 'C22.lsq'),
    Mutant('comp-residual-no-viol', _D, _LIN_CALL + "\n" + _NL_CALL + "\n" + _RETURN_CONCAT,
           _comp_residual("('linear', 'nonlinear')").replace(', driver_scaling, True)', ', driver_scaling)'), 'C22.lsq'),
    Twin('twin-row-offset-start-end', _D, _ROWMAP,
         "        start = 0\n        for name, meta in chain(lincons.items(), nl_cons.items()):\n"
         "            end = start + (meta['global_size'] if meta['distributed'] else meta['size'])\n"
         "            con_row_map[name] = slice(start, end)\n            start = end\n"),
    Mutant('row-offset-start-not-advanced', _D, _ROWMAP,
           "        start = 0\n        for name, meta in chain(lincons.items(), nl_cons.items()):\n"
           "            end = start + (meta['global_size'] if meta['distributed'] else meta['size'])\n"
           "            con_row_map[name] = slice(start, end)\n", 'C22.rows'),
    # ---- fourth robustness round: early return in the helper, scaling on a temporary, constant-loop residual
    Twin('twin-helper-early-return', _D, _VIOL_BLOCK, _HELPER_CALL, also=[(_D, _NEXT_DEF, _early_return_helper() + _NEXT_DEF)]),
    Mutant('early-return-helper-wrong-mask', _D, _VIOL_BLOCK, _HELPER_CALL, 'C22.pair',
           also=[(_D, _NEXT_DEF, _early_return_helper().replace('vals > hi)', 'vals > lo)') + _NEXT_DEF)]),
    Mutant('early-return-helper-missing-return', _D, _VIOL_BLOCK, _HELPER_CALL, 'C22.pair',
           also=[(_D, _NEXT_DEF, _early_return_helper().replace('            return\n', '') + _NEXT_DEF)]),
    Twin('twin-scale-temporary', _D, _STORE + "\n" + _SCALE, _TEMP_SCALE),
    Mutant('scale-temporary-guard-no-flag', _D, _STORE + "\n" + _SCALE, _TEMP_SCALE.replace('if viol and driver_scaling:', 'if viol:'),
           'C22.scale'),
    Mutant('scale-temporary-adder', _D, _STORE + "\n" + _SCALE,
           _TEMP_SCALE.replace("val_copy *= meta['total_scaler']", "val_copy += meta['total_scaler']"), 'C22.scale'),
    Mutant('temporary-copied-too-early', _D, _STORE + "\n" + _SCALE, _TEMP_SCALE.replace("            val_copy = con_vec[name].copy()\n", ''),
           'C22.result', also=[(_D, "            if viol:\n                con_val = con_vec[name]\n",
                                "            val_copy = con_vec[name].copy()\n            if viol:\n                con_val = con_vec[name]\n")]),
    Twin('twin-residual-const-loop-extend', _D, _LIN_CALL + "\n" + _NL_CALL + "\n" + _RETURN_CONCAT,
         _const_loop_residual("('linear', 'nonlinear')")),
    Mutant('const-loop-residual-swapped', _D, _LIN_CALL + "\n" + _NL_CALL + "\n" + _RETURN_CONCAT,
           _const_loop_residual("('nonlinear', 'linear')"), 'C22.rows'),
    Mutant('const-loop-residual-conditional', _D, _LIN_CALL + "\n" + _NL_CALL + "\n" + _RETURN_CONCAT,
           _const_loop_residual("('linear', 'nonlinear')").replace(
               "                viol_arrays.extend(", "                if lintype == 'linear':\n                    viol_arrays.extend("),
           'C22.lsq'),
    Mutant('const-loop-residual-abs', _D, _LIN_CALL + "\n" + _NL_CALL + "\n" + _RETURN_CONCAT,
           _const_loop_residual("('linear', 'nonlinear')").replace('[v.ravel() for', '[np.abs(v.ravel()) for'), 'C22.lsq'),
    Twin('twin-select-positional', _D, "it = filter_by_meta(it, 'linear', exclude=True)", "it = filter_by_meta(it, 'linear', False, True)"),
)
