"""C23 -- DOE generators stay within bounds and cover their designs.

Anchors: drivers/doe_generators.py (UniformGenerator, _pyDOE_Generator and subclasses,
LatinHypercubeGenerator), the AnalysisDriver twins in drivers/sampling/, and
drivers/doe_driver.py (DOEDriver.run / _run_case / _parallel_generator).  Decided from the AST:

* C23.loopdef   per-element bound reads `meta['lower'][k]` never see a loop-carried rebinding
* C23.table     level table row = linspace over {lower, upper} of the same variable with the
                variable's own level count; one row per element (offset discipline)
* C23.index     case assembly: design column `off` selects from table row `off` (same offset),
                offset advances by the variable's size, is reset per case
* C23.levels    the level list handed to the design function is built with the same per-variable
                level function the table uses, repeated size times, in design-variable order
* C23.design    Plackett-Burman / Box-Behnken codings are mapped one-to-one onto 0..levels-1
* C23.lhs       Latin hypercube sample -> lower + s * (upper - lower) (polynomial identity), own
                design columns per variable
* C23.uniform   uniform draws are taken between the variable's own lower and upper
* C23.seed      seeded generators seed before the first draw / forward the seed to pydoe
* C23.apply     DOEDriver sets every (name, value) of a case before solving, re-raises failures
* C23.partition parallel case distribution is a partition consistent with the communicator split
"""
import ast
import re
from fractions import Fraction

from .. import astx, cfg as cfgm
from ..core import AnalysisError
from ..engine import rule, describe, selftest, Mutant, Twin

DG = 'openmdao/drivers/doe_generators.py'
SP = 'openmdao/drivers/sampling/pyDOE_generators.py'
SU = 'openmdao/drivers/sampling/uniform_generator.py'
DD = 'openmdao/drivers/doe_driver.py'

describe('C23',
         'Decides, for the DOE generators of DOEDriver and their AnalysisDriver twins: per-element bound '
         'reads are not loop-carried; the level table of the pyDOE generators is linspace over the '
         "variable's own lower/upper with the variable's own level count and one row per element; a case "
         'is assembled with the same offset into the design row and the level table, advancing by the '
         'variable size and reset per case; the level list given to fullfact/gsd uses the same level '
         'function; Plackett-Burman (-1/+1) and Box-Behnken (-1/0/+1) codings are mapped bijectively and '
         'monotonically onto 0..levels-1 (decided by evaluating the small coding expression on the code '
         'points); the Latin-hypercube map equals lower + s*(upper-lower) as a polynomial and uses its own '
         'design columns; uniform draws use the own bounds; seeding dominates the first draw under '
         '`seed is not None` / the seed is forwarded to pydoe; DOEDriver._run_case applies every (name, '
         'value) of the case before _run_solve_nonlinear and never swallows an assignment error; '
         'run() hands every generated case to _run_case; the MPI case filter is a partition.  Does not '
         'decide what pydoe returns (strata, orthogonality) nor floating-point rounding of linspace.',
         ['pydoe functions are opaque: fullfact(levels) enumerates the product, lhs(n, samples) is a '
          'Latin hypercube in [0,1], pbdesign yields -1/+1, bbdesign yields -1/0/+1',
          'design-variable metadata lower/upper are floats or flat arrays of the variable size'])


# =========================================================================== helpers
class Ctx:
    """CFG + reaching definitions of one function."""

    def __init__(self, fn):
        self.fn = fn
        self.g = cfgm.build(fn)
        self.rd = cfgm.ReachingDefs(self.g)

    def at(self, stmt):
        ns = self.g.nodes_of(stmt)
        if not ns:
            raise AnalysisError(f'{self.fn.ident}: statement not in CFG: {astx.src(stmt)}')
        return ns[0]

    def loops_of(self, node):
        """Enclosing For statements of an AST node, innermost first (within this function)."""
        out = []
        for a in astx.ancestors(node):
            if a is self.fn.node:
                break
            if isinstance(a, ast.For):
                out.append(a)
        return out


_CTX = {}


def ctx_of(fn):
    k = id(fn.node)
    c = _CTX.get(k)
    if c is None or c.fn is not fn:
        if len(_CTX) > 400:
            _CTX.clear()
        c = _CTX[k] = Ctx(fn)
    return c


def is_items_loop(st):
    """`for a, b in X.items():`"""
    return isinstance(st, ast.For) and isinstance(st.target, ast.Tuple) and len(st.target.elts) == 2 and \
        all(isinstance(e, ast.Name) for e in st.target.elts) and isinstance(st.iter, ast.Call) and \
        astx.callee_attr(st.iter) == 'items' and not st.iter.args


def is_range_loop(st):
    return isinstance(st, ast.For) and isinstance(st.target, ast.Name) and isinstance(st.iter, ast.Call) and \
        astx.call_name(st.iter) == 'range' and len(st.iter.args) == 1 and not st.iter.keywords


_NP = ('np', 'numpy')


def np_call(e, *names):
    """True if e is a call np.<name>(...) for one of names."""
    if not isinstance(e, ast.Call):
        return False
    cn = astx.call_name(e) or ''
    parts = cn.split('.')
    return len(parts) >= 2 and parts[0] in _NP and parts[-1] in names


CARRIED = 'carried'


class Bounds:
    """Resolve expressions to ('B', key, elem): bound `key` of the design variable of loop `dvloop`.

    elem: None (whole value) | ('var', name) | ('const', v) | ('expr', dump) | 'mixed'
    """

    def __init__(self, C, dvloop):
        self.C = C
        self.dv = dvloop
        self.meta = dvloop.target.elts[1].id
        self.key = dvloop.target.elts[0].id
        self.hdr = C.at(dvloop)
        self.carried = None   # (def node, name) of a loop-carried definition found during resolution

    def loop_var_ok(self, name, at):
        return self.C.rd.defs(at, name) == {self.hdr}

    def resolve(self, e, at, seen=()):
        C = self.C
        if isinstance(e, ast.Subscript):
            k = astx.const_str(e.slice)
            if isinstance(e.value, ast.Name) and e.value.id == self.meta and k in ('lower', 'upper'):
                if self.loop_var_ok(self.meta, at):
                    return ('B', k, None)
                return None
            base = self.resolve(e.value, at, seen)
            if base == CARRIED:
                return CARRIED
            if base and base[0] == 'B' and base[2] is None and not isinstance(e.slice, ast.Slice):
                s = e.slice
                if isinstance(s, ast.Name):
                    el = ('var', s.id)
                elif isinstance(s, ast.Constant):
                    el = ('const', s.value)
                else:
                    el = ('expr', astx.src(s))
                return ('B', base[1], el)
            return None
        if isinstance(e, ast.BinOp) and isinstance(e.op, ast.Mult):
            for a, b in ((e.left, e.right), (e.right, e.left)):
                if np_call(b, 'ones', 'ones_like'):
                    return self.resolve(a, at, seen)
            return None
        if isinstance(e, ast.Call):
            if np_call(e, 'full') and len(e.args) == 2:
                return self.resolve(e.args[1], at, seen)
            if np_call(e, 'asarray', 'atleast_1d', 'array', 'broadcast_to', 'ravel') and e.args:
                return self.resolve(e.args[0], at, seen)
            if astx.call_name(e) == 'float' and len(e.args) == 1:
                return self.resolve(e.args[0], at, seen)
            return None
        if isinstance(e, ast.Name):
            ds = C.rd.defs(at, e.id)
            if not ds:
                return None
            res = []
            for d in ds:
                if d in seen:
                    self.carried = (d, e.id)
                    return CARRIED
                if d.kind == 'stmt' and isinstance(d.ast, ast.Assign) and len(d.ast.targets) == 1 and \
                        isinstance(d.ast.targets[0], ast.Name):
                    r = self.resolve(d.ast.value, d, tuple(seen) + (d,))
                    if r == CARRIED:
                        return CARRIED
                    res.append(r)
                else:
                    res.append(None)
            if any(r is None for r in res):
                return None
            keys = {r[1] for r in res}
            if len(keys) != 1:
                return ('B', 'mixed', None)
            elems = {r[2] for r in res}
            elems.discard(None)
            if not elems:
                return ('B', keys.pop(), None)
            if len(elems) == 1:
                return ('B', keys.pop(), elems.pop())
            return ('B', keys.pop(), 'mixed')
        return None


def same_value(C, a, at_a, b, at_b):
    """True / False / None: do expressions a (at node at_a) and b (at at_b) denote the same value?"""
    if isinstance(a, ast.Name) and isinstance(b, ast.Name) and a.id == b.id:
        da, db = C.rd.defs(at_a, a.id), C.rd.defs(at_b, b.id)
        if da == db and da:
            return True
        if not da and not db:
            return True     # free variable / global in both places
        return None
    if isinstance(a, ast.Constant) and isinstance(b, ast.Constant):
        return a.value == b.value

    def expand(x, at):
        if isinstance(x, ast.Name):
            v = C.rd.value(at, x.id)
            if v is not None:
                d = next(iter(C.rd.defs(at, x.id)))
                return v, d
        return x, at
    a2, ata = expand(a, at_a)
    b2, atb = expand(b, at_b)
    if a2 is a and b2 is b:
        if astx.same(a, b):
            # same expression text: same value if every name in it has the same definitions
            for nm in astx.names(a):
                if C.rd.defs(at_a, nm) != C.rd.defs(at_b, nm):
                    return None
            return True
        if isinstance(a, ast.Constant) or isinstance(b, ast.Constant):
            return False
        return None
    return same_value(C, a2, ata, b2, atb)


def writes_to(C, name, within):
    """CFG nodes inside loop statement `within` that assign the local `name`."""
    out = []
    for n in C.g.body_nodes(within):
        if n.kind == 'stmt' and isinstance(n.ast, (ast.Assign, ast.AugAssign, ast.AnnAssign)):
            if any(astx.path(t) == name for t in astx.assigned_targets(n.ast)):
                out.append(n)
        elif n.kind in ('iter', 'with'):
            if any(astx.path(t) == name for t in astx.assigned_targets(n.ast)):
                out.append(n)
    return out


def split_offset(C, e, at):
    """`R` -> (R, None); `R + k` / `k + R` (k a range-loop variable) -> (R, k); else None."""
    if isinstance(e, ast.Name):
        return (e.id, None)
    if isinstance(e, ast.BinOp) and isinstance(e.op, ast.Add) and isinstance(e.left, ast.Name) and \
            isinstance(e.right, ast.Name):
        for acc, k in ((e.left.id, e.right.id), (e.right.id, e.left.id)):
            ds = C.rd.defs(at, k)
            if ds and all(d.kind == 'iter' and is_range_loop(d.ast) for d in ds):
                return (acc, k)
    return None


def check_offset(C, out, fn, acc, kname, use_stmt, dvloop, kloop, what, keyp):
    """Offset discipline of accumulator `acc` used (as `acc` or `acc + k`) in use_stmt.

    Returns True if everything is right (nothing reported), False if something was reported.
    """
    g = C.g
    dvh = C.at(dvloop)
    body = set(g.body_nodes(dvloop))
    ws = writes_to(C, acc, dvloop)
    incs = [n for n in ws if isinstance(n.ast, ast.AugAssign) and isinstance(n.ast.op, ast.Add)]
    other = [n for n in ws if n not in incs]
    if other:
        out.bad(fn, other[0].ast, f'{what}: the offset `{acc}` is overwritten inside the design-variable loop '
                f'(`{astx.src(other[0].ast)}`): following variables read the rows/columns of the wrong variable',
                key=f'{keyp}-offset-write')
        return False
    # reset: definitions flowing into the loop from outside are all `acc = 0`
    ext = set()
    for p, lab in g.pred[dvh]:
        if p in body:
            continue
        ext |= set(C.rd.out[p].get(acc, ()))
    if not ext:
        out.unsure(fn, dvloop, f'{what}: no definition of `{acc}` reaches the design-variable loop')
        return False
    for d in ext:
        okd = d.kind == 'stmt' and isinstance(d.ast, ast.Assign) and isinstance(d.ast.value, ast.Constant) and \
            d.ast.value.value == 0 and not isinstance(d.ast.value.value, bool)
        if not okd:
            if d in body or (d.kind == 'stmt' and isinstance(d.ast, ast.AugAssign)):
                out.bad(fn, d.ast, f'{what}: the offset `{acc}` is not reset to 0 before each pass over the design '
                        f'variables (the value left by `{astx.src(d.ast)}` flows into the next pass): every pass '
                        'after the first addresses rows/columns beyond its own', key=f'{keyp}-offset-reset')
            else:
                out.unsure(fn, d.ast, f'{what}: `{acc}` enters the loop from an unrecognised definition')
            return False
    use = C.at(use_stmt)
    if kname is None:
        # style A: one step of 1 per element, after the use
        if kloop is None:
            out.unsure(fn, use_stmt, f'{what}: plain offset `{acc}` used outside an element loop')
            return False
        kh = C.at(kloop)
        kbody = set(g.body_nodes(kloop))
        if not incs:
            out.bad(fn, use_stmt, f'{what}: the offset `{acc}` never advances: every element is written to / read '
                    'from the same row', key=f'{keyp}-offset-step')
            return False
        outside = [n for n in incs if n not in kbody]
        if outside:
            out.bad(fn, outside[0].ast, f'{what}: `{astx.src(outside[0].ast)}` advances the offset once per design '
                    f'variable, not once per element (`{astx.src(use_stmt)}` uses `{acc}` alone): elements k >= 1 '
                    'of an array variable use the row of element 0 / of the next variable', key=f'{keyp}-offset-step')
            return False
        for n in incs:
            v = n.ast.value
            if not (isinstance(v, ast.Constant) and v.value == 1):
                out.bad(fn, n.ast, f'{what}: the per-element offset advances by `{astx.src(v)}` instead of 1',
                        key=f'{keyp}-offset-step')
                return False
        entry = [m for m, lab in g.succ[kh] if lab == 'true']
        w = g.path(entry, [kh], avoid=incs, labels=cfgm.noexc)
        if w is not None:
            out.bad(fn, incs[0].ast, f'{what}: an element iteration can finish without advancing `{acc}`: ' +
                    g.fmt_path(w), key=f'{keyp}-offset-step')
            return False
        for n in incs:
            r = g.reach(g.normal_succ(n), avoid=[kh], labels=cfgm.noexc)
            if r & set(incs):
                out.bad(fn, n.ast, f'{what}: `{acc}` can advance twice for one element', key=f'{keyp}-offset-step')
                return False
            if use in r:
                out.bad(fn, n.ast, f'{what}: `{acc}` advances before it is used for the element: every row is '
                        'shifted by one', key=f'{keyp}-offset-step')
                return False
        return True
    # style B: acc + k, one step of <size> per design variable, after the element loop
    if kloop is None:
        out.unsure(fn, use_stmt, f'{what}: `{acc} + {kname}` used outside an element loop')
        return False
    kh = C.at(kloop)
    kbody = set(g.body_nodes(kloop))
    if not incs:
        out.bad(fn, use_stmt, f'{what}: the offset `{acc}` never advances: every design variable uses the '
                'rows/columns of the first one', key=f'{keyp}-offset-step')
        return False
    inside = [n for n in incs if n in kbody]
    if inside:
        out.bad(fn, inside[0].ast, f'{what}: `{acc}` advances inside the element loop although the index already '
                f'is `{acc} + {kname}`: rows are skipped', key=f'{keyp}-offset-step')
        return False
    size = kloop.iter.args[0]
    for n in incs:
        sv = same_value(C, n.ast.value, n, size, kh)
        if sv is False or (sv is None and isinstance(n.ast.value, ast.Constant)):
            out.bad(fn, n.ast, f'{what}: the offset advances by `{astx.src(n.ast.value)}` per design variable but '
                    f'the variable occupies `{astx.src(size)}` rows/columns: correct only for variables of that '
                    'size, array variables overlap with their successors', key=f'{keyp}-offset-step')
            return False
        if sv is None:
            out.unsure(fn, n.ast, f'{what}: cannot relate step `{astx.src(n.ast.value)}` to the element count '
                       f'`{astx.src(size)}`')
            return False
    entry = [m for m, lab in g.succ[dvh] if lab == 'true']
    w = g.path(entry, [dvh], avoid=incs, labels=cfgm.noexc)
    if w is not None:
        out.bad(fn, incs[0].ast, f'{what}: a design variable can be processed without advancing `{acc}`: ' +
                g.fmt_path(w), key=f'{keyp}-offset-step')
        return False
    for n in incs:
        r = g.reach(g.normal_succ(n), avoid=[dvh], labels=cfgm.noexc)
        if r & set(incs):
            out.bad(fn, n.ast, f'{what}: `{acc}` can advance twice for one design variable', key=f'{keyp}-offset-step')
            return False
        if kh in r or use in r:
            out.bad(fn, n.ast, f'{what}: `{acc}` advances before the elements of the variable are processed',
                    key=f'{keyp}-offset-step')
            return False
    return True


# =========================================================================== pyDOE generators
PYDOE = [(DG, '_pyDOE_Generator', '__call__'), (SP, '_pyDOE_AnalysisGenerator', '_setup')]
LEVEL_FUNCS = ('_get_dv_levels', '_get_levels')


class PyDoe:
    """Recognised parts of the pyDOE base generator method."""

    def __init__(self, repo, rel, cls, meth):
        self.rel, self.cls = rel, cls
        self.fn = repo.func(rel, f'{cls}.{meth}')
        self.C = ctx_of(self.fn)
        C = self.C
        # table statement: <V>[row, a:b] = np.linspace(...)
        tabs = []
        for st in astx.walk_stmts(self.fn.node.body):
            if isinstance(st, ast.Assign) and len(st.targets) == 1 and isinstance(st.targets[0], ast.Subscript):
                v = st.value
                call = v if np_call(v, 'linspace') else None
                if call is None and isinstance(v, ast.Name):
                    vv = C.rd.value(C.at(st), v.id)
                    if np_call(vv, 'linspace'):
                        call = vv
                if call is not None:
                    tabs.append((st, call))
        if len(tabs) != 1:
            raise AnalysisError(f'{self.fn.ident}: expected exactly one level-table store from np.linspace, '
                                f'found {len(tabs)}')
        self.tab, self.lin = tabs[0]
        tgt = self.tab.targets[0]
        if not isinstance(tgt.value, ast.Name):
            raise AnalysisError(f'{self.fn.ident}: level table target not recognised')
        self.V = tgt.value.id
        loops = C.loops_of(self.tab)
        self.t_k = next((l for l in loops if is_range_loop(l)), None)
        self.t_dv = next((l for l in loops if is_items_loop(l)), None)
        if self.t_dv is None:
            raise AnalysisError(f'{self.fn.ident}: level table is not filled inside a loop over the design variables')
        # index statement(s): X[k] = V[off][idx] / V[off, idx]
        self.reads = []
        for st in astx.walk_stmts(self.fn.node.body):
            if isinstance(st, ast.Assign) and st is not self.tab:
                r = self._table_read(st.value)
                if r is not None:
                    self.reads.append((st,) + r)

    def _table_read(self, e):
        """V[off][idx] or V[off, idx] -> (off_expr, idx_expr)."""
        if not isinstance(e, ast.Subscript):
            return None
        if isinstance(e.value, ast.Name) and e.value.id == self.V:
            if isinstance(e.slice, ast.Tuple) and len(e.slice.elts) == 2:
                return (e.slice.elts[0], e.slice.elts[1])
            return None
        if isinstance(e.value, ast.Subscript) and isinstance(e.value.value, ast.Name) and \
                e.value.value.id == self.V and not isinstance(e.value.slice, (ast.Tuple, ast.Slice)):
            return (e.value.slice, e.slice)
        return None


def pydoes(repo):
    return [PyDoe(repo, rel, cls, meth) for rel, cls, meth in PYDOE]


@rule('C23.loopdef', floor=4)
def loopdef(repo, out):
    """Per-element bounds of the level table are re-read from meta for every element (no loop-carried `lower = lower[k]`)."""
    for P in pydoes(repo):
        C = P.C
        B = Bounds(C, P.t_dv)
        at = C.at(P.tab)
        ops = list(P.lin.args[:2])
        for nm in ('start', 'stop'):
            if astx.kwarg(P.lin, nm) is not None:
                ops.append(astx.kwarg(P.lin, nm))
        if len(ops) != 2:
            out.unsure(P.fn, P.tab, 'linspace endpoints not recognised')
            continue
        lin_at = at
        if P.lin is not P.tab.value:
            lin_at = next(iter(C.rd.defs(at, P.tab.value.id)))
        for e in ops:
            B.carried = None
            r = B.resolve(e, lin_at)
            if r == CARRIED:
                d, nm = B.carried
                kv = P.t_k.target.id if P.t_k is not None else '?'
                out.bad(P.fn, d.ast, f'`{astx.src(d.ast)}` rebinds the bound array `{nm}` to one of its elements and '
                        f'that value is carried into the next iteration of `for {kv}`: from the second element on '
                        f'the array test fails and element 0\'s bound is used for every element of the variable '
                        '(generated values leave the bounds of elements >= 1)', key=f'loop-carried-{nm}')
            elif r is None:
                out.unsure(P.fn, P.tab, f'linspace endpoint `{astx.src(e)}` does not resolve to a bound of the '
                           'design variable')
            else:
                out.ok(P.fn, P.tab, f'`{astx.src(e)}` is re-read from {B.meta}[{r[1]!r}] for every element')


@rule('C23.table', floor=2)
def table(repo, out):
    """Level table: row per element = linspace between the variable's own lower and upper with its own level count."""
    for P in pydoes(repo):
        C = P.C
        B = Bounds(C, P.t_dv)
        at = C.at(P.tab)
        lin_at = at if P.lin is P.tab.value else next(iter(C.rd.defs(at, P.tab.value.id)))
        lin = P.lin
        extra = [k.arg for k in lin.keywords if k.arg not in ('start', 'stop', 'num')]
        lo = astx.arg(lin, 0, 'start')
        hi = astx.arg(lin, 1, 'stop')
        num = astx.arg(lin, 2, 'num')
        if extra or lo is None or hi is None or num is None:
            out.unsure(P.fn, P.tab, f'linspace call shape not recognised (extra={extra})')
            continue
        r1, r2 = B.resolve(lo, lin_at), B.resolve(hi, lin_at)
        if r1 == CARRIED or r2 == CARRIED:
            continue   # reported by C23.loopdef
        if r1 is None or r2 is None:
            out.unsure(P.fn, P.tab, 'linspace endpoints do not resolve to bounds of the design variable')
            continue
        bad = False
        if {r1[1], r2[1]} != {'lower', 'upper'}:
            out.bad(P.fn, P.tab, f'level table spans {B.meta}[{r1[1]!r}] .. {B.meta}[{r2[1]!r}] instead of lower .. upper: '
                    'the levels do not cover the range of the variable (all levels coincide or leave the bounds)',
                    key='table-endpoints')
            bad = True
        kv = P.t_k.target.id if P.t_k is not None else None
        for r, e in ((r1, lo), (r2, hi)):
            el = r[2]
            if el is None:
                if P.t_k is None:
                    continue
                out.bad(P.fn, P.tab, f'`{astx.src(e)}` is never indexed by the element `{kv}`: array bounds are '
                        'written into a single row', key='table-element')
                bad = True
            elif el == 'mixed' or el[0] == 'expr':
                out.unsure(P.fn, P.tab, f'element index of `{astx.src(e)}` not recognised')
                bad = True
            elif el != ('var', kv):
                out.bad(P.fn, P.tab, f'bound `{astx.src(e)}` of element `{kv}` is read at index {el[1]!r}: the levels of '
                        'this element are computed from the bounds of another element', key='table-element')
                bad = True
        if bad:
            continue
        # level count
        def level_role(e, at_):
            if isinstance(e, ast.Name):
                v = C.rd.value(at_, e.id)
                if v is None:
                    return None, e
                d = next(iter(C.rd.defs(at_, e.id)))
                return level_role(v, d)
            if isinstance(e, ast.Call) and astx.callee_attr(e) in LEVEL_FUNCS and \
                    astx.path(astx.receiver(e)) == 'self' and len(e.args) == 1 and not e.keywords:
                a = e.args[0]
                if isinstance(a, ast.Name) and a.id == B.key and B.loop_var_ok(a.id, at_):
                    return ('dv', astx.callee_attr(e)), e
                return ('other-arg', astx.src(a)), e
            if isinstance(e, ast.Constant):
                return ('const', e.value), e
            if astx.path(e) == 'self._levels':
                return ('all', None), e
            if isinstance(e, (ast.IfExp, ast.Call)) and astx.mentions(e, 'max'):
                return ('max', None), e
            return None, e
        role, src_e = level_role(num, lin_at)
        if role is None:
            out.unsure(P.fn, P.tab, f'level count `{astx.src(num)}` not recognised')
            continue
        if role[0] != 'dv':
            out.bad(P.fn, P.tab, f'the number of levels of the table row is `{astx.src(src_e)}`, not the level count '
                    f'of this design variable (self.{LEVEL_FUNCS[0]}({B.key})): the design indexes levels that the '
                    'table does not hold (NaN values) or the requested levels are not the ones enumerated',
                    key='table-levels')
            continue
        # target: V[off, lo:hi] with hi the same level count
        tgt = P.tab.targets[0]
        sl = tgt.slice
        if not (isinstance(sl, ast.Tuple) and len(sl.elts) == 2 and isinstance(sl.elts[1], ast.Slice)):
            out.unsure(P.fn, P.tab, 'level table target is not `values[row, 0:levels]`')
            continue
        off_e, cols = sl.elts
        lo_ok = cols.lower is None or (isinstance(cols.lower, ast.Constant) and cols.lower.value == 0)
        if not lo_ok or cols.step is not None or cols.upper is None:
            out.unsure(P.fn, P.tab, 'column slice of the level table not recognised')
            continue
        urole, _ = level_role(cols.upper, at)
        if urole != role:
            if urole is None:
                out.unsure(P.fn, P.tab, f'column bound `{astx.src(cols.upper)}` not recognised')
            else:
                out.bad(P.fn, P.tab, f'the row stores `{astx.src(cols.upper)}` columns but linspace produces '
                        f'`{astx.src(num)}` levels', key='table-levels')
            continue
        so = split_offset(C, off_e, at)
        if so is None:
            out.unsure(P.fn, P.tab, f'row index `{astx.src(off_e)}` not recognised')
            continue
        acc, kname = so
        if kname is not None and (P.t_k is None or kname != P.t_k.target.id):
            out.unsure(P.fn, P.tab, f'row index `{astx.src(off_e)}` uses a loop variable of another loop')
            continue
        if not check_offset(C, out, P.fn, acc, kname, P.tab, P.t_dv, P.t_k, 'level table', 'table'):
            continue
        # element loop covers the size of the variable: range(S), S a size of this variable
        out.ok(P.fn, P.tab, f'row `{astx.src(off_e)}` <- linspace({B.meta}[lower][{kv}], {B.meta}[upper][{kv}], '
               f'self.{role[1]}({B.key})); one row per element')


@rule('C23.index', floor=2)
def index(repo, out):
    """Case assembly: element value = table[off][design[off]] with one offset, advancing by the variable size, reset per case."""
    for P in pydoes(repo):
        C = P.C
        g = C.g
        if not P.reads:
            raise AnalysisError(f'{P.fn.ident}: no read of the level table `{P.V}` found')
        for st, off_e, idx_e in P.reads:
            at = C.at(st)
            loops = C.loops_of(st)
            kloop = next((l for l in loops if is_range_loop(l)), None)
            dvloop = next((l for l in loops if is_items_loop(l)), None)
            caseloop = None
            if dvloop is not None:
                outer = C.loops_of(dvloop)
                caseloop = outer[0] if outer else None
            if dvloop is None or caseloop is None or kloop is None:
                out.unsure(P.fn, st, 'table read is not inside case / design-variable / element loops')
                continue
            so = split_offset(C, off_e, at)
            if so is None:
                # a recognisable wrong shape: the bare element variable
                out.unsure(P.fn, st, f'table row index `{astx.src(off_e)}` not recognised')
                continue
            acc, kname = so
            kv = kloop.target.id
            if kname is None and acc == kv:
                out.bad(P.fn, st, f'the level table is read at row `{kv}` (element number within the variable) instead '
                        f'of the global row offset: every variable after the first takes the levels, i.e. the bounds, '
                        'of the first variable', key='index-table-row')
                continue
            # the design index
            idx_src, idx_at = idx_e, at
            if isinstance(idx_e, ast.Name):
                v = C.rd.value(at, idx_e.id)
                if v is None:
                    out.unsure(P.fn, st, f'design index `{astx.src(idx_e)}` has no unique definition')
                    continue
                idx_src, idx_at = v, next(iter(C.rd.defs(at, idx_e.id)))
            if not (isinstance(idx_src, ast.Subscript) and isinstance(idx_src.value, ast.Name) and
                    isinstance(caseloop.target, ast.Name) and idx_src.value.id == caseloop.target.id and
                    C.rd.defs(idx_at, idx_src.value.id) == {C.at(caseloop)}):
                out.unsure(P.fn, st, f'design index `{astx.src(idx_src)}` is not an element of the design row')
                continue
            so2 = split_offset(C, idx_src.slice, idx_at)
            if so2 is None:
                out.unsure(P.fn, st, f'design column `{astx.src(idx_src.slice)}` not recognised')
                continue
            if so2 == (kv, None) or (so2[1] is None and so2[0] == kv):
                out.bad(P.fn, astx.stmt_of(idx_src), f'the design row is read at column `{kv}` (element number within '
                        'the variable) instead of the global offset: every variable takes the level indices of the '
                        'first factors, the factors of later variables are never varied', key='index-design-column')
                continue
            if so2 != so:
                out.bad(P.fn, st, f'level table row `{astx.src(off_e)}` and design column `{astx.src(idx_src.slice)}` '
                        'differ: the level index of one factor selects from the levels of another',
                        key='index-offset-mismatch')
                continue
            if kname is not None and kname != kv:
                out.unsure(P.fn, st, 'offset uses the variable of another element loop')
                continue
            # the case loop iterates the integer design
            if not check_offset(C, out, P.fn, acc, kname, st, dvloop, kloop, 'case assembly', 'index'):
                continue
            # the store goes to element k of the value
            tgt = st.targets[0] if len(st.targets) == 1 else None
            if not (isinstance(tgt, ast.Subscript) and isinstance(tgt.slice, ast.Name)):
                out.unsure(P.fn, st, 'store target of the element value not recognised')
                continue
            if tgt.slice.id != kv:
                out.bad(P.fn, st, f'the value of element `{kv}` is stored at `{astx.src(tgt)}`', key='index-store')
                continue
            out.ok(P.fn, st, f'{astx.src(tgt)} = {P.V}[{astx.src(off_e)}][design[{astx.src(off_e)}]]; offset `{acc}` '
                   'advances by the variable size and is reset for every case')


# --------------------------------------------------------------------------- level list for the design
@rule('C23.levels', floor=4)
def levels(repo, out):
    """The level list given to fullfact/gsd repeats each variable's own level count `size` times, in variable order."""
    for P in pydoes(repo):
        C = P.C
        # which level function does the table use?
        num = astx.arg(P.lin, 2, 'num')
        tab_at = C.at(P.tab)
        lin_at = tab_at if P.lin is P.tab.value else next(iter(C.rd.defs(tab_at, P.tab.value.id)))
        e = num
        if isinstance(e, ast.Name):
            e = C.rd.value(lin_at, e.id)
        tab_func = astx.callee_attr(e) if isinstance(e, ast.Call) else None
        if tab_func not in LEVEL_FUNCS:
            out.unsure(P.fn, P.tab, 'level function of the table not recognised (see C23.table)')
            continue
        fa = repo.func(P.rel, f'{P.cls}._get_all_levels')
        CA = ctx_of(fa)
        rets = [st for st in astx.walk_stmts(fa.node.body) if isinstance(st, ast.Return) and st.value is not None]
        if not rets:
            raise AnalysisError(f'{fa.ident}: no return')
        for rt in rets:
            at = CA.at(rt)
            v = rt.value
            if isinstance(v, ast.Name):
                v = CA.rd.value(at, v.id) or v

            def sizes_path(x, at_):
                p = astx.path(x)
                if p == 'self._sizes':
                    return True
                if isinstance(x, ast.Name):
                    vv = CA.rd.value(at_, x.id)
                    return vv is not None and astx.path(vv) == 'self._sizes'
                return False
            # int form: [self._levels] * sum(<sizes>.values())
            if isinstance(v, ast.BinOp) and isinstance(v.op, ast.Mult):
                lst, cnt = (v.left, v.right) if isinstance(v.left, ast.List) else (v.right, v.left)
                if isinstance(lst, ast.List) and len(lst.elts) == 1:
                    lv = lst.elts[0]
                    lv_ok = astx.path(lv) == 'self._levels' or \
                        (isinstance(lv, ast.Name) and astx.path(CA.rd.value(at, lv.id) or lv) == 'self._levels')
                    cnt_ok = isinstance(cnt, ast.Call) and astx.call_name(cnt) == 'sum' and len(cnt.args) == 1 and \
                        isinstance(cnt.args[0], ast.Call) and astx.callee_attr(cnt.args[0]) == 'values' and \
                        sizes_path(astx.receiver(cnt.args[0]), at)
                    if isinstance(cnt, ast.Name) and not cnt_ok:
                        out.unsure(fa, rt, f'factor count `{astx.src(cnt)}` not recognised')
                        continue
                    if not lv_ok:
                        if isinstance(lv, ast.Constant) or astx.path(lv) in ('_LEVELS',):
                            out.bad(fa, rt, f'the uniform level list uses `{astx.src(lv)}` instead of self._levels: the '
                                    'design enumerates other levels than the table holds', key='levels-uniform')
                        else:
                            out.unsure(fa, rt, f'level entry `{astx.src(lv)}` not recognised')
                        continue
                    if not cnt_ok:
                        if isinstance(cnt, ast.Call) and astx.call_name(cnt) == 'len':
                            out.bad(fa, rt, f'the level list has `{astx.src(cnt)}` entries (one per variable) instead of '
                                    'one per element: array variables get fewer factors than elements',
                                    key='levels-count')
                        else:
                            out.unsure(fa, rt, f'factor count `{astx.src(cnt)}` not recognised')
                        continue
                    out.ok(fa, rt, 'uniform levels: self._levels repeated once per element of every variable')
                    continue
            # dict form: sum([v * [f(k)] for k, v in sizes.items()], [])
            comp = None
            if isinstance(v, ast.Call) and astx.call_name(v) == 'sum' and len(v.args) == 2 and \
                    isinstance(v.args[1], ast.List) and not v.args[1].elts and \
                    isinstance(v.args[0], (ast.ListComp, ast.GeneratorExp)):
                comp = v.args[0]
            if comp is None:
                out.unsure(fa, rt, f'level list expression not recognised: {astx.src(v)}')
                continue
            if len(comp.generators) != 1 or comp.generators[0].ifs:
                if comp.generators and comp.generators[0].ifs:
                    out.bad(fa, rt, 'the level list skips variables by a filter: the design has fewer factors than '
                            'the table has rows', key='levels-count')
                else:
                    out.unsure(fa, rt, 'comprehension shape not recognised')
                continue
            gen = comp.generators[0]
            if not (isinstance(gen.target, ast.Tuple) and len(gen.target.elts) == 2 and
                    all(isinstance(x, ast.Name) for x in gen.target.elts) and isinstance(gen.iter, ast.Call) and
                    astx.callee_attr(gen.iter) == 'items' and sizes_path(astx.receiver(gen.iter), at)):
                out.unsure(fa, rt, f'level list does not iterate self._sizes.items(): {astx.src(gen.iter)}')
                continue
            kn, vn = gen.target.elts[0].id, gen.target.elts[1].id
            elt = comp.elt
            if not (isinstance(elt, ast.BinOp) and isinstance(elt.op, ast.Mult)):
                if isinstance(elt, ast.List) and len(elt.elts) == 1:
                    out.bad(fa, rt, f'each variable contributes one factor (`{astx.src(elt)}`) instead of one per '
                            'element: array variables get fewer design columns than elements', key='levels-count')
                else:
                    out.unsure(fa, rt, f'element `{astx.src(elt)}` not recognised')
                continue
            lst, cnt = (elt.left, elt.right) if isinstance(elt.left, ast.List) else (elt.right, elt.left)
            if not (isinstance(lst, ast.List) and len(lst.elts) == 1):
                out.unsure(fa, rt, f'element `{astx.src(elt)}` not recognised')
                continue
            if not (isinstance(cnt, ast.Name) and cnt.id == vn):
                if isinstance(cnt, ast.Constant) or (isinstance(cnt, ast.Name) and cnt.id == kn):
                    out.bad(fa, rt, f'the level of a variable is repeated `{astx.src(cnt)}` times instead of its size '
                            f'`{vn}`', key='levels-count')
                else:
                    out.unsure(fa, rt, f'repeat count `{astx.src(cnt)}` not recognised')
                continue
            lv = lst.elts[0]
            if isinstance(lv, ast.Call) and astx.path(astx.receiver(lv)) == 'self' and \
                    astx.callee_attr(lv) in LEVEL_FUNCS and len(lv.args) == 1 and isinstance(lv.args[0], ast.Name):
                if lv.args[0].id != kn:
                    out.bad(fa, rt, f'the level count is looked up for `{lv.args[0].id}` instead of the variable name '
                            f'`{kn}`', key='levels-per-dv')
                elif astx.callee_attr(lv) != tab_func:
                    out.bad(fa, rt, f'design uses {astx.callee_attr(lv)} but the table uses {tab_func}',
                            key='levels-per-dv')
                else:
                    out.ok(fa, rt, f'per-variable levels: self.{tab_func}({kn}) repeated {vn} (= size) times, the same '
                           'function the level table uses')
                continue
            if isinstance(lv, ast.Call) and astx.callee_attr(lv) == 'get' or isinstance(lv, (ast.Subscript, ast.Constant)) \
                    or astx.path(lv) in ('self._levels', '_LEVELS'):
                out.bad(fa, rt, f'the design takes the level count of a variable from `{astx.src(lv)}` while the level '
                        f'table takes it from self.{tab_func}(name): when the two differ (e.g. a "default" entry) the '
                        'design does not enumerate the requested levels / selects NaN table entries',
                        key='levels-per-dv')
                continue
            out.unsure(fa, rt, f'level entry `{astx.src(lv)}` not recognised')
        # the per-variable level function itself: int -> the int; dict -> get(name, get('default', _LEVELS))
        # (opaque here: both sites call the same function, which is what the property needs)


# --------------------------------------------------------------------------- design codings (PB / BB)
class _NoEval(Exception):
    pass


def _vec(x, n):
    return x if isinstance(x, list) else [x] * n


def _ev(e, env, n):
    """Elementwise evaluation of a small numpy expression on a list of n sample values."""
    if isinstance(e, ast.Constant) and isinstance(e.value, (int, float)) and not isinstance(e.value, bool):
        return e.value
    if isinstance(e, ast.Constant) and e.value is None:
        return None
    if isinstance(e, ast.Name):
        if e.id in env:
            return env[e.id]
        raise _NoEval(astx.src(e))
    if isinstance(e, ast.UnaryOp) and isinstance(e.op, (ast.USub, ast.Invert, ast.Not)):
        v = _vec(_ev(e.operand, env, n), n)
        if isinstance(e.op, ast.USub):
            return [-x for x in v]
        return [not x for x in v]
    if isinstance(e, ast.BinOp):
        a, b = _vec(_ev(e.left, env, n), n), _vec(_ev(e.right, env, n), n)
        ops = {ast.Add: lambda x, y: x + y, ast.Sub: lambda x, y: x - y, ast.Mult: lambda x, y: x * y,
               ast.FloorDiv: lambda x, y: x // y, ast.Div: lambda x, y: Fraction(x) / Fraction(y),
               ast.Mod: lambda x, y: x % y, ast.BitAnd: lambda x, y: x and y, ast.BitOr: lambda x, y: x or y}
        f = ops.get(type(e.op))
        if f is None:
            raise _NoEval(astx.src(e))
        try:
            return [f(x, y) for x, y in zip(a, b)]
        except ZeroDivisionError:
            raise _NoEval(astx.src(e))
    if isinstance(e, ast.Compare) and len(e.ops) == 1:
        a, b = _vec(_ev(e.left, env, n), n), _vec(_ev(e.comparators[0], env, n), n)
        ops = {ast.Lt: lambda x, y: x < y, ast.LtE: lambda x, y: x <= y, ast.Gt: lambda x, y: x > y,
               ast.GtE: lambda x, y: x >= y, ast.Eq: lambda x, y: x == y, ast.NotEq: lambda x, y: x != y}
        f = ops.get(type(e.ops[0]))
        if f is None:
            raise _NoEval(astx.src(e))
        return [f(x, y) for x, y in zip(a, b)]
    if isinstance(e, ast.Call):
        if np_call(e, 'maximum', 'minimum') and len(e.args) == 2:
            a, b = _vec(_ev(e.args[0], env, n), n), _vec(_ev(e.args[1], env, n), n)
            f = max if astx.callee_attr(e) == 'maximum' else min
            return [f(x, y) for x, y in zip(a, b)]
        if np_call(e, 'where') and len(e.args) == 3:
            c, a, b = (_vec(_ev(x, env, n), n) for x in e.args)
            return [x if t else y for t, x, y in zip(c, a, b)]
        if np_call(e, 'clip') and len(e.args) == 3:
            a = _vec(_ev(e.args[0], env, n), n)
            lo, hi = _ev(e.args[1], env, n), _ev(e.args[2], env, n)
            if isinstance(lo, list) or isinstance(hi, list):
                raise _NoEval(astx.src(e))
            return [x if (lo is None or x >= lo) and (hi is None or x <= hi) else (lo if lo is not None and x < lo else hi)
                    for x in a]
        if (np_call(e, 'abs', 'absolute') or astx.call_name(e) == 'abs') and len(e.args) == 1:
            return [abs(x) for x in _vec(_ev(e.args[0], env, n), n)]
        if isinstance(e.func, ast.Attribute) and e.func.attr in ('astype', 'copy'):
            v = _vec(_ev(e.func.value, env, n), n)
            if e.func.attr == 'astype':
                a0 = e.args[0] if e.args else None
                nm = astx.const_str(a0) or astx.path(a0) or ''
                if 'int' in nm:
                    return [int(x) for x in v]
                raise _NoEval(astx.src(e))
            return list(v)
    raise _NoEval(astx.src(e))


CODED = [
    # (file, class, pydoe attribute, code points)
    (DG, 'PlackettBurmanGenerator', '_pbdesign', (-1, 1)),
    (DG, 'BoxBehnkenGenerator', '_bbdesign', (-1, 0, 1)),
    (SP, 'PlackettBurmanGenerator', '_pbdesign', (-1, 1)),
    (SP, 'BoxBehnkenGenerator', '_bbdesign', (-1, 0, 1)),
]


def ctor_levels(repo, rel, cls):
    f = repo.func(rel, f'{cls}.__init__')
    for c in astx.calls(f.node):
        if astx.callee_attr(c) == '__init__' and isinstance(c.func.value, ast.Call) and \
                astx.call_name(c.func.value) == 'super':
            lv = astx.kwarg(c, 'levels')
            if lv is None:
                return f, c, None
            return f, c, lv
    raise AnalysisError(f'{f.ident}: no super().__init__ call')


@rule('C23.design', floor=4)
def design(repo, out):
    """Plackett-Burman / Box-Behnken code points are mapped monotonically and one-to-one onto level indices 0..levels-1."""
    for rel, cls, attr, pts in CODED:
        fn = repo.func(rel, f'{cls}._generate_design')
        fi, call, lv = ctor_levels(repo, rel, cls)
        if not (isinstance(lv, ast.Constant) and isinstance(lv.value, int)):
            out.unsure(fi, call, 'levels passed to the base class is not an integer literal')
            continue
        nlev = lv.value
        n = len(pts)
        env = {}
        result = None
        try:
            for st in astx.strip_doc(fn.node.body):
                if isinstance(st, ast.If):
                    # argument validation: `if size < 3: raise ...`
                    if all(isinstance(s, ast.Raise) for s in st.body) and not st.orelse and \
                            not (astx.names(st.test) & set(env)):
                        continue
                    raise _NoEval(astx.src(st))
                if isinstance(st, ast.Assign) and len(st.targets) == 1:
                    t, v = st.targets[0], st.value
                    if isinstance(t, ast.Name):
                        if isinstance(v, ast.Call) and astx.path(v.func) == f'self.{attr}':
                            env[t.id] = list(pts)
                        else:
                            val = _ev(v, env, n)
                            if isinstance(val, list):
                                env[t.id] = val
                            else:
                                raise _NoEval(astx.src(st))
                        continue
                    if isinstance(t, ast.Subscript) and isinstance(t.value, ast.Name) and t.value.id in env:
                        mask = _vec(_ev(t.slice, env, n), n)
                        val = _vec(_ev(v, env, n), n)
                        if not all(isinstance(m, bool) for m in mask):
                            raise _NoEval(astx.src(st))
                        env[t.value.id] = [x if m else o for m, x, o in zip(mask, val, env[t.value.id])]
                        continue
                    raise _NoEval(astx.src(st))
                if isinstance(st, ast.AugAssign) and isinstance(st.target, ast.Name) and st.target.id in env:
                    env[st.target.id] = _vec(_ev(ast.BinOp(left=st.target, op=st.op, right=st.value), env, n), n)
                    continue
                if isinstance(st, ast.Return) and st.value is not None:
                    if isinstance(st.value, ast.Call) and astx.path(st.value.func) == f'self.{attr}':
                        result = list(pts)
                    else:
                        result = _vec(_ev(st.value, env, n), n)
                    break
                raise _NoEval(astx.src(st))
        except _NoEval as ex:
            out.unsure(fn, fn.node, f'coding of the {attr[1:]} design not evaluable: {ex}')
            continue
        if result is None:
            out.unsure(fn, fn.node, 'no return value found')
            continue
        # the caller converts with .astype('int')
        img = []
        okint = True
        for x in result:
            if isinstance(x, bool):
                x = int(x)
            if isinstance(x, Fraction):
                if x.denominator != 1:
                    okint = False
                x = int(x)
            img.append(x)
        mp = ', '.join(f'{p:+d}->{i}' for p, i in zip(pts, img))
        want = list(range(nlev))
        if not okint or any(i < 0 or i >= nlev for i in img):
            out.bad(fn, fn.node, f'design codes are mapped {mp} but the level table of this generator has the indices '
                    f'0..{nlev - 1} (levels={nlev}): an index outside that range wraps around to / selects another '
                    'level (or a NaN column), so distinct design codes share a level and the design is not covered',
                    key='design-coding')
        elif sorted(img) != want:
            out.bad(fn, fn.node, f'design codes are mapped {mp}; with levels={nlev} the indices {want} must each be hit '
                    'exactly once (some level is never used or two codes coincide)', key='design-coding')
        elif img != want and img != want[::-1]:
            out.bad(fn, fn.node, f'design codes are mapped {mp}: not monotone, the centre code does not select the '
                    'middle level', key='design-coding')
        else:
            out.ok(fn, fn.node, f'{attr[1:]} codes {mp} cover the level indices 0..{nlev - 1} (levels={nlev})')
