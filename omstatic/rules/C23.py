"""C23 -- DOE generators stay within bounds and cover their designs.

Anchors: drivers/doe_generators.py (UniformGenerator, _pyDOE_Generator and subclasses,
LatinHypercubeGenerator), the AnalysisDriver twins in drivers/sampling/, and
drivers/doe_driver.py (DOEDriver.run / _run_case / _parallel_generator).  Decided from the AST:

* C23.loopdef   per-element bound reads `meta['lower'][k]` never see a loop-carried rebinding
* C23.table     level table row = linspace over {lower, upper} of the same variable with the
                variable's own level count; one row per element (offset discipline)
* C23.index     case assembly: design column `off` selects from table row `off` (same offset),
                offset advances by the variable's size, is reset per case
* C23.dvlevels  level lookup of a variable: int for all; dict -> [name], else ['default'], else default
* C23.levels    the level list handed to the design function is built with the same per-variable
                level function the table uses, repeated size times, in design-variable order
* C23.order     sizes, level list, level-table rows and case assembly iterate the variables in one order
* C23.design    Plackett-Burman / Box-Behnken codings are mapped one-to-one onto 0..levels-1
* C23.lhs       Latin hypercube sample -> lower + s * (upper - lower) (polynomial identity), own
                design columns per variable
* C23.uniform   uniform draws are taken between the variable's own lower and upper
* C23.seed      seeded generators seed before the first draw / forward the seed to pydoe
* C23.apply     DOEDriver sets every (name, value) of a case before solving, re-raises failures
* C23.units     Driver._set_design_var converts from design-variable units to source units
* C23.slots     sample dictionaries of the AnalysisDriver twins: units/indices slots agree with set_val
* C23.partition parallel case distribution is a partition consistent with the communicator split
"""
import ast
import re
from fractions import Fraction

from .. import astx, cfg as cfgm
from ..core import AnalysisError
from ..engine import rule, describe, selftest, Mutant, Twin

DG = 'openmdao/drivers/doe_generators.py'
SP = 'openmdao/drivers/sampling/pyDOE_generators.py'
SU = 'openmdao/drivers/sampling/uniform_generator.py'
DD = 'openmdao/drivers/doe_driver.py'

describe('C23',
         'Decides, for the DOE generators of DOEDriver and their AnalysisDriver twins: per-element bound '
         'reads are not loop-carried; the level table of the pyDOE generators is linspace over the '
         "variable's own lower/upper with the variable's own level count and one row per element; a case "
         'is assembled with the same offset into the design row and the level table, advancing by the '
         'variable size and reset per case, element loops cover range(size of the variable), every variable '
         'is appended once and every design row emitted once; the level lookup of a variable (int / dict '
         'name / dict default / module default) is evaluated on its 5 scenarios; the level list given to '
         'fullfact/gsd uses the same level function; Plackett-Burman (-1/+1) and Box-Behnken (-1/0/+1) codings are mapped bijectively and '
         'monotonically onto 0..levels-1 (decided by evaluating the small coding expression on the code '
         'points); the Latin-hypercube map equals lower + s*(upper-lower) as a polynomial and uses its own '
         'design columns; uniform draws use the own bounds; seeding dominates the first draw under '
         '`seed is not None` / the seed is forwarded to pydoe; DOEDriver._run_case applies every (name, '
         'value) of the case before _run_solve_nonlinear and never swallows an assignment error; '
         'run() hands every generated case to _run_case; the MPI case filter is a partition.  Does not '
         'decide what pydoe returns (strata, orthogonality) nor floating-point rounding of linspace.',
         ['pydoe functions are opaque: fullfact(levels) enumerates the product, lhs(n, samples) is a '
          'Latin hypercube in [0,1], pbdesign yields -1/+1, bbdesign yields -1/0/+1',
          'design-variable metadata lower/upper are floats or flat arrays of the variable size'])


# =========================================================================== helpers
class Ctx:
    """CFG + reaching definitions of one function."""

    def __init__(self, fn):
        self.fn = fn
        self.g = cfgm.build(fn)
        self.rd = cfgm.ReachingDefs(self.g)

    def at(self, stmt):
        ns = self.g.nodes_of(stmt)
        if not ns:
            raise AnalysisError(f'{self.fn.ident}: statement not in CFG: {astx.src(stmt)}')
        return ns[0]

    def loops_of(self, node):
        """Enclosing For statements of an AST node, innermost first (within this function)."""
        out = []
        for a in astx.ancestors(node):
            if a is self.fn.node:
                break
            if isinstance(a, ast.For):
                out.append(a)
        return out


_CTX = {}


def ctx_of(fn):
    k = id(fn.node)
    c = _CTX.get(k)
    if c is None or c.fn is not fn:
        if len(_CTX) > 400:
            _CTX.clear()
        c = _CTX[k] = Ctx(fn)
    return c


def unwrap_iter(e):
    """Strip order/materialisation wrappers: sorted(X), reversed(X), list(X), tuple(X) -> X."""
    while isinstance(e, ast.Call) and isinstance(e.func, ast.Name) and \
            e.func.id in ('sorted', 'reversed', 'list', 'tuple') and e.args:
        e = e.args[0]
    return e


def dv_parts(st):
    """(key name, meta name, meta-binding statement or None) of a loop over the design variables, else None.

    Accepted: `for k, m in X.items():` (possibly through sorted()/reversed()/list()) and the keys form
    `for k in X:` / `for k in X.keys():` whose body binds `m = X[k]` at its top level.
    """
    if not isinstance(st, ast.For):
        return None
    it = unwrap_iter(st.iter)
    if isinstance(st.target, ast.Tuple) and len(st.target.elts) == 2 and \
            all(isinstance(e, ast.Name) for e in st.target.elts):
        if isinstance(it, ast.Call) and astx.callee_attr(it) == 'items' and not it.args:
            return (st.target.elts[0].id, st.target.elts[1].id, None)
        return None
    if isinstance(st.target, ast.Name):
        base = it
        if isinstance(it, ast.Call) and astx.callee_attr(it) == 'keys' and not it.args:
            base = astx.receiver(it)
        if astx.path(base) is None:
            return None
        for b in st.body:
            if isinstance(b, ast.Assign) and len(b.targets) == 1 and isinstance(b.targets[0], ast.Name) and \
                    isinstance(b.value, ast.Subscript) and astx.same(b.value.value, base) and \
                    isinstance(b.value.slice, ast.Name) and b.value.slice.id == st.target.id:
                return (st.target.id, b.targets[0].id, b)
    return None


def is_items_loop(st):
    """A loop over the design variables that binds (name, meta) -- see dv_parts."""
    return dv_parts(st) is not None


def is_range_loop(st):
    return isinstance(st, ast.For) and isinstance(st.target, ast.Name) and isinstance(st.iter, ast.Call) and \
        astx.call_name(st.iter) == 'range' and len(st.iter.args) == 1 and not st.iter.keywords


_NP = ('np', 'numpy')


def np_call(e, *names):
    """True if e is a call np.<name>(...) for one of names."""
    if not isinstance(e, ast.Call):
        return False
    cn = astx.call_name(e) or ''
    parts = cn.split('.')
    return len(parts) >= 2 and parts[0] in _NP and parts[-1] in names


CARRIED = 'carried'


class Bounds:
    """Resolve expressions to ('B', key, elem): bound `key` of the design variable of loop `dvloop`.

    elem: None (whole value) | ('var', name) | ('const', v) | ('expr', dump) | 'mixed'
    """

    def __init__(self, C, dvloop):
        self.C = C
        self.dv = dvloop
        self.key, self.meta, bind = dv_parts(dvloop)
        self.hdr = C.at(dvloop)
        self.bind = C.at(bind) if bind is not None else None
        self.carried = None   # (def node, name) of a loop-carried definition found during resolution

    def loop_var_ok(self, name, at):
        ds = self.C.rd.defs(at, name)
        if name == self.meta and self.bind is not None:
            return ds == {self.bind} and self.C.rd.defs(self.bind, self.key) == {self.hdr}
        return ds == {self.hdr}

    @staticmethod
    def merge(res):
        """Combine the roles of alternative definitions / branches of one value."""
        if any(r is None for r in res):
            return None
        keys = {r[1] for r in res}
        if len(keys) != 1:
            return ('B', 'mixed', None)
        elems = {r[2] for r in res}
        elems.discard(None)
        if not elems:
            return ('B', keys.pop(), None)
        if len(elems) == 1:
            return ('B', keys.pop(), elems.pop())
        return ('B', keys.pop(), 'mixed')

    env = None     # parameter bindings while a small helper function is being inlined

    def helper(self, call):
        """Func of a plain-name call to a helper defined in the analysed function or at module level."""
        if not (isinstance(call.func, ast.Name) and not call.keywords):
            return None
        m = self.C.fn.module
        f = m.funcs.get(f'{self.C.fn.qualname}.<locals>.{call.func.id}') or m.funcs.get(call.func.id)
        if f is None:
            return None
        a = f.node.args
        if a.vararg or a.kwarg or a.kwonlyargs or a.defaults or len(a.args) != len(call.args):
            return None
        # only `if`/`return` statements: a pure selection between expressions of the parameters
        for st in astx.walk_stmts(astx.strip_doc(f.node.body)):
            if not isinstance(st, (ast.If, ast.Return)):
                return None
        params = {x.arg for x in a.args}
        for st in astx.walk_stmts(f.node.body):
            if isinstance(st, ast.Return) and st.value is not None:
                for nm in astx.names(st.value):
                    if nm not in params and nm not in _NP:
                        return None
        return f

    def resolve(self, e, at, seen=()):
        C = self.C
        if isinstance(e, ast.Name) and self.env and e.id in self.env:
            expr, at0, outer = self.env[e.id]
            saved, self.env = self.env, outer
            try:
                return self.resolve(expr, at0, seen)
            finally:
                self.env = saved
        if isinstance(e, ast.Call) and self.helper(e) is not None:
            f = self.helper(e)
            rets = [st.value for st in astx.walk_stmts(f.node.body) if isinstance(st, ast.Return)]
            if not rets or any(r is None for r in rets):
                return None
            saved = self.env
            self.env = {x.arg: (a_, at, saved) for x, a_ in zip(f.node.args.args, e.args)}
            try:
                rs = []
                for rv in rets:
                    r = self.resolve(rv, at, seen)
                    if r == CARRIED:
                        return CARRIED
                    rs.append(r)
            finally:
                self.env = saved
            return self.merge(rs)
        if isinstance(e, ast.Subscript):
            k = astx.const_str(e.slice)
            if isinstance(e.value, ast.Name) and e.value.id == self.meta and k in ('lower', 'upper'):
                if self.loop_var_ok(self.meta, at):
                    return ('B', k, None)
                return None
            base = self.resolve(e.value, at, seen)
            if base == CARRIED:
                return CARRIED
            if base and base[0] == 'B' and base[2] is None and not isinstance(e.slice, ast.Slice):
                s = e.slice
                if isinstance(s, ast.Name) and self.env and s.id in self.env:
                    s = self.env[s.id][0]       # helper parameter -> the argument it was called with
                if isinstance(s, ast.Name):
                    el = ('var', s.id)
                elif isinstance(s, ast.Constant):
                    el = ('const', s.value)
                else:
                    el = ('expr', astx.src(s))
                return ('B', base[1], el)
            return None
        if isinstance(e, ast.IfExp):
            # `x[k] if isinstance(x, np.ndarray) else x`: either branch, like two definitions
            rs = []
            for b in (e.body, e.orelse):
                r = self.resolve(b, at, seen)
                if r == CARRIED:
                    return CARRIED
                rs.append(r)
            return self.merge(rs)
        if isinstance(e, ast.BinOp) and isinstance(e.op, ast.Mult):
            for a, b in ((e.left, e.right), (e.right, e.left)):
                if np_call(b, 'ones', 'ones_like'):
                    return self.resolve(a, at, seen)
            return None
        if isinstance(e, ast.Call):
            if np_call(e, 'full') and len(e.args) == 2:
                return self.resolve(e.args[1], at, seen)
            if np_call(e, 'asarray', 'atleast_1d', 'array', 'broadcast_to', 'ravel') and e.args:
                return self.resolve(e.args[0], at, seen)
            if astx.call_name(e) == 'float' and len(e.args) == 1:
                return self.resolve(e.args[0], at, seen)
            return None
        if isinstance(e, ast.Name):
            ds = C.rd.defs(at, e.id)
            if not ds:
                return None
            res = []
            for d in ds:
                if d in seen:
                    self.carried = (d, e.id)
                    return CARRIED
                if d.kind == 'stmt' and isinstance(d.ast, ast.Assign) and len(d.ast.targets) == 1 and \
                        isinstance(d.ast.targets[0], ast.Name):
                    r = self.resolve(d.ast.value, d, tuple(seen) + (d,))
                    if r == CARRIED:
                        return CARRIED
                    res.append(r)
                else:
                    res.append(None)
            return self.merge(res)
        return None


class CompBounds(Bounds):
    """Bounds for a comprehension `{k: ... for k, m in X.items()}` / `[... for k, m in X.items()]`."""

    def __init__(self, C, comp):
        gen = comp.generators[0]
        self.C = C
        self.dv = comp
        self.key, self.meta = gen.target.elts[0].id, gen.target.elts[1].id
        self.hdr = None
        self.bind = None
        self.carried = None

    def loop_var_ok(self, name, at):
        return name in (self.key, self.meta)     # comprehension-scoped, cannot be rebound


def dv_comprehension(node):
    """Innermost enclosing comprehension of `node` with one generator `for k, m in X.items()` and no filter."""
    for a in astx.ancestors(node):
        if isinstance(a, (ast.FunctionDef, ast.Lambda)):
            return None
        if isinstance(a, (ast.DictComp, ast.ListComp, ast.GeneratorExp)) and len(a.generators) == 1:
            gen = a.generators[0]
            it = unwrap_iter(gen.iter)
            if isinstance(gen.target, ast.Tuple) and len(gen.target.elts) == 2 and \
                    all(isinstance(e, ast.Name) for e in gen.target.elts) and isinstance(it, ast.Call) and \
                    astx.callee_attr(it) == 'items':
                return a
    return None


def same_value(C, a, at_a, b, at_b):
    """True / False / None: do expressions a (at node at_a) and b (at at_b) denote the same value?"""
    if isinstance(a, ast.Name) and isinstance(b, ast.Name) and a.id == b.id:
        da, db = C.rd.defs(at_a, a.id), C.rd.defs(at_b, b.id)
        if da == db and da:
            return True
        if not da and not db:
            return True     # free variable / global in both places
        return None
    if isinstance(a, ast.Constant) and isinstance(b, ast.Constant):
        return a.value == b.value

    def expand(x, at):
        if isinstance(x, ast.Name):
            v = C.rd.value(at, x.id)
            if v is not None:
                d = next(iter(C.rd.defs(at, x.id)))
                return v, d
        return x, at
    a2, ata = expand(a, at_a)
    b2, atb = expand(b, at_b)
    if a2 is a and b2 is b:
        if astx.same(a, b):
            # same expression text: same value if every name in it has the same definitions
            for nm in astx.names(a):
                if C.rd.defs(at_a, nm) != C.rd.defs(at_b, nm):
                    return None
            return True
        if isinstance(a, ast.Constant) or isinstance(b, ast.Constant):
            return False
        return None
    return same_value(C, a2, ata, b2, atb)


def writes_to(C, name, within):
    """CFG nodes inside loop statement `within` that assign the local `name`."""
    out = []
    for n in C.g.body_nodes(within):
        if n.kind == 'stmt' and isinstance(n.ast, (ast.Assign, ast.AugAssign, ast.AnnAssign)):
            if any(astx.path(t) == name for t in astx.assigned_targets(n.ast)):
                out.append(n)
        elif n.kind in ('iter', 'with'):
            if any(astx.path(t) == name for t in astx.assigned_targets(n.ast)):
                out.append(n)
    return out


def split_offset(C, e, at):
    """`R` -> (R, None); `R + k` / `k + R` (k a range-loop variable) -> (R, k); else None."""
    if isinstance(e, ast.Name):
        return (e.id, None)
    if isinstance(e, ast.BinOp) and isinstance(e.op, ast.Add) and isinstance(e.left, ast.Name) and \
            isinstance(e.right, ast.Name):
        for acc, k in ((e.left.id, e.right.id), (e.right.id, e.left.id)):
            ds = C.rd.defs(at, k)
            if ds and all(d.kind == 'iter' and is_range_loop(d.ast) for d in ds):
                return (acc, k)
    return None


def step_of(C, n, acc):
    """(step expression, node where it is evaluated) if CFG node n advances `acc` by a step, else None.

    Accepted: `acc += S`, `acc = acc + S`, `acc = S + acc`, and `acc = t` with `t = acc + S` computed earlier
    in the same iteration while `acc` was not changed in between.
    """
    if n.kind != 'stmt':
        return None
    st = n.ast
    if isinstance(st, ast.AugAssign):
        return (st.value, n) if isinstance(st.op, ast.Add) else None
    if not (isinstance(st, ast.Assign) and len(st.targets) == 1):
        return None
    e, at = st.value, n
    if isinstance(e, ast.Name) and e.id != acc:
        v = C.rd.value(n, e.id)
        if v is None:
            return None
        at = next(iter(C.rd.defs(n, e.id)))
        e = v
        if C.rd.defs(at, acc) != C.rd.defs(n, acc):
            return None
    if isinstance(e, ast.BinOp) and isinstance(e.op, ast.Add):
        for a, b in ((e.left, e.right), (e.right, e.left)):
            if isinstance(a, ast.Name) and a.id == acc:
                return (b, at)
    return None


def check_offset(C, out, fn, acc, kname, use_stmt, dvloop, kloop, what, keyp, size=None):
    """Offset discipline of accumulator `acc` used (as `acc` or `acc + k`) in use_stmt.

    Returns True if everything is right (nothing reported), False if something was reported.
    """
    g = C.g
    dvh = C.at(dvloop)
    body = set(g.body_nodes(dvloop))
    ws = writes_to(C, acc, dvloop)
    steps = {n: step_of(C, n, acc) for n in ws}
    incs = [n for n in ws if steps[n] is not None]
    other = [n for n in ws if n not in incs]
    if other and not (other[0].kind == 'stmt' and isinstance(other[0].ast, ast.Assign) and
                      isinstance(other[0].ast.value, ast.Constant)):
        out.unsure(fn, other[0].ast, f'{what}: write to the offset `{acc}` not recognised')
        return False
    if other:
        out.bad(fn, other[0].ast, f'{what}: the offset `{acc}` is overwritten inside the design-variable loop '
                f'(`{astx.src(other[0].ast)}`): following variables read the rows/columns of the wrong variable',
                key=f'{keyp}-offset-write')
        return False
    # reset: definitions flowing into the loop from outside are all `acc = 0`
    ext = set()
    for p, lab in g.pred[dvh]:
        if p in body:
            continue
        ext |= set(C.rd.out[p].get(acc, ()))
    if not ext:
        out.unsure(fn, dvloop, f'{what}: no definition of `{acc}` reaches the design-variable loop')
        return False
    for d in ext:
        okd = d.kind == 'stmt' and isinstance(d.ast, ast.Assign) and isinstance(d.ast.value, ast.Constant) and \
            d.ast.value.value == 0 and not isinstance(d.ast.value.value, bool)
        if not okd:
            if d in body or (d.kind == 'stmt' and isinstance(d.ast, ast.AugAssign)):
                out.bad(fn, d.ast, f'{what}: the offset `{acc}` is not reset to 0 before each pass over the design '
                        f'variables (the value left by `{astx.src(d.ast)}` flows into the next pass): every pass '
                        'after the first addresses rows/columns beyond its own', key=f'{keyp}-offset-reset')
            else:
                out.unsure(fn, d.ast, f'{what}: `{acc}` enters the loop from an unrecognised definition')
            return False
    use = C.at(use_stmt)
    if kname is None:
        # style A: one step of 1 per element, after the use
        if kloop is None:
            out.unsure(fn, use_stmt, f'{what}: plain offset `{acc}` used outside an element loop')
            return False
        kh = C.at(kloop)
        kbody = set(g.body_nodes(kloop))
        if not incs:
            out.bad(fn, use_stmt, f'{what}: the offset `{acc}` never advances: every element is written to / read '
                    'from the same row', key=f'{keyp}-offset-step')
            return False
        outside = [n for n in incs if n not in kbody]
        if outside:
            out.bad(fn, outside[0].ast, f'{what}: `{astx.src(outside[0].ast)}` advances the offset once per design '
                    f'variable, not once per element (`{astx.src(use_stmt)}` uses `{acc}` alone): elements k >= 1 '
                    'of an array variable use the row of element 0 / of the next variable', key=f'{keyp}-offset-step')
            return False
        for n in incs:
            v = steps[n][0]
            if not (isinstance(v, ast.Constant) and v.value == 1):
                out.bad(fn, n.ast, f'{what}: the per-element offset advances by `{astx.src(v)}` instead of 1',
                        key=f'{keyp}-offset-step')
                return False
        entry = [m for m, lab in g.succ[kh] if lab == 'true']
        w = g.path(entry, [kh], avoid=incs, labels=cfgm.noexc)
        if w is not None:
            out.bad(fn, incs[0].ast, f'{what}: an element iteration can finish without advancing `{acc}`: ' +
                    g.fmt_path(w), key=f'{keyp}-offset-step')
            return False
        for n in incs:
            r = g.reach(g.normal_succ(n), avoid=[kh], labels=cfgm.noexc)
            if r & set(incs):
                out.bad(fn, n.ast, f'{what}: `{acc}` can advance twice for one element', key=f'{keyp}-offset-step')
                return False
            if use in r:
                out.bad(fn, n.ast, f'{what}: `{acc}` advances before it is used for the element: every row is '
                        'shifted by one', key=f'{keyp}-offset-step')
                return False
        return True
    # style B: acc + k, one step of <size> per design variable, after the element loop
    if kloop is None and size is None:
        out.unsure(fn, use_stmt, f'{what}: `{acc} + {kname}` used outside an element loop')
        return False
    if kloop is not None:
        kh = C.at(kloop)
        kbody = set(g.body_nodes(kloop))
        size = kloop.iter.args[0]
    else:
        kh = use
        kbody = set()
    if not incs:
        out.bad(fn, use_stmt, f'{what}: the offset `{acc}` never advances: every design variable uses the '
                'rows/columns of the first one', key=f'{keyp}-offset-step')
        return False
    inside = [n for n in incs if n in kbody]
    if inside:
        out.bad(fn, inside[0].ast, f'{what}: `{acc}` advances inside the element loop although the index already '
                f'is `{acc} + {kname}`: rows are skipped', key=f'{keyp}-offset-step')
        return False
    for n in incs:
        sv = same_value(C, steps[n][0], steps[n][1], size, kh)
        if sv is False or (sv is None and isinstance(steps[n][0], ast.Constant)):
            out.bad(fn, n.ast, f'{what}: the offset advances by `{astx.src(steps[n][0])}` per design variable but '
                    f'the variable occupies `{astx.src(size)}` rows/columns: correct only for variables of that '
                    'size, array variables overlap with their successors', key=f'{keyp}-offset-step')
            return False
        if sv is None and isinstance(steps[n][0], ast.Name) and isinstance(size, ast.Name):
            ds_step, ds_size = C.rd.defs(steps[n][1], steps[n][0].id), C.rd.defs(kh, size.id)
            if ds_step and ds_size and not (ds_step & body) and ds_size <= body:
                out.bad(fn, n.ast, f'{what}: the offset advances by `{steps[n][0].id}`, which is not recomputed for '
                        f'the current design variable, while the variable occupies `{size.id}` rows/columns: '
                        'variables of different sizes overlap or leave gaps', key=f'{keyp}-offset-step')
                return False
        if sv is None:
            out.unsure(fn, n.ast, f'{what}: cannot relate step `{astx.src(steps[n][0])}` to the element count '
                       f'`{astx.src(size)}`')
            return False
    entry = [m for m, lab in g.succ[dvh] if lab == 'true']
    w = g.path(entry, [dvh], avoid=incs, labels=cfgm.noexc)
    if w is not None:
        out.bad(fn, incs[0].ast, f'{what}: a design variable can be processed without advancing `{acc}`: ' +
                g.fmt_path(w), key=f'{keyp}-offset-step')
        return False
    for n in incs:
        r = g.reach(g.normal_succ(n), avoid=[dvh], labels=cfgm.noexc)
        if r & set(incs):
            out.bad(fn, n.ast, f'{what}: `{acc}` can advance twice for one design variable', key=f'{keyp}-offset-step')
            return False
        if kh in r or use in r:
            out.bad(fn, n.ast, f'{what}: `{acc}` advances before the elements of the variable are processed',
                    key=f'{keyp}-offset-step')
            return False
    return True


def covers_elements(C, out, fn, kloop, dvloop, what, keyp):
    """The element loop runs over range(<size of the current design variable>)."""
    a = kloop.iter.args[0]
    kh = C.at(kloop)
    body = set(C.g.body_nodes(dvloop))
    key, meta, _ = dv_parts(dvloop)

    def per_dv(nm):
        ds = C.rd.defs(kh, nm)
        return bool(ds) and ds <= body and all(
            d.kind == 'stmt' and isinstance(d.ast, ast.Assign) and (astx.names(d.ast.value) & {meta, key})
            for d in ds)
    if isinstance(a, ast.Name):
        if per_dv(a.id):
            return True
        ds = C.rd.defs(kh, a.id)
        if ds and not (ds & body):
            out.bad(fn, kloop, f'{what}: the element loop runs over `range({a.id})`, but `{a.id}` is not the size of the '
                    'current design variable (it is not recomputed inside the design-variable loop): elements are '
                    'left out or foreign rows are overwritten', key=f'{keyp}-elements')
            return False
        out.unsure(fn, kloop, f'{what}: cannot relate `{a.id}` to the size of the design variable')
        return False
    if isinstance(a, ast.BinOp) and isinstance(a.op, (ast.Add, ast.Sub)):
        nm, c = (a.left, a.right) if isinstance(a.left, ast.Name) else (a.right, a.left)
        if isinstance(nm, ast.Name) and isinstance(c, ast.Constant) and c.value and per_dv(nm.id):
            out.bad(fn, kloop, f'{what}: the element loop runs over `range({astx.src(a)})` instead of all `{nm.id}` '
                    'elements of the variable: the last element keeps an uninitialised / stale value (or an index '
                    'error occurs)', key=f'{keyp}-elements')
            return False
    out.unsure(fn, kloop, f'{what}: element range `{astx.src(a)}` not recognised')
    return False



# =========================================================================== pyDOE generators
PYDOE = [(DG, '_pyDOE_Generator', '__call__'), (SP, '_pyDOE_AnalysisGenerator', '_setup')]
LEVEL_FUNCS = ('_get_dv_levels', '_get_levels')


class PyDoe:
    """Recognised parts of the pyDOE base generator method."""

    def __init__(self, repo, rel, cls, meth):
        self.rel, self.cls = rel, cls
        self.fn = repo.func(rel, f'{cls}.{meth}')
        self.C = ctx_of(self.fn)
        C = self.C
        # table statement: <V>[row, a:b] = np.linspace(...)
        tabs = []
        for st in astx.walk_stmts(self.fn.node.body):
            if isinstance(st, ast.Assign) and len(st.targets) == 1 and isinstance(st.targets[0], ast.Subscript):
                v = st.value
                call = v if np_call(v, 'linspace') else None
                if call is None and isinstance(v, ast.Name):
                    vv = C.rd.value(C.at(st), v.id)
                    if np_call(vv, 'linspace'):
                        call = vv
                if call is not None:
                    tabs.append((st, call))
        if not tabs:
            # a row store `V[off, a:b] = <expression>` inside a design-variable loop that is not linspace:
            # kept with lin=None so that C23.table can decide the expression
            for st in astx.walk_stmts(self.fn.node.body):
                if isinstance(st, ast.Assign) and len(st.targets) == 1 and isinstance(st.targets[0], ast.Subscript) \
                        and isinstance(st.targets[0].value, ast.Name) and \
                        isinstance(st.targets[0].slice, ast.Tuple) and len(st.targets[0].slice.elts) == 2 and \
                        isinstance(st.targets[0].slice.elts[1], ast.Slice) and \
                        any(is_items_loop(l) for l in C.loops_of(st)):
                    tabs.append((st, None))
        if len(tabs) != 1:
            raise AnalysisError(f'{self.fn.ident}: expected exactly one level-table store from np.linspace, '
                                f'found {len(tabs)}')
        self.tab, self.lin = tabs[0]
        tgt = self.tab.targets[0]
        if not isinstance(tgt.value, ast.Name):
            raise AnalysisError(f'{self.fn.ident}: level table target not recognised')
        self.V = tgt.value.id
        loops = C.loops_of(self.tab)
        self.t_k = next((l for l in loops if is_range_loop(l)), None)
        self.t_dv = next((l for l in loops if is_items_loop(l)), None)
        if self.t_dv is None:
            raise AnalysisError(f'{self.fn.ident}: level table is not filled inside a loop over the design variables')
        # index statement(s): X[k] = V[off][idx] / V[off, idx]
        self.reads = []
        for st in astx.walk_stmts(self.fn.node.body):
            if isinstance(st, ast.Assign) and st is not self.tab:
                r = self._table_read(st.value)
                if r is not None:
                    self.reads.append((st,) + r)

    def _table_read(self, e):
        """V[off][idx] or V[off, idx] -> (off_expr, idx_expr)."""
        if not isinstance(e, ast.Subscript):
            return None
        if isinstance(e.value, ast.Name) and e.value.id == self.V:
            if isinstance(e.slice, ast.Tuple) and len(e.slice.elts) == 2:
                return (e.slice.elts[0], e.slice.elts[1])
            return None
        if isinstance(e.value, ast.Subscript) and isinstance(e.value.value, ast.Name) and \
                e.value.value.id == self.V and not isinstance(e.value.slice, (ast.Tuple, ast.Slice)):
            return (e.value.slice, e.slice)
        return None


def pydoes(repo):
    return [PyDoe(repo, rel, cls, meth) for rel, cls, meth in PYDOE]


@rule('C23.loopdef', floor=4)
def loopdef(repo, out):
    """Per-element bounds of the level table are re-read from meta for every element (no loop-carried `lower = lower[k]`)."""
    for P in pydoes(repo):
        C = P.C
        B = Bounds(C, P.t_dv)
        at = C.at(P.tab)
        if P.lin is None:
            out.unsure(P.fn, P.tab, 'level table row is not produced by np.linspace (decided by C23.table)')
            continue
        ops = list(P.lin.args[:2])
        for nm in ('start', 'stop'):
            if astx.kwarg(P.lin, nm) is not None:
                ops.append(astx.kwarg(P.lin, nm))
        if len(ops) != 2:
            out.unsure(P.fn, P.tab, 'linspace endpoints not recognised')
            continue
        lin_at = at
        if P.lin is not P.tab.value:
            lin_at = next(iter(C.rd.defs(at, P.tab.value.id)))
        for e in ops:
            B.carried = None
            r = B.resolve(e, lin_at)
            if r == CARRIED:
                d, nm = B.carried
                kv = P.t_k.target.id if P.t_k is not None else '?'
                out.bad(P.fn, d.ast, f'`{astx.src(d.ast)}` rebinds the bound array `{nm}` to one of its elements and '
                        f'that value is carried into the next iteration of `for {kv}`: from the second element on '
                        f'the array test fails and element 0\'s bound is used for every element of the variable '
                        '(generated values leave the bounds of elements >= 1)', key=f'loop-carried-{nm}')
            elif r is None:
                out.unsure(P.fn, P.tab, f'linspace endpoint `{astx.src(e)}` does not resolve to a bound of the '
                           'design variable')
            else:
                out.ok(P.fn, P.tab, f'`{astx.src(e)}` is re-read from {B.meta}[{r[1]!r}] for every element')


def affine_table(C, B, out, P):
    """Level-table row computed as an expression of a unit grid t = linspace(0, 1, n) instead of linspace(lower, upper)."""
    at = C.at(P.tab)

    def unit_grid(e, at_):
        if isinstance(e, ast.Name):
            v = C.rd.value(at_, e.id)
            if v is None:
                return False
            return unit_grid(v, next(iter(C.rd.defs(at_, e.id))))
        if np_call(e, 'linspace') and len(e.args) >= 2:
            a, b = e.args[0], e.args[1]
            return isinstance(a, ast.Constant) and a.value == 0 and isinstance(b, ast.Constant) and b.value == 1
        return False
    B.spans = []
    B.any_elem = True
    try:
        p = poly(P.tab.value, at, C, B, unit_grid)
    except _NoPoly as ex:
        out.unsure(P.fn, P.tab, f'level table row is neither np.linspace(lower, upper, n) nor an affine map of a unit '
                   f'grid: {ex}')
        return
    finally:
        B.any_elem = False
    if p != LHS_WANT:
        out.bad(P.fn, P.tab, f'the level table row is {_pfmt(p)} with s = linspace(0, 1, n) (L=lower, U=upper), which is '
                'not L + s*(U - L): the levels do not span [lower, upper]', key='table-endpoints')
        return
    if B.spans:
        out.bad(P.fn, P.tab, f'the levels are computed as lower + s*(upper - lower) through the difference '
                f'`{astx.src(B.spans[0])}`: in floating point lower + 1.0*(upper - lower) is not upper (it exceeds the '
                'upper bound by rounding for bounds such as -0.1 .. 0.3 and collapses to 0.0 for a one-sided bound '
                'with lower = -1e30), so the highest level leaves the bounds / is not the upper bound; '
                'np.linspace(lower, upper, n) returns both endpoints exactly', key='table-endpoint-rounding')
        return
    out.unsure(P.fn, P.tab, 'level table row is an endpoint-exact convex combination; remaining table clauses are only '
               'decided for the np.linspace form')


@rule('C23.table', floor=2)
def table(repo, out):
    """Level table: row per element = linspace between the variable's own lower and upper with its own level count."""
    for P in pydoes(repo):
        C = P.C
        B = Bounds(C, P.t_dv)
        at = C.at(P.tab)
        if P.lin is None:
            affine_table(C, B, out, P)
            continue
        lin_at = at if P.lin is P.tab.value else next(iter(C.rd.defs(at, P.tab.value.id)))
        lin = P.lin
        extra = [k.arg for k in lin.keywords if k.arg not in ('start', 'stop', 'num')]
        lo = astx.arg(lin, 0, 'start')
        hi = astx.arg(lin, 1, 'stop')
        num = astx.arg(lin, 2, 'num')
        if extra or lo is None or hi is None or num is None:
            out.unsure(P.fn, P.tab, f'linspace call shape not recognised (extra={extra})')
            continue
        r1, r2 = B.resolve(lo, lin_at), B.resolve(hi, lin_at)
        if r1 == CARRIED or r2 == CARRIED:
            continue   # reported by C23.loopdef
        if r1 is None or r2 is None:
            out.unsure(P.fn, P.tab, 'linspace endpoints do not resolve to bounds of the design variable')
            continue
        bad = False
        if {r1[1], r2[1]} != {'lower', 'upper'}:
            out.bad(P.fn, P.tab, f'level table spans {B.meta}[{r1[1]!r}] .. {B.meta}[{r2[1]!r}] instead of lower .. upper: '
                    'the levels do not cover the range of the variable (all levels coincide or leave the bounds)',
                    key='table-endpoints')
            bad = True
        kv = P.t_k.target.id if P.t_k is not None else None
        for r, e in ((r1, lo), (r2, hi)):
            el = r[2]
            if el is None:
                if P.t_k is None:
                    continue
                out.bad(P.fn, P.tab, f'`{astx.src(e)}` is never indexed by the element `{kv}`: array bounds are '
                        'written into a single row', key='table-element')
                bad = True
            elif el == 'mixed' or el[0] == 'expr':
                out.unsure(P.fn, P.tab, f'element index of `{astx.src(e)}` not recognised')
                bad = True
            elif el != ('var', kv):
                out.bad(P.fn, P.tab, f'bound `{astx.src(e)}` of element `{kv}` is read at index {el[1]!r}: the levels of '
                        'this element are computed from the bounds of another element', key='table-element')
                bad = True
        if bad:
            continue
        # level count
        def level_role(e, at_):
            if isinstance(e, ast.Name):
                if not C.rd.defs(at_, e.id):
                    return ('global', e.id), e     # module constant such as _LEVELS
                v = C.rd.value(at_, e.id)
                if v is None:
                    return None, e
                d = next(iter(C.rd.defs(at_, e.id)))
                return level_role(v, d)
            if isinstance(e, ast.Call) and astx.callee_attr(e) in LEVEL_FUNCS and \
                    astx.path(astx.receiver(e)) == 'self' and len(e.args) == 1 and not e.keywords:
                a = e.args[0]
                if isinstance(a, ast.Name) and a.id == B.key and B.loop_var_ok(a.id, at_):
                    return ('dv', astx.callee_attr(e)), e
                return ('other-arg', astx.src(a)), e
            if isinstance(e, ast.Constant):
                return ('const', e.value), e
            if astx.path(e) == 'self._levels':
                return ('all', None), e
            if isinstance(e, (ast.IfExp, ast.Call)) and astx.mentions(e, 'max'):
                return ('max', None), e
            return None, e
        role, src_e = level_role(num, lin_at)
        if role is None:
            out.unsure(P.fn, P.tab, f'level count `{astx.src(num)}` not recognised')
            continue
        if role[0] != 'dv':
            out.bad(P.fn, P.tab, f'the number of levels of the table row is `{astx.src(src_e)}`, not the level count '
                    f'of this design variable (its level lookup for `{B.key}`): the design indexes levels that the '
                    'table does not hold (NaN values) or the requested levels are not the ones enumerated',
                    key='table-levels')
            continue
        # target: V[off, lo:hi] with hi the same level count
        tgt = P.tab.targets[0]
        sl = tgt.slice
        if not (isinstance(sl, ast.Tuple) and len(sl.elts) == 2 and isinstance(sl.elts[1], ast.Slice)):
            out.unsure(P.fn, P.tab, 'level table target is not `values[row, 0:levels]`')
            continue
        off_e, cols = sl.elts
        lo_ok = cols.lower is None or (isinstance(cols.lower, ast.Constant) and cols.lower.value == 0)
        if not lo_ok or cols.step is not None or cols.upper is None:
            out.unsure(P.fn, P.tab, 'column slice of the level table not recognised')
            continue
        urole, _ = level_role(cols.upper, at)
        if urole != role:
            if urole is None:
                out.unsure(P.fn, P.tab, f'column bound `{astx.src(cols.upper)}` not recognised')
            else:
                out.bad(P.fn, P.tab, f'the row stores `{astx.src(cols.upper)}` columns but linspace produces '
                        f'`{astx.src(num)}` levels', key='table-levels')
            continue
        so = split_offset(C, off_e, at)
        if so is None:
            out.unsure(P.fn, P.tab, f'row index `{astx.src(off_e)}` not recognised')
            continue
        acc, kname = so
        if kname is not None and (P.t_k is None or kname != P.t_k.target.id):
            out.unsure(P.fn, P.tab, f'row index `{astx.src(off_e)}` uses a loop variable of another loop')
            continue
        if not check_offset(C, out, P.fn, acc, kname, P.tab, P.t_dv, P.t_k, 'level table', 'table'):
            continue
        if P.t_k is not None and not covers_elements(C, out, P.fn, P.t_k, P.t_dv, 'level table', 'table'):
            continue
        out.ok(P.fn, P.tab, f'row `{astx.src(off_e)}` <- linspace({B.meta}[lower][{kv}], {B.meta}[upper][{kv}], '
               f'self.{role[1]}({B.key})); one row per element')


@rule('C23.index', floor=2)
def index(repo, out):
    """Case assembly: element value = table[off][design[off]] with one offset, advancing by the variable size, reset per case."""
    for P in pydoes(repo):
        C = P.C
        g = C.g
        if not P.reads:
            raise AnalysisError(f'{P.fn.ident}: no read of the level table `{P.V}` found')
        for st, off_e, idx_e in P.reads:
            at = C.at(st)
            loops = C.loops_of(st)
            kloop = next((l for l in loops if is_range_loop(l)), None)
            dvloop = next((l for l in loops if is_items_loop(l)), None)
            caseloop = None
            if dvloop is not None:
                outer = C.loops_of(dvloop)
                caseloop = outer[0] if outer else None
            if dvloop is None or caseloop is None or kloop is None:
                out.unsure(P.fn, st, 'table read is not inside case / design-variable / element loops')
                continue
            so = split_offset(C, off_e, at)
            if so is None:
                # a recognisable wrong shape: the bare element variable
                out.unsure(P.fn, st, f'table row index `{astx.src(off_e)}` not recognised')
                continue
            acc, kname = so
            kv = kloop.target.id
            if kname is None and acc == kv:
                out.bad(P.fn, st, f'the level table is read at row `{kv}` (element number within the variable) instead '
                        f'of the global row offset: every variable after the first takes the levels, i.e. the bounds, '
                        'of the first variable', key='index-table-row')
                continue
            # the design index
            idx_src, idx_at = idx_e, at
            if isinstance(idx_e, ast.Name):
                v = C.rd.value(at, idx_e.id)
                if v is None:
                    out.unsure(P.fn, st, f'design index `{astx.src(idx_e)}` has no unique definition')
                    continue
                idx_src, idx_at = v, next(iter(C.rd.defs(at, idx_e.id)))
            if not (isinstance(idx_src, ast.Subscript) and isinstance(idx_src.value, ast.Name) and
                    isinstance(caseloop.target, ast.Name) and idx_src.value.id == caseloop.target.id and
                    C.rd.defs(idx_at, idx_src.value.id) == {C.at(caseloop)}):
                out.unsure(P.fn, st, f'design index `{astx.src(idx_src)}` is not an element of the design row')
                continue
            so2 = split_offset(C, idx_src.slice, idx_at)
            if so2 is None:
                out.unsure(P.fn, st, f'design column `{astx.src(idx_src.slice)}` not recognised')
                continue
            if so2 == (kv, None) or (so2[1] is None and so2[0] == kv):
                out.bad(P.fn, astx.stmt_of(idx_src), f'the design row is read at column `{kv}` (element number within '
                        'the variable) instead of the global offset: every variable takes the level indices of the '
                        'first factors, the factors of later variables are never varied', key='index-design-column')
                continue
            if so2 != so:
                out.bad(P.fn, st, f'level table row `{astx.src(off_e)}` and design column `{astx.src(idx_src.slice)}` '
                        'differ: the level index of one factor selects from the levels of another',
                        key='index-offset-mismatch')
                continue
            if kname is not None and kname != kv:
                out.unsure(P.fn, st, 'offset uses the variable of another element loop')
                continue
            if not covers_elements(C, out, P.fn, kloop, dvloop, 'case assembly', 'index'):
                continue
            if not check_offset(C, out, P.fn, acc, kname, st, dvloop, kloop, 'case assembly', 'index'):
                continue
            # the store goes to element k of the value
            tgt = st.targets[0] if len(st.targets) == 1 else None
            if not (isinstance(tgt, ast.Subscript) and isinstance(tgt.slice, ast.Name)):
                out.unsure(P.fn, st, 'store target of the element value not recognised')
                continue
            if tgt.slice.id != kv:
                out.bad(P.fn, st, f'the value of element `{kv}` is stored at `{astx.src(tgt)}`', key='index-store')
                continue
            if not isinstance(tgt.value, ast.Name):
                out.unsure(P.fn, st, 'element value is not stored into a local array')
                continue
            vdef = C.rd.value(at, tgt.value.id)
            if np_call(vdef, 'empty', 'zeros', 'ones', 'full') and vdef.args:
                vd_at = next(iter(C.rd.defs(at, tgt.value.id)))
                sv = same_value(C, vdef.args[0], vd_at, kloop.iter.args[0], C.at(kloop))
                if sv is not True:
                    if sv is False or isinstance(vdef.args[0], (ast.BinOp, ast.Constant)):
                        out.bad(P.fn, vd_at.ast, f'the value array has `{astx.src(vdef.args[0])}` elements but '
                                f'`{astx.src(kloop.iter.args[0])}` elements are filled: trailing elements stay '
                                'uninitialised (np.empty) or an index error occurs', key='index-elements')
                    else:
                        out.unsure(P.fn, vd_at.ast, 'cannot relate the length of the value array to the element loop')
                    continue
            else:
                out.unsure(P.fn, st, f'definition of `{tgt.value.id}` is not a fresh array per variable')
                continue
            if not emit_check(C, out, P.fn, tgt.value.id, dvloop, caseloop, dv_parts(dvloop)[0], 'index',
                              'case assembly'):
                continue
            out.ok(P.fn, st, f'{astx.src(tgt)} = {P.V}[{astx.src(off_e)}][design[{astx.src(off_e)}]]; offset `{acc}` '
                   'advances by the variable size and is reset for every case')


# --------------------------------------------------------------------------- level list for the design
@rule('C23.levels', floor=4)
def levels(repo, out):
    """The level list given to fullfact/gsd repeats each variable's own level count `size` times, in variable order."""
    for P in pydoes(repo):
        C = P.C
        # which level function does the table use?
        if P.lin is None:
            out.unsure(P.fn, P.tab, 'level table row is not produced by np.linspace (decided by C23.table)')
            continue
        num = astx.arg(P.lin, 2, 'num')
        tab_at = C.at(P.tab)
        lin_at = tab_at if P.lin is P.tab.value else next(iter(C.rd.defs(tab_at, P.tab.value.id)))
        e = num
        if isinstance(e, ast.Name):
            e = C.rd.value(lin_at, e.id)
        tab_func = astx.callee_attr(e) if isinstance(e, ast.Call) else None
        if tab_func not in LEVEL_FUNCS:
            out.unsure(P.fn, P.tab, 'level function of the table not recognised (see C23.table)')
            continue
        fa = repo.func(P.rel, f'{P.cls}._get_all_levels')
        CA = ctx_of(fa)
        rets = [st for st in astx.walk_stmts(fa.node.body) if isinstance(st, ast.Return) and st.value is not None]
        if not rets:
            raise AnalysisError(f'{fa.ident}: no return')
        for rt in rets:
            at = CA.at(rt)
            v = rt.value
            if isinstance(v, ast.Name):
                v = CA.rd.value(at, v.id) or v

            def sizes_path(x, at_):
                p = astx.path(x)
                if p == 'self._sizes':
                    return True
                if isinstance(x, ast.Name):
                    vv = CA.rd.value(at_, x.id)
                    return vv is not None and astx.path(vv) == 'self._sizes'
                return False
            # int form: [self._levels] * sum(<sizes>.values())
            if isinstance(v, ast.BinOp) and isinstance(v.op, ast.Mult):
                lst, cnt = (v.left, v.right) if isinstance(v.left, ast.List) else (v.right, v.left)
                if isinstance(lst, ast.List) and len(lst.elts) == 1:
                    lv = lst.elts[0]
                    lv_ok = astx.path(lv) == 'self._levels' or \
                        (isinstance(lv, ast.Name) and astx.path(CA.rd.value(at, lv.id) or lv) == 'self._levels')
                    cnt_ok = isinstance(cnt, ast.Call) and astx.call_name(cnt) == 'sum' and len(cnt.args) == 1 and \
                        isinstance(cnt.args[0], ast.Call) and astx.callee_attr(cnt.args[0]) == 'values' and \
                        sizes_path(astx.receiver(cnt.args[0]), at)
                    if isinstance(cnt, ast.Name) and not cnt_ok:
                        out.unsure(fa, rt, f'factor count `{astx.src(cnt)}` not recognised')
                        continue
                    if not lv_ok:
                        if isinstance(lv, ast.Constant) or astx.path(lv) in ('_LEVELS',):
                            out.bad(fa, rt, f'the uniform level list uses `{astx.src(lv)}` instead of self._levels: the '
                                    'design enumerates other levels than the table holds', key='levels-uniform')
                        else:
                            out.unsure(fa, rt, f'level entry `{astx.src(lv)}` not recognised')
                        continue
                    if not cnt_ok:
                        if isinstance(cnt, ast.Call) and astx.call_name(cnt) == 'len':
                            out.bad(fa, rt, f'the level list has `{astx.src(cnt)}` entries (one per variable) instead of '
                                    'one per element: array variables get fewer factors than elements',
                                    key='levels-count')
                        else:
                            out.unsure(fa, rt, f'factor count `{astx.src(cnt)}` not recognised')
                        continue
                    out.ok(fa, rt, 'uniform levels: self._levels repeated once per element of every variable')
                    continue
            # dict form: sum([v * [f(k)] for k, v in sizes.items()], []), or the same as an accumulation loop
            #            R = []; for k, v in sizes.items(): R.extend(v * [f(k)]); return R
            comp = None
            target = it_e = elt = None
            filt = False
            if isinstance(v, ast.Call) and astx.call_name(v) == 'sum' and len(v.args) == 2 and \
                    isinstance(v.args[1], ast.List) and not v.args[1].elts and \
                    isinstance(v.args[0], (ast.ListComp, ast.GeneratorExp)):
                comp = v.args[0]
                if len(comp.generators) != 1:
                    out.unsure(fa, rt, 'comprehension shape not recognised')
                    continue
                gen = comp.generators[0]
                target, it_e, elt, filt = gen.target, gen.iter, comp.elt, bool(gen.ifs)
            elif isinstance(rt.value, ast.Name) and isinstance(v, ast.List) and not v.elts:
                R = rt.value.id
                g_ = CA.g
                rdef = next(iter(CA.rd.defs(at, R)))
                exts = []
                for n_ in g_.nodes:
                    if n_.kind != 'stmt':
                        continue
                    for c_ in n_.calls():
                        if astx.callee_attr(c_) in ('extend', 'append') and isinstance(astx.receiver(c_), ast.Name) \
                                and astx.receiver(c_).id == R and rdef in CA.rd.defs(n_, R):
                            exts.append((n_, c_))
                if len(exts) != 1 or astx.callee_attr(exts[0][1]) != 'extend' or len(exts[0][1].args) != 1:
                    out.unsure(fa, rt, f'accumulation of the level list `{R}` not recognised')
                    continue
                en, ec = exts[0]
                lp = next((l for l in CA.loops_of(en.ast)), None)
                if lp is None:
                    out.unsure(fa, rt, f'`{R}.extend(...)` is not inside a loop over the sizes')
                    continue
                lh = CA.at(lp)
                entry_ = [m for m, lab in g_.succ[lh] if lab == 'true']
                w_skip = g_.path(entry_, [lh], avoid=[en], labels=cfgm.noexc)
                filt = w_skip is not None
                if g_.path(g_.normal_succ(rdef), [at], avoid=[lh], labels=cfgm.noexc) is not None:
                    out.bad(fa, rt, f'the level list `{R}` can be returned without running the loop that fills it',
                            key='levels-count')
                    continue
                target, it_e, elt = lp.target, lp.iter, ec.args[0]
            if elt is None:
                out.unsure(fa, rt, f'level list expression not recognised: {astx.src(v)}')
                continue
            if filt:
                out.bad(fa, rt, 'the level list skips variables by a filter: the design has fewer factors than '
                        'the table has rows', key='levels-count')
                continue
            if not (isinstance(target, ast.Tuple) and len(target.elts) == 2 and
                    all(isinstance(x, ast.Name) for x in target.elts) and isinstance(it_e, ast.Call) and
                    astx.callee_attr(it_e) == 'items' and sizes_path(astx.receiver(it_e), at)):
                out.unsure(fa, rt, f'level list does not iterate self._sizes.items(): {astx.src(it_e)}')
                continue
            kn, vn = target.elts[0].id, target.elts[1].id
            if not (isinstance(elt, ast.BinOp) and isinstance(elt.op, ast.Mult)):
                if isinstance(elt, ast.List) and len(elt.elts) == 1:
                    out.bad(fa, rt, f'each variable contributes one factor (`{astx.src(elt)}`) instead of one per '
                            'element: array variables get fewer design columns than elements', key='levels-count')
                else:
                    out.unsure(fa, rt, f'element `{astx.src(elt)}` not recognised')
                continue
            lst, cnt = (elt.left, elt.right) if isinstance(elt.left, ast.List) else (elt.right, elt.left)
            if not (isinstance(lst, ast.List) and len(lst.elts) == 1):
                out.unsure(fa, rt, f'element `{astx.src(elt)}` not recognised')
                continue
            if not (isinstance(cnt, ast.Name) and cnt.id == vn):
                if isinstance(cnt, ast.Constant) or (isinstance(cnt, ast.Name) and cnt.id == kn):
                    out.bad(fa, rt, f'the level of a variable is repeated `{astx.src(cnt)}` times instead of its size '
                            f'`{vn}`', key='levels-count')
                else:
                    out.unsure(fa, rt, f'repeat count `{astx.src(cnt)}` not recognised')
                continue
            lv = lst.elts[0]
            if isinstance(lv, ast.Call) and astx.path(astx.receiver(lv)) == 'self' and \
                    astx.callee_attr(lv) in LEVEL_FUNCS and len(lv.args) == 1 and isinstance(lv.args[0], ast.Name):
                if lv.args[0].id != kn:
                    out.bad(fa, rt, f'the level count is looked up for `{lv.args[0].id}` instead of the variable name '
                            f'`{kn}`', key='levels-per-dv')
                elif astx.callee_attr(lv) != tab_func:
                    out.bad(fa, rt, f'design uses {astx.callee_attr(lv)} but the table uses {tab_func}',
                            key='levels-per-dv')
                else:
                    out.ok(fa, rt, f'per-variable levels: self.{tab_func}({kn}) repeated {vn} (= size) times, the same '
                           'function the level table uses')
                continue
            if isinstance(lv, ast.Call) and astx.callee_attr(lv) == 'get' or isinstance(lv, (ast.Subscript, ast.Constant)) \
                    or astx.path(lv) in ('self._levels', '_LEVELS'):
                out.bad(fa, rt, f'the design takes the level count of a variable from `{astx.src(lv)}` while the level '
                        f'table takes it from self.{tab_func}(name): when the two differ (e.g. a "default" entry) the '
                        'design does not enumerate the requested levels / selects NaN table entries',
                        key='levels-per-dv')
                continue
            out.unsure(fa, rt, f'level entry `{astx.src(lv)}` not recognised')
        # the per-variable level function itself: int -> the int; dict -> get(name, get('default', _LEVELS))
        # (opaque here: both sites call the same function, which is what the property needs)


# --------------------------------------------------------------------------- design codings (PB / BB)
class _NoEval(Exception):
    pass


def _vec(x, n):
    return x if isinstance(x, list) else [x] * n


def _ev(e, env, n):
    """Elementwise evaluation of a small numpy expression on a list of n sample values."""
    if isinstance(e, ast.Constant) and isinstance(e.value, (int, float)) and not isinstance(e.value, bool):
        return e.value
    if isinstance(e, ast.Constant) and e.value is None:
        return None
    if isinstance(e, ast.Name):
        if e.id in env:
            return env[e.id]
        raise _NoEval(astx.src(e))
    if isinstance(e, ast.UnaryOp) and isinstance(e.op, (ast.USub, ast.Invert, ast.Not)):
        v = _vec(_ev(e.operand, env, n), n)
        if isinstance(e.op, ast.USub):
            return [-x for x in v]
        return [not x for x in v]
    if isinstance(e, ast.BinOp):
        a, b = _vec(_ev(e.left, env, n), n), _vec(_ev(e.right, env, n), n)
        ops = {ast.Add: lambda x, y: x + y, ast.Sub: lambda x, y: x - y, ast.Mult: lambda x, y: x * y,
               ast.FloorDiv: lambda x, y: x // y, ast.Div: lambda x, y: Fraction(x) / Fraction(y),
               ast.Mod: lambda x, y: x % y, ast.BitAnd: lambda x, y: x and y, ast.BitOr: lambda x, y: x or y}
        f = ops.get(type(e.op))
        if f is None:
            raise _NoEval(astx.src(e))
        try:
            return [f(x, y) for x, y in zip(a, b)]
        except ZeroDivisionError:
            raise _NoEval(astx.src(e))
    if isinstance(e, ast.Compare) and len(e.ops) == 1:
        a, b = _vec(_ev(e.left, env, n), n), _vec(_ev(e.comparators[0], env, n), n)
        ops = {ast.Lt: lambda x, y: x < y, ast.LtE: lambda x, y: x <= y, ast.Gt: lambda x, y: x > y,
               ast.GtE: lambda x, y: x >= y, ast.Eq: lambda x, y: x == y, ast.NotEq: lambda x, y: x != y}
        f = ops.get(type(e.ops[0]))
        if f is None:
            raise _NoEval(astx.src(e))
        return [f(x, y) for x, y in zip(a, b)]
    if isinstance(e, ast.Call):
        if np_call(e, 'maximum', 'minimum') and len(e.args) == 2:
            a, b = _vec(_ev(e.args[0], env, n), n), _vec(_ev(e.args[1], env, n), n)
            f = max if astx.callee_attr(e) == 'maximum' else min
            return [f(x, y) for x, y in zip(a, b)]
        if np_call(e, 'where') and len(e.args) == 3:
            c, a, b = (_vec(_ev(x, env, n), n) for x in e.args)
            return [x if t else y for t, x, y in zip(c, a, b)]
        if np_call(e, 'clip') and len(e.args) == 3:
            a = _vec(_ev(e.args[0], env, n), n)
            lo, hi = _ev(e.args[1], env, n), _ev(e.args[2], env, n)
            if isinstance(lo, list) or isinstance(hi, list):
                raise _NoEval(astx.src(e))
            return [x if (lo is None or x >= lo) and (hi is None or x <= hi) else (lo if lo is not None and x < lo else hi)
                    for x in a]
        if (np_call(e, 'abs', 'absolute') or astx.call_name(e) == 'abs') and len(e.args) == 1:
            return [abs(x) for x in _vec(_ev(e.args[0], env, n), n)]
        if isinstance(e.func, ast.Attribute) and e.func.attr in ('astype', 'copy'):
            v = _vec(_ev(e.func.value, env, n), n)
            if e.func.attr == 'astype':
                a0 = e.args[0] if e.args else None
                nm = astx.const_str(a0) or astx.path(a0) or ''
                if 'int' in nm:
                    return [int(x) for x in v]
                raise _NoEval(astx.src(e))
            return list(v)
    raise _NoEval(astx.src(e))


CODED = [
    # (file, class, pydoe attribute, code points)
    (DG, 'PlackettBurmanGenerator', '_pbdesign', (-1, 1)),
    (DG, 'BoxBehnkenGenerator', '_bbdesign', (-1, 0, 1)),
    (SP, 'PlackettBurmanGenerator', '_pbdesign', (-1, 1)),
    (SP, 'BoxBehnkenGenerator', '_bbdesign', (-1, 0, 1)),
]


def ctor_levels(repo, rel, cls):
    f = repo.func(rel, f'{cls}.__init__')
    for c in astx.calls(f.node):
        if astx.callee_attr(c) == '__init__' and isinstance(c.func.value, ast.Call) and \
                astx.call_name(c.func.value) == 'super':
            lv = astx.kwarg(c, 'levels')
            if lv is None:
                return f, c, None
            return f, c, lv
    raise AnalysisError(f'{f.ident}: no super().__init__ call')


@rule('C23.design', floor=4)
def design(repo, out):
    """Plackett-Burman / Box-Behnken code points are mapped monotonically and one-to-one onto level indices 0..levels-1."""
    for rel, cls, attr, pts in CODED:
        fn = repo.func(rel, f'{cls}._generate_design')
        fi, call, lv = ctor_levels(repo, rel, cls)
        if not (isinstance(lv, ast.Constant) and isinstance(lv.value, int)):
            out.unsure(fi, call, 'levels passed to the base class is not an integer literal')
            continue
        nlev = lv.value
        n = len(pts)
        env = {}
        result = None
        try:
            for st in astx.strip_doc(fn.node.body):
                if isinstance(st, ast.If):
                    # argument validation: `if size < 3: raise ...`
                    if all(isinstance(s, ast.Raise) for s in st.body) and not st.orelse and \
                            not (astx.names(st.test) & set(env)):
                        continue
                    raise _NoEval(astx.src(st))
                if isinstance(st, ast.Assign) and len(st.targets) == 1:
                    t, v = st.targets[0], st.value
                    if isinstance(t, ast.Name):
                        if isinstance(v, ast.Call) and astx.path(v.func) == f'self.{attr}':
                            env[t.id] = list(pts)
                        else:
                            val = _ev(v, env, n)
                            if isinstance(val, list):
                                env[t.id] = val
                            else:
                                raise _NoEval(astx.src(st))
                        continue
                    if isinstance(t, ast.Subscript) and isinstance(t.value, ast.Name) and t.value.id in env:
                        mask = _vec(_ev(t.slice, env, n), n)
                        val = _vec(_ev(v, env, n), n)
                        if not all(isinstance(m, bool) for m in mask):
                            raise _NoEval(astx.src(st))
                        env[t.value.id] = [x if m else o for m, x, o in zip(mask, val, env[t.value.id])]
                        continue
                    raise _NoEval(astx.src(st))
                if isinstance(st, ast.AugAssign) and isinstance(st.target, ast.Name) and st.target.id in env:
                    env[st.target.id] = _vec(_ev(ast.BinOp(left=st.target, op=st.op, right=st.value), env, n), n)
                    continue
                if isinstance(st, ast.Return) and st.value is not None:
                    if isinstance(st.value, ast.Call) and astx.path(st.value.func) == f'self.{attr}':
                        result = list(pts)
                    else:
                        result = _vec(_ev(st.value, env, n), n)
                    break
                raise _NoEval(astx.src(st))
        except _NoEval as ex:
            out.unsure(fn, fn.node, f'coding of the {attr[1:]} design not evaluable: {ex}')
            continue
        if result is None:
            out.unsure(fn, fn.node, 'no return value found')
            continue
        # the caller converts with .astype('int')
        img = []
        okint = True
        for x in result:
            if isinstance(x, bool):
                x = int(x)
            if isinstance(x, Fraction):
                if x.denominator != 1:
                    okint = False
                x = int(x)
            img.append(x)
        mp = ', '.join(f'{p:+d}->{i}' for p, i in zip(pts, img))
        want = list(range(nlev))
        if not okint or any(i < 0 or i >= nlev for i in img):
            out.bad(fn, fn.node, f'design codes are mapped {mp} but the level table of this generator has the indices '
                    f'0..{nlev - 1} (levels={nlev}): an index outside that range wraps around to / selects another '
                    'level (or a NaN column), so distinct design codes share a level and the design is not covered',
                    key='design-coding')
        elif sorted(img) != want:
            out.bad(fn, fn.node, f'design codes are mapped {mp}; with levels={nlev} the indices {want} must each be hit '
                    'exactly once (some level is never used or two codes coincide)', key='design-coding')
        elif img != want and img != want[::-1]:
            out.bad(fn, fn.node, f'design codes are mapped {mp}: not monotone, the centre code does not select the '
                    'middle level', key='design-coding')
        else:
            out.ok(fn, fn.node, f'{attr[1:]} codes {mp} cover the level indices 0..{nlev - 1} (levels={nlev})')


# =========================================================================== emit (shared)
def emit_check(C, out, fn, val_name, dvloop, caseloop, key_var, keyp, what):
    """The per-variable value is appended once per variable; the case is emitted once per design row."""
    g = C.g
    dvh = C.at(dvloop)
    dbody = set(g.body_nodes(dvloop))
    val_node = None
    if isinstance(val_name, ast.Name):
        val_name = val_name.id
    elif isinstance(val_name, ast.AST):
        val_node, val_name = val_name, astx.src(val_name, 40)

    def is_val(x):
        return x is val_node if val_node is not None else (isinstance(x, ast.Name) and x.id == val_name)
    apps = []
    for n in dbody:
        if n.kind != 'stmt':
            continue
        for c in n.calls():
            if astx.callee_attr(c) == 'append' and isinstance(astx.receiver(c), ast.Name) and len(c.args) == 1:
                a0 = c.args[0]
                if is_val(a0) or (isinstance(a0, ast.Tuple) and any(is_val(x) for x in a0.elts)) or \
                        (val_node is None and val_name in astx.names(a0)):
                    apps.append((n, c))
    if not apps:
        out.unsure(fn, dvloop, f'{what}: no `<case>.append(...{val_name}...)` in the design-variable loop')
        return False
    recv = {astx.receiver(c).id for n, c in apps}
    if len(recv) != 1:
        out.unsure(fn, dvloop, f'{what}: value appended to several lists {sorted(recv)}')
        return False
    R = recv.pop()
    for n, c in apps:
        a = c.args[0]
        if isinstance(a, ast.Tuple):
            if not (len(a.elts) == 2 and isinstance(a.elts[0], ast.Name) and
                    (isinstance(a.elts[1], ast.Name) or is_val(a.elts[1]))):
                out.unsure(fn, n.ast, f'{what}: appended pair not recognised')
                return False
            if not is_val(a.elts[1]) or a.elts[0].id != key_var:
                out.bad(fn, n.ast, f'{what}: the case entry is `{astx.src(a)}`, expected ({key_var}, {val_name}): the '
                        'value is attached to the wrong name', key=f'{keyp}-emit-pair')
                return False
        elif not is_val(a):
            out.unsure(fn, n.ast, f'{what}: appended value not recognised')
            return False
    anodes = [n for n, c in apps]
    entry = [m for m, lab in g.succ[dvh] if lab == 'true']
    w = g.path(entry, [dvh], avoid=anodes, labels=cfgm.noexc)
    if w is not None:
        out.bad(fn, anodes[0].ast, f'{what}: a design variable can be left out of the case: ' + g.fmt_path(w),
                key=f'{keyp}-emit-var')
        return False
    for n in anodes:
        if set(anodes) & g.reach(g.normal_succ(n), avoid=[dvh], labels=cfgm.noexc):
            out.bad(fn, n.ast, f'{what}: a design variable can be appended twice to one case', key=f'{keyp}-emit-var')
            return False
    if caseloop is None:
        return True
    ch = C.at(caseloop)
    cbody = set(g.body_nodes(caseloop))

    def emits(n):
        if n.kind != 'stmt':
            return False
        for w_ in astx.walk(n.ast):
            if isinstance(w_, ast.Yield) and isinstance(w_.value, ast.Name) and w_.value.id == R:
                return True
            if isinstance(w_, ast.Call) and astx.callee_attr(w_) == 'append' and len(w_.args) == 1 and \
                    isinstance(w_.args[0], ast.Name) and w_.args[0].id == R:
                return True
        return False
    ems = [n for n in cbody if emits(n)]
    inner = [n for n in ems if n in dbody]
    if inner:
        out.bad(fn, inner[0].ast, f'{what}: the case `{R}` is emitted inside the design-variable loop, i.e. once per '
                'variable with a partial list: the number of cases is no longer the number of design rows and the '
                'model is run with only some variables set', key=f'{keyp}-emit-case')
        return False
    if not ems:
        late = [n for n in g.nodes if n not in cbody and emits(n)]
        if late:
            out.bad(fn, late[0].ast, f'{what}: the case `{R}` is emitted after the loop over the design rows: only the '
                    'last row becomes a case', key=f'{keyp}-emit-case')
        else:
            out.unsure(fn, caseloop, f'{what}: no `yield {R}` / `.append({R})` per design row found')
        return False
    entry = [m for m, lab in g.succ[ch] if lab == 'true']
    w = g.path(entry, [ch], avoid=ems, labels=cfgm.noexc)
    if w is not None:
        out.bad(fn, ems[0].ast, f'{what}: a design row can be skipped without emitting its case: ' + g.fmt_path(w),
                key=f'{keyp}-emit-case')
        return False
    # the case list is fresh for every row
    ext = set()
    for e in ems:
        ext |= C.rd.defs(e, R)
    stale = [d for d in ext if d not in cbody]
    if stale:
        out.bad(fn, stale[0].ast, f'{what}: the list `{R}` is created outside the loop over the design rows: every '
                'emitted case is the same growing list holding the entries of all previous rows',
                key=f'{keyp}-emit-case')
        return False
    return True


# =========================================================================== Latin hypercube
class _NoPoly(Exception):
    pass


def _padd(a, b, sign=1):
    r = dict(a)
    for k, v in b.items():
        r[k] = r.get(k, 0) + sign * v
        if r[k] == 0:
            del r[k]
    return r


def _pmul(a, b):
    r = {}
    for k1, v1 in a.items():
        for k2, v2 in b.items():
            k = tuple(sorted(k1 + k2))
            r[k] = r.get(k, 0) + v1 * v2
            if r[k] == 0:
                del r[k]
    return r


def poly(e, at, C, B, sample_of, depth=0):
    """Polynomial over the symbols L, U (bounds of the variable) and s (its slice of the design row)."""
    if depth > 12:
        raise _NoPoly('too deep')
    if isinstance(e, ast.Constant) and isinstance(e.value, (int, float)) and not isinstance(e.value, bool):
        return {(): Fraction(e.value)} if e.value != 0 else {}
    if isinstance(e, ast.UnaryOp) and isinstance(e.op, ast.USub):
        return _padd({}, poly(e.operand, at, C, B, sample_of, depth + 1), -1)
    if isinstance(e, ast.BinOp):
        if isinstance(e.op, (ast.Add, ast.Sub, ast.Mult)):
            # broadcast helper `x * np.ones(n)` is the identity
            if isinstance(e.op, ast.Mult):
                for a, b in ((e.left, e.right), (e.right, e.left)):
                    if np_call(b, 'ones', 'ones_like'):
                        return poly(a, at, C, B, sample_of, depth + 1)
            a = poly(e.left, at, C, B, sample_of, depth + 1)
            b = poly(e.right, at, C, B, sample_of, depth + 1)
            if isinstance(e.op, ast.Add):
                return _padd(a, b)
            if isinstance(e.op, ast.Sub):
                r = _padd(a, b, -1)
                if r in ({('U',): Fraction(1), ('L',): Fraction(-1)}, {('U',): Fraction(-1), ('L',): Fraction(1)}) \
                        and getattr(B, 'spans', None) is not None:
                    B.spans.append(e)
                return r
            return _pmul(a, b)
        if isinstance(e.op, ast.Div):
            b = poly(e.right, at, C, B, sample_of, depth + 1)
            if set(b) == {()}:
                return _pmul(poly(e.left, at, C, B, sample_of, depth + 1), {(): 1 / b[()]})
        raise _NoPoly(astx.src(e))
    smp = sample_of(e, at)
    if smp:
        return {('s',): Fraction(1)}
    r = B.resolve(e, at)
    if r and r != CARRIED and r[0] == 'B' and r[1] in ('lower', 'upper') and \
            (r[2] is None or getattr(B, 'any_elem', False)):
        return {('L' if r[1] == 'lower' else 'U',): Fraction(1)}
    if isinstance(e, ast.Name):
        v = C.rd.value(at, e.id)
        if v is not None:
            return poly(v, next(iter(C.rd.defs(at, e.id))), C, B, sample_of, depth + 1)
    raise _NoPoly(astx.src(e))


def _pfmt(p):
    if not p:
        return '0'
    return ' + '.join(f"{v}*{'*'.join(k) or '1'}" for k, v in sorted(p.items()))


LHS_WANT = {('L',): Fraction(1), ('U', 's'): Fraction(1), ('L', 's'): Fraction(-1)}
LHS = [(DG, 'LatinHypercubeGenerator'), (SP, 'LatinHypercubeGenerator')]


def lhs_parts(repo, rel, cls):
    """(function with the pydoe call, call node, function with the mapping loops, row loop, dv loop)."""
    m = repo.module(rel)
    callf = mapf = None
    for qn, f in m.funcs.items():
        if not qn.startswith(cls + '.'):
            continue
        for c in astx.calls(f.node):
            if astx.path(c.func) == 'self._lhs':
                callf = (f, c)
        for st in astx.walk_stmts(f.node.body):
            if is_items_loop(st):
                outer = [a for a in astx.ancestors(st) if isinstance(a, ast.For)]
                inner_fn = astx.enclosing(st, (ast.FunctionDef,))
                if outer and inner_fn is f.node:
                    mapf = (f, outer[0], st)
    if callf is None or mapf is None:
        raise AnalysisError(f'{rel}:{cls}: pydoe lhs call or mapping loop not found')
    return callf, mapf


@rule('C23.lhs', floor=2)
def lhs(repo, out):
    """Latin hypercube: value == lower + s*(upper - lower) as a polynomial, s = own columns of the design row, one case per row."""
    for rel, cls in LHS:
        (cf, call), (mf, rowloop, dvloop) = lhs_parts(repo, rel, cls)
        C = ctx_of(mf)
        g = C.g
        B = Bounds(C, dvloop)
        if not isinstance(rowloop.target, ast.Name):
            out.unsure(mf, rowloop, 'row loop target not a name')
            continue
        rowv = rowloop.target.id
        rh = C.at(rowloop)
        slices = []

        def sample_of(e, at):
            """Is e (a slice of) the design row?"""
            if isinstance(e, ast.Name):
                v = C.rd.value(at, e.id)
                if v is None:
                    return False
                return sample_of(v, next(iter(C.rd.defs(at, e.id))))
            if isinstance(e, ast.Subscript) and isinstance(e.value, ast.Name) and e.value.id == rowv and \
                    C.rd.defs(at, rowv) == {rh} and isinstance(e.slice, ast.Slice):
                slices.append((e, at))
                return True
            return False
        # the appended value
        apps = [c for n in g.body_nodes(dvloop) if n.kind == 'stmt' for c in n.calls()
                if astx.callee_attr(c) == 'append' and len(c.args) == 1]
        if len(apps) != 1:
            out.unsure(mf, dvloop, f'expected one append in the design-variable loop, found {len(apps)}')
            continue
        a = apps[0].args[0]
        ve = a.elts[1] if isinstance(a, ast.Tuple) and len(a.elts) == 2 else a
        app_at = C.at(astx.stmt_of(apps[0]))
        vstmt = astx.stmt_of(apps[0])
        if isinstance(ve, ast.Name):
            vdef = C.rd.defs(app_at, ve.id)
            if len(vdef) == 1:
                vstmt = next(iter(vdef)).ast
        try:
            p = poly(ve, app_at, C, B, sample_of)
        except _NoPoly as ex:
            if B.carried:
                out.bad(mf, B.carried[0].ast, f'bound `{B.carried[1]}` is loop-carried', key='lhs-loop-carried')
            else:
                out.unsure(mf, vstmt, f'Latin-hypercube map not a polynomial in lower/upper/sample: {ex}')
            continue
        if p != LHS_WANT:
            out.bad(mf, vstmt, f'the sample s in [0,1] is mapped to {_pfmt(p)} (L=lower, U=upper), which is not '
                    'L + s*(U - L): generated values leave [lower, upper] or do not span it, so strata of the unit '
                    'cube are not strata of the bounds', key='lhs-affine')
            continue
        if len({astx.dump(e) for e, _ in slices}) != 1:
            out.unsure(mf, vstmt, 'several different slices of the design row are used')
            continue
        sl, sl_at = slices[0]
        lo, hi = sl.slice.lower, sl.slice.upper
        if isinstance(hi, ast.Name) and isinstance(lo, ast.Name):
            hv = C.rd.value(sl_at, hi.id)
            if hv is not None and C.rd.defs(next(iter(C.rd.defs(sl_at, hi.id))), lo.id) == C.rd.defs(sl_at, lo.id):
                hi = hv
        if not (isinstance(lo, ast.Name) and sl.slice.step is None and isinstance(hi, ast.BinOp) and
                isinstance(hi.op, ast.Add)):
            out.unsure(mf, astx.stmt_of(sl), f'design-row slice `{astx.src(sl)}` not of the form row[c:c + size]')
            continue
        acc = lo.id
        if isinstance(hi.left, ast.Name) and hi.left.id == acc:
            width = hi.right
        elif isinstance(hi.right, ast.Name) and hi.right.id == acc:
            width = hi.left
        else:
            out.bad(mf, astx.stmt_of(sl), f'design-row slice `{astx.src(sl)}` does not end at `{acc}` + size',
                    key='lhs-slice')
            continue
        if not check_offset(C, out, mf, acc, '<slice>', astx.stmt_of(sl), dvloop, None, 'Latin-hypercube columns',
                            'lhs', size=width):
            continue
        if not emit_check(C, out, mf, ve, dvloop, rowloop, B.key, 'lhs', 'Latin-hypercube case'):
            continue
        # the number of design columns is the sum of the same per-variable size
        CC = ctx_of(cf)
        n_e = astx.arg(call, 0, 'n')
        call_at = CC.at(astx.stmt_of(call))
        tot = n_e
        if isinstance(n_e, ast.Name):
            tot = CC.rd.value(call_at, n_e.id)
        wv = width
        if isinstance(width, ast.Name):
            wv = C.rd.value(sl_at, width.id) or width
        verdict = None
        if isinstance(tot, ast.Call) and astx.call_name(tot) == 'sum' and len(tot.args) == 1 and \
                isinstance(tot.args[0], (ast.ListComp, ast.GeneratorExp)) and len(tot.args[0].generators) == 1 \
                and not tot.args[0].generators[0].ifs:
            comp = tot.args[0]
            gen = comp.generators[0]
            ren = {}
            if isinstance(gen.target, ast.Name) and astx.callee_attr(gen.iter) == 'values':
                ren[gen.target.id] = B.meta
            elif isinstance(gen.target, ast.Tuple) and len(gen.target.elts) == 2 and \
                    astx.callee_attr(gen.iter) == 'items':
                ren[gen.target.elts[0].id] = B.key
                ren[gen.target.elts[1].id] = B.meta
            elt = astx.canon(comp.elt)
            for w_ in ast.walk(elt):
                if isinstance(w_, ast.Name) and w_.id in ren:
                    w_.id = ren[w_.id]
            if ren and ast.dump(elt) == ast.dump(astx.canon(wv)):
                verdict = True
        elif isinstance(tot, ast.Call) and astx.call_name(tot) == 'len':
            verdict = False
        if verdict is False:
            out.bad(cf, astx.stmt_of(call), f'the design has `{astx.src(tot)}` columns (one per variable) but every '
                    f'variable consumes `{astx.src(wv)}` columns: elements of array variables share one sample '
                    '(perfectly correlated dimensions) or run out of columns', key='lhs-columns')
            continue
        if verdict is None:
            out.unsure(cf, astx.stmt_of(call), f'cannot relate the number of design columns `{astx.src(tot)}` to the '
                       f'per-variable width `{astx.src(wv)}`')
            continue
        out.ok(mf, vstmt, f'{astx.src(ve, 40)} == lower + {rowv}[{acc}:{acc}+size]*(upper - lower); `{acc}` advances by size and is '
               'reset per row; one case per design row; columns = sum of sizes')


# =========================================================================== uniform
def uniform_draws(fn):
    return [c for c in astx.calls(fn.node) if (astx.call_name(c) or '').endswith('random.uniform')
            or (astx.callee_attr(c) == 'uniform')]


@rule('C23.uniform', floor=2)
def uniform(repo, out):
    """Uniform draws are taken between lower and upper of the variable they are stored for."""
    for rel, qn in ((DG, 'UniformGenerator.__call__'), (SU, 'UniformGenerator.__next__')):
        fn = repo.func(rel, qn)
        C = ctx_of(fn)
        draws = uniform_draws(fn)
        if not draws:
            raise AnalysisError(f'{fn.ident}: no uniform draw found')
        for c in draws:
            st = astx.stmt_of(c)
            dvloop = next((l for l in C.loops_of(st) if is_items_loop(l)), None)
            comp = dv_comprehension(c) if dvloop is None else None
            if dvloop is None and comp is None:
                out.unsure(fn, st, 'draw is not inside a loop over the variables')
                continue
            B = Bounds(C, dvloop) if dvloop is not None else CompBounds(C, comp)
            at = C.at(st)
            lo, hi = astx.arg(c, 0, 'low'), astx.arg(c, 1, 'high')
            if lo is None or hi is None:
                out.unsure(fn, st, 'uniform(low, high) arguments not found')
                continue
            r1, r2 = B.resolve(lo, at), B.resolve(hi, at)
            if r1 == CARRIED or r2 == CARRIED:
                out.bad(fn, B.carried[0].ast, f'bound `{B.carried[1]}` is loop-carried', key='uniform-loop-carried')
                continue
            if r1 is None or r2 is None:
                out.unsure(fn, st, f'`{astx.src(lo)}` / `{astx.src(hi)}` do not resolve to bounds of the variable')
                continue
            if {r1[1], r2[1]} != {'lower', 'upper'} or r1[2] is not None or r2[2] is not None:
                out.bad(fn, st, f'the draw is taken between {B.meta}[{r1[1]!r}] and {B.meta}[{r2[1]!r}]'
                        f'{" (single elements)" if r1[2] or r2[2] else ""} instead of the lower and upper bound of the '
                        'variable: samples are constant or leave the bounds', key='uniform-bounds')
                continue
            # where does the draw go?
            if comp is not None:
                # {key: <... draw ...> for key, meta in X.items()} : one entry per variable, keyed by its name
                if comp.generators[0].ifs:
                    out.bad(fn, st, 'the comprehension filters variables: some variables get no sample',
                            key='uniform-emit-var')
                elif isinstance(comp, ast.DictComp) and isinstance(comp.key, ast.Name) and comp.key.id == B.key and \
                        any(w_ is c for w_ in ast.walk(comp.value)):
                    out.ok(fn, st, f'draw between {B.meta}[lower] and {B.meta}[upper], stored under [{B.key}] by a '
                           'dict comprehension over the variables')
                elif isinstance(comp, ast.DictComp) and any(w_ is c for w_ in ast.walk(comp.value)):
                    out.bad(fn, st, f'draw for `{B.key}` stored under `{astx.src(comp.key)}`', key='uniform-store')
                else:
                    out.unsure(fn, st, 'destination of the draw inside the comprehension not recognised')
                continue
            caseloop = None
            outer = C.loops_of(dvloop)
            if outer:
                caseloop = outer[0]
            if isinstance(st, ast.Assign) and isinstance(st.targets[0], ast.Subscript):
                t = st.targets[0]
                if isinstance(t.slice, ast.Name) and t.slice.id == B.key:
                    out.ok(fn, st, f'draw between {B.meta}[lower] and {B.meta}[upper], stored under [{B.key}]')
                else:
                    out.bad(fn, st, f'draw for `{B.key}` stored under `{astx.src(t.slice)}`', key='uniform-store')
                continue
            # appended (directly or through a temporary)
            vn = None
            if isinstance(st, ast.Assign) and isinstance(st.targets[0], ast.Name):
                vn = st.targets[0].id
            if vn is None:
                # inline: X.append((name, draw))
                par = astx.enclosing(c, (ast.Call,))
                if par is not None and astx.callee_attr(par) == 'append' and isinstance(par.args[0], ast.Tuple) and \
                        len(par.args[0].elts) == 2 and par.args[0].elts[1] is c:
                    k = par.args[0].elts[0]
                    if not (isinstance(k, ast.Name) and k.id == B.key):
                        out.bad(fn, st, f'draw for `{B.key}` is attached to `{astx.src(k)}`', key='uniform-store')
                        continue
                    # reuse emit_check by naming the draw through a pseudo value: check structure directly
                    g = C.g
                    dvh = C.at(dvloop)
                    entry = [m for m, lab in g.succ[dvh] if lab == 'true']
                    w = g.path(entry, [dvh], avoid=[at], labels=cfgm.noexc)
                    if w is not None:
                        out.bad(fn, st, 'a variable can be left out of the sample: ' + g.fmt_path(w),
                                key='uniform-emit-var')
                        continue
                    R = astx.receiver(par)
                    if caseloop is not None and isinstance(R, ast.Name):
                        ok_ = _emit_case_only(C, out, fn, R.id, dvloop, caseloop, 'uniform', 'uniform sample')
                        if not ok_:
                            continue
                    out.ok(fn, st, f'draw between {B.meta}[lower] and {B.meta}[upper], appended as ({B.key}, draw); one '
                           'sample per iteration')
                    continue
                out.unsure(fn, st, 'destination of the draw not recognised')
                continue
            # the temporary is stored into a dictionary entry of the variable: X[key] = <... vn ...>
            g = C.g
            stores = [n_ for n_ in g.body_nodes(dvloop) if n_.kind == 'stmt' and isinstance(n_.ast, ast.Assign)
                      and len(n_.ast.targets) == 1 and isinstance(n_.ast.targets[0], ast.Subscript)
                      and isinstance(n_.ast.targets[0].value, ast.Name)
                      and not (isinstance(n_.ast.targets[0].slice, ast.Constant) and
                               isinstance(n_.ast.value, ast.Name))
                      and vn in astx.names(n_.ast.value) and C.rd.defs(n_, vn) == {at}]
            if stores:
                wrong = [n_ for n_ in stores if not (isinstance(n_.ast.targets[0].slice, ast.Name) and
                                                     n_.ast.targets[0].slice.id == B.key and
                                                     B.loop_var_ok(B.key, n_))]
                if wrong:
                    out.bad(fn, wrong[0].ast, f'draw for `{B.key}` stored under `{astx.src(wrong[0].ast.targets[0].slice)}`',
                            key='uniform-store')
                    continue
                dvh = C.at(dvloop)
                w = g.path(g.normal_succ(at), [dvh], avoid=stores, labels=cfgm.noexc)
                if w is not None:
                    out.bad(fn, st, f'the draw for `{B.key}` can be dropped without being stored: ' + g.fmt_path(w),
                            key='uniform-emit-var')
                    continue
                entry = [m for m, lab in g.succ[dvh] if lab == 'true']
                w = g.path(entry, [dvh], avoid=[at], labels=cfgm.noexc)
                if w is not None:
                    out.bad(fn, st, 'a variable can be left out of the sample: ' + g.fmt_path(w), key='uniform-emit-var')
                    continue
                out.ok(fn, st, f'draw between {B.meta}[lower] and {B.meta}[upper], stored under [{B.key}] through '
                       f'`{vn}`')
                continue
            if emit_check(C, out, fn, vn, dvloop, caseloop, B.key, 'uniform', 'uniform sample'):
                out.ok(fn, st, f'draw between {B.meta}[lower] and {B.meta}[upper], appended for {B.key}')


def _emit_case_only(C, out, fn, R, dvloop, caseloop, keyp, what):
    """Case-level half of emit_check for a list named R."""
    g = C.g
    ch = C.at(caseloop)
    cbody = set(g.body_nodes(caseloop))
    dbody = set(g.body_nodes(dvloop))

    def emits(n):
        return n.kind == 'stmt' and any(isinstance(w_, ast.Yield) and isinstance(w_.value, ast.Name) and
                                        w_.value.id == R for w_ in astx.walk(n.ast))
    ems = [n for n in cbody if emits(n)]
    if [n for n in ems if n in dbody]:
        out.bad(fn, [n for n in ems if n in dbody][0].ast, f'{what}: `{R}` is yielded once per variable with a partial '
                'list', key=f'{keyp}-emit-case')
        return False
    if not ems:
        late = [n for n in g.nodes if n not in cbody and emits(n)]
        if late:
            out.bad(fn, late[0].ast, f'{what}: `{R}` is yielded after the sample loop: only one case is produced',
                    key=f'{keyp}-emit-case')
        else:
            out.unsure(fn, caseloop, f'{what}: no `yield {R}` found')
        return False
    entry = [m for m, lab in g.succ[ch] if lab == 'true']
    w = g.path(entry, [ch], avoid=ems, labels=cfgm.noexc)
    if w is not None:
        out.bad(fn, ems[0].ast, f'{what}: a sample can be skipped: ' + g.fmt_path(w), key=f'{keyp}-emit-case')
        return False
    ext = set()
    for e in ems:
        ext |= C.rd.defs(e, R)
    stale = [d for d in ext if d not in cbody]
    if stale:
        out.bad(fn, stale[0].ast, f'{what}: the list `{R}` is created outside the sample loop: every yielded case is '
                'the same growing list', key=f'{keyp}-emit-case')
        return False
    return True


# =========================================================================== seeding
def seed_path(C, e, at):
    """True if e denotes self._seed (directly or through a local alias)."""
    if astx.path(e) == 'self._seed':
        return True
    if isinstance(e, ast.Name):
        v = C.rd.value(at, e.id)
        return v is not None and astx.path(v) == 'self._seed'
    return False


def seed_test(C, t, at):
    """'pos' if test true => seed is not None; 'neg' if test true => seed is None; else None."""
    if isinstance(t, ast.UnaryOp) and isinstance(t.op, ast.Not):
        r = seed_test(C, t.operand, at)
        return {'pos': 'neg', 'neg': 'pos'}.get(r)
    if isinstance(t, ast.Compare) and len(t.ops) == 1 and isinstance(t.ops[0], (ast.Is, ast.IsNot, ast.Eq, ast.NotEq)):
        a, b = t.left, t.comparators[0]
        if isinstance(a, ast.Constant) and a.value is None:
            a, b = b, a
        if isinstance(b, ast.Constant) and b.value is None and seed_path(C, a, at):
            return 'pos' if isinstance(t.ops[0], (ast.IsNot, ast.NotEq)) else 'neg'
    return None


def seeded_edge_ok(C):
    def ok(n, m, lab):
        if n.kind == 'test' and lab in ('true', 'false') and isinstance(n.ast, ast.If):
            r = seed_test(C, n.ast.test, n)
            if r == 'pos' and lab == 'false':
                return False
            if r == 'neg' and lab == 'true':
                return False
        return lab != 'exc'
    return ok


def check_global_seed(C, out, fn, targets, what):
    """Every path (seed not None) from entry to a target passes np.random.seed(self._seed)."""
    g = C.g
    seeds = []
    for n in g.nodes:
        if n.kind in ('stmt', 'test', 'iter', 'with'):
            for c in n.calls():
                if (astx.call_name(c) or '').endswith('random.seed'):
                    seeds.append((n, c))
    if not seeds:
        out.bad(fn, fn.node, f'{what}: the numpy global generator is never seeded with self._seed: two generators built '
                'with the same seed yield different cases', key='seed-missing')
        return False
    good = []
    for n, c in seeds:
        a = astx.arg(c, 0, 'seed')
        if a is not None and seed_path(C, a, n):
            good.append(n)
        elif isinstance(a, ast.Constant) or a is None:
            out.bad(fn, n.ast, f'{what}: the generator is seeded with `{astx.src(a) if a is not None else ""}` instead of '
                    'self._seed: the user\'s seed has no effect', key='seed-value')
            return False
        else:
            out.unsure(fn, n.ast, f'{what}: seed argument `{astx.src(a)}` not recognised')
            return False
    w = g.path([g.entry], targets, avoid=good, edge_ok=seeded_edge_ok(C))
    if w is not None:
        out.bad(fn, good[0].ast, f'{what}: with a seed that is not None the first draw can be reached without '
                f'np.random.seed(self._seed) (note that 0 is a valid seed): ' + g.fmt_path(w), key='seed-order')
        return False
    return True


# --------------------------------------------------------------------------- where does the randomness come from
_RNG_CTORS = ('RandomState', 'default_rng', 'Generator')


def is_rng_ctor(e):
    return isinstance(e, ast.Call) and astx.callee_attr(e) in _RNG_CTORS


def has_rng_ctor(e):
    return any(is_rng_ctor(w) for w in ast.walk(e))


def attr_stores(repo, rel, cls, attr):
    """[(Func, Assign stmt)] of every `self.<attr> = ...` in the methods of cls (and nested functions)."""
    out_ = []
    for qn, f in repo.module(rel).funcs.items():
        if not qn.startswith(cls + '.'):
            continue
        for st in astx.walk_stmts(f.node.body):
            if isinstance(st, (ast.Assign, ast.AnnAssign, ast.AugAssign)):
                if any(astx.path(t) == f'self.{attr}' for t in astx.assigned_targets(st)):
                    out_.append((f, st))
    return out_


_NP_RANDOM = ('np.random', 'numpy.random')


def _classify_side(repo, rel, cls, C, e, at, call_funcs, want_object, pol, st, f, attr, depth):
    """classify_rng for a stored value, knowing on which side of a `seed is None` test it is evaluated.

    pol: 'pos' (seed is not None), 'neg' (seed is None), None (unknown)."""
    if isinstance(e, ast.IfExp):
        t = seed_test(C, e.test, at)
        if t is None and seed_path(C, e.test, at):
            t = 'truthy'
        if t is not None:
            other = {'pos': 'neg', 'neg': 'pos', 'truthy': 'zero'}[t]
            sides = ((e.body, 'pos' if t == 'truthy' else t), (e.orelse, other))
            texts = []
            for b, side in sides:
                if pol in ('pos', 'neg') and side in ('pos', 'neg') and side != pol:
                    continue      # dead branch under the enclosing test
                r = _classify_side(repo, rel, cls, C, b, at, call_funcs, want_object, side, st, f, attr, depth + 1)
                if r[0] != 'ok':
                    return r
                texts.append(r[1])
            return ('ok', ' / '.join(texts))
    if pol == 'neg':
        if astx.path(e) in _NP_RANDOM or (isinstance(e, ast.Constant) and e.value is None) or is_rng_ctor(e):
            return ('ok', f'without a seed: `{astx.src(e)}`')
        return ('unsure', f'unseeded side `{astx.src(e)}` not recognised')
    if astx.path(e) in _NP_RANDOM and pol == 'zero':
        return ('bad', f'self.{attr} falls back to the process-wide numpy generator whenever self._seed is falsy '
                f'(`{astx.src(st)}`): 0 is a valid seed and would be ignored', st, 'seed-private', f)
    if pol == 'zero':
        pol = None
    if astx.path(e) in _NP_RANDOM:
        if pol == 'pos':
            return ('bad', f'with a seed given, self.{attr} is the process-wide numpy generator (`{astx.src(st)}`): the '
                    'draws do not come from a generator created from self._seed, so the seed has no effect / the cases '
                    'depend on every other user of np.random', st, 'seed-private', f)
        return ('unsure', f'self.{attr} is the numpy module whether or not a seed is given')
    r = classify_rng(repo, rel, cls, C, e, at, call_funcs, want_object, depth + 1)
    if r[0] == 'ok' and pol == 'pos':
        return ('ok', f'with a seed: {r[1]}')
    return r


def classify_rng(repo, rel, cls, C, e, at, call_funcs, want_object=False, depth=0):
    """Is `e` (evaluated at CFG node `at` of a function in call_funcs) a function of self._seed at call time?

    Returns ('ok', text) | ('bad', text, node_or_None, key) | ('unsure', text).
    want_object: e is used as a generator object (receiver of .uniform), so an int seed is not enough.
    """
    if depth > 6:
        return ('unsure', 'definition chain too deep')
    if isinstance(e, ast.Constant) and e.value is None:
        return ('ok', 'None')
    if seed_path(C, e, at):
        if want_object:
            return ('unsure', 'the seed itself is used as a generator object')
        return ('ok', 'self._seed itself')
    if isinstance(e, ast.IfExp):
        rs = [classify_rng(repo, rel, cls, C, b, at, call_funcs, want_object, depth + 1) for b in (e.body, e.orelse)]
        for r in rs:
            if r[0] != 'ok':
                return r
        return ('ok', 'both branches: ' + ' / '.join(r[1] for r in rs))
    if is_rng_ctor(e):
        a = astx.arg(e, 0, 'seed')
        if a is None or (isinstance(a, ast.Constant) and a.value is None):
            return ('bad', f'`{astx.src(e)}` creates an unseeded generator: self._seed has no effect', None,
                    'seed-forward')
        if seed_path(C, a, at):
            return ('ok', f'`{astx.src(e)}` built from self._seed at call time')
        if isinstance(a, ast.Constant):
            return ('bad', f'`{astx.src(e)}` uses a fixed seed instead of self._seed', None, 'seed-forward')
        return ('unsure', f'seed of `{astx.src(e)}` not recognised')
    if isinstance(e, ast.Constant):
        return ('bad', f'fixed value `{astx.src(e)}` instead of self._seed', None, 'seed-forward')
    if isinstance(e, ast.Name):
        ds = C.rd.defs(at, e.id)
        if not ds:
            # module-level object
            for st in repo.module(rel).tree.body:
                if isinstance(st, ast.Assign) and any(astx.path(t) == e.id for t in st.targets):
                    if has_rng_ctor(st.value):
                        return ('bad', f'`{e.id}` is a module-level generator object (`{astx.src(st.value)}`) shared by '
                                'all calls: its state advances with every use, so the second call of a seeded '
                                'generator yields different cases', st, 'seed-stateful')
            return ('unsure', f'`{e.id}` has no local definition')
        v = C.rd.value(at, e.id)
        if v is None:
            return ('unsure', f'`{e.id}` has several definitions')
        d = next(iter(ds))
        if C.g.dominated_by(at, [d], labels=cfgm.noexc) is not None:
            return ('unsure', f'`{e.id}` is not defined on every path')
        return classify_rng(repo, rel, cls, C, v, d, call_funcs, want_object, depth + 1)
    p = astx.path(e)
    if isinstance(e, ast.Attribute) and p and p.startswith('self.') and p.count('.') == 1:
        attr = e.attr
        stores = attr_stores(repo, rel, cls, attr)
        if not stores:
            return ('unsure', f'self.{attr} is never assigned in {cls}')
        inside = [(f, st) for f, st in stores if f.node in [cf.node for cf in call_funcs]]
        outside = [(f, st) for f, st in stores if (f, st) not in inside]
        # a placeholder `self.x = np.random` (the numpy module) outside is overwritten by the inside store(s)
        placeholders = [(f, st) for f, st in outside if astx.path(getattr(st, 'value', None)) in _NP_RANDOM]
        outside = [x for x in outside if x not in placeholders]
        for f, st in outside:
            val = getattr(st, 'value', None)
            if val is not None and has_rng_ctor(val):
                return ('bad', f'self.{attr} is a generator object created once in {f.qualname} '
                        f'(`{astx.src(st)}`) and reused by every call: its state advances with each use, so a seeded '
                        'generator reproduces its cases only on the first call (a preview of the cases followed by '
                        'run_driver, or two runs, give different designs)', st, 'seed-stateful', f)
        if outside:
            # plain alias of the integer seed stored by the constructor?
            for f, st in outside:
                val = getattr(st, 'value', None)
                params = {a.arg for a in f.node.args.args + f.node.args.kwonlyargs}
                if not (isinstance(val, ast.Name) and val.id in params and 'seed' in val.id) or want_object:
                    return ('unsure', f'self.{attr} assigned in {f.qualname} from `{astx.src(val)}`')
            if not inside:
                return ('ok', f'self.{attr} holds the integer seed argument')
        if not inside:
            return ('unsure', f'self.{attr} is only ever the numpy module: seeding is a matter of np.random.seed')
        # assigned inside the calling / (re)initialising function: with a seed given, every path must store a
        # generator built from the seed before the use; the module-level fallback is fine only when seed is None
        if len({f.node for f, _ in inside}) != 1:
            return ('unsure', f'self.{attr} assigned in several methods')
        f = inside[0][0]
        if f.node is not C.fn.node:
            # built by the (re)initialisation step of the iterator (e.g. _setup), used in another method
            C = ctx_of(f)
            at = C.g.exit
        nodes = [C.at(st) for _, st in inside]
        w = C.g.path([C.g.entry], [at], avoid=nodes, edge_ok=seeded_edge_ok(C))
        if w is not None:
            lazy = next((st for _, st in inside if has_rng_ctor(getattr(st, 'value', None) or ast.Pass())), None)
            if lazy is not None:
                return ('bad', f'self.{attr} is created lazily (`{astx.src(lazy)}` is skipped on some paths) and kept '
                        'between calls: later calls continue the random stream instead of restarting from the seed',
                        lazy, 'seed-stateful', f)
            return ('unsure', f'self.{attr} is not rebuilt on every path')
        texts = []
        for _, st in inside:
            d = C.at(st)
            pol = None
            cur = st
            for a in astx.ancestors(st):
                if a is f.node:
                    break
                if isinstance(a, ast.If):
                    t = seed_test(C, a.test, C.at(a))
                    if t is not None:
                        in_body = astx.in_body(st, a, 'body')
                        pol = t if in_body else {'pos': 'neg', 'neg': 'pos'}[t]
                        break
            r = _classify_side(repo, rel, cls, C, st.value, d, call_funcs, want_object, pol, st, f, attr, depth)
            if r[0] != 'ok':
                return r
            texts.append(r[1])
        return ('ok', '; '.join(texts))
    return ('unsure', f'`{astx.src(e)}` not recognised')


def report_rng(out, fn, stmt, r, what):
    """Turn a classify_rng result into a verdict; returns True for ok."""
    if r[0] == 'ok':
        return True
    if r[0] == 'bad':
        out.bad(r[4] if len(r) > 4 else fn, r[2] if r[2] is not None else stmt, f'{what}: {r[1]}', key=r[3])
    else:
        out.unsure(fn, stmt, f'{what}: {r[1]}')
    return False


def check_draws(repo, rel, cls, out, fn, draws, call_funcs, what):
    """Draws made through a generator object (not np.random.*): the object must be rebuilt from self._seed per call.

    Returns (global_draws, all_object_draws_ok)."""
    C = ctx_of(fn)
    glob, okobj = [], True
    for c in draws:
        recv = astx.receiver(c)
        if (astx.path(recv) or '') in ('np.random', 'numpy.random'):
            glob.append(c)
            continue
        st = astx.stmt_of(c)
        r = classify_rng(repo, rel, cls, C, recv, C.at(st), call_funcs, want_object=True)
        if not report_rng(out, fn, st, r, what):
            okobj = False
    return glob, okobj


@rule('C23.seed', floor=4)
def seed(repo, out):
    """Seeded generators restart from self._seed on every call: global seeding dominates the first draw; generator objects / the value given to pydoe are built from self._seed at call time, never kept between calls."""
    # Uniform (DOEDriver): seed and draws in the same function
    fn = repo.func(DG, 'UniformGenerator.__call__')
    C = ctx_of(fn)
    draws = uniform_draws(fn)
    if not draws:
        raise AnalysisError(f'{fn.ident}: no draw')
    glob, okobj = check_draws(repo, DG, 'UniformGenerator', out, fn, draws, [fn], 'UniformGenerator')
    if okobj:
        if glob:
            tg = [C.at(astx.stmt_of(c)) for c in glob]
            if check_global_seed(C, out, fn, tg, 'UniformGenerator'):
                out.ok(fn, astx.stmt_of(glob[0]), 'np.random.seed(self._seed) precedes every np.random.uniform when '
                       'seed is not None')
        else:
            out.ok(fn, astx.stmt_of(draws[0]), 'draws use a generator object rebuilt from self._seed in every call')
    # Uniform (AnalysisDriver): seed in _setup (run from __init__ and on reset), draws in __next__
    fs = repo.func(SU, 'UniformGenerator._setup')
    fnx = repo.func(SU, 'UniformGenerator.__next__')
    Cs = ctx_of(fs)
    dn = uniform_draws(fnx)
    if not dn:
        raise AnalysisError(f'{fnx.ident}: no draw')
    glob, okobj = check_draws(repo, SU, 'UniformGenerator', out, fnx, dn, [fs, fnx], 'sampling UniformGenerator')
    if okobj and not glob:
        out.ok(fnx, astx.stmt_of(dn[0]), 'draws use a generator object rebuilt from self._seed by _setup')
    elif okobj and check_global_seed(Cs, out, fs, [Cs.g.exit], 'sampling UniformGenerator._setup'):
        fi = repo.func(SU, 'UniformGenerator.__init__')
        Ci = ctx_of(fi)
        sup = [n for n in Ci.g.calling('__init__')]
        sets = [n for n in Ci.g.nodes if n.kind == 'stmt' and isinstance(n.ast, ast.Assign) and
                any(astx.path(t) == 'self._seed' for t in n.ast.targets)]
        if not sets:
            out.bad(fi, fi.node, 'self._seed is never stored', key='seed-attr')
        elif sup and Ci.g.path([Ci.g.entry], sup, avoid=sets, labels=cfgm.noexc) is not None:
            out.bad(fi, sets[0].ast, 'self._seed is stored after the base-class constructor ran _setup', key='seed-attr')
        else:
            out.ok(fs, fs.node, '_setup seeds the numpy global generator on every path when seed is not None')
        # ... but _setup runs when the generator is constructed while the draws happen lazily in __next__
        seeds = [n for n in Cs.g.nodes if n.kind in ('stmt',) for c in n.calls()
                 if (astx.call_name(c) or '').endswith('random.seed')]
        if seeds and fs.node is not fnx.node:
            out.bad(fs, seeds[0].ast, 'the process-wide numpy generator is seeded when the generator object is '
                    'constructed (_setup is called from __init__) but the samples are drawn lazily from that shared '
                    'generator in __next__: anything that seeds or draws from np.random between construction and '
                    'iteration changes the cases, e.g. two generators built with the same seed and then iterated '
                    'yield different cases; use a private generator built from self._seed in _setup',
                    key='seed-construction-time')
    # Latin hypercube: the seed must reach pydoe, as a function of self._seed evaluated at call time
    for rel, cls in LHS:
        (cf, call), _ = lhs_parts(repo, rel, cls)
        CC = ctx_of(cf)
        st = astx.stmt_of(call)
        at = CC.at(st)
        kw = astx.kwarg(call, 'random_state')
        if kw is None:
            kw = astx.kwarg(call, 'seed')
        if kw is None:
            if any(k.arg is None for k in call.keywords):
                out.unsure(cf, st, 'lhs called with **kwargs')
                continue
            out.bad(cf, st, 'the seed is not passed to pydoe lhs (random_state=/seed=): lhs then draws '
                    'from a fresh, unseeded generator, which np.random.seed does not control, so a seeded '
                    'LatinHypercubeGenerator is not reproducible', key='seed-forward')
            continue
        r = classify_rng(repo, rel, cls, CC, kw, at, [cf])
        if report_rng(out, cf, st, r, f'{cls}: value given to pydoe lhs as `{astx.src(kw)}`'):
            out.ok(cf, st, f'pydoe lhs is seeded per call: {r[1]}')


# =========================================================================== DOEDriver
def truthy_str(e):
    """True if the expression is certainly a non-empty string."""
    if isinstance(e, ast.Constant) and isinstance(e.value, str):
        return bool(e.value)
    if isinstance(e, ast.JoinedStr):
        return any(isinstance(v, ast.Constant) and v.value for v in e.values)
    if isinstance(e, ast.BinOp) and isinstance(e.op, ast.Add):
        return truthy_str(e.left) or truthy_str(e.right)
    if isinstance(e, ast.BinOp) and isinstance(e.op, ast.Mod) and isinstance(e.left, ast.Constant) and \
            isinstance(e.left.value, str):
        return bool(re.sub(r'%[-#0 +]*\d*(?:\.\d+)?[a-zA-Z%]', '', e.left.value).strip())
    if isinstance(e, ast.Call) and isinstance(e.func, ast.Attribute) and e.func.attr == 'format' and \
            isinstance(e.func.value, ast.Constant) and isinstance(e.func.value.value, str):
        return bool(re.sub(r'\{[^}]*\}', '', e.func.value.value).strip())
    return False


def flag_search(g, starts, targets, flags):
    """Path search with a tiny abstract store for local flag names in `flags`.

    Store values: 'none' | 'truthy' | '?'.  Tests `if x:`, `if not x:`, `if x is None:`, `if x is not None:`
    only take the feasible edge.  Returns a witness path to a target or None.
    """
    from collections import deque
    flags = sorted(flags)
    init = tuple('?' for _ in flags)
    par = {}
    dq = deque()
    for s in starts:
        par[(s, init)] = None
        dq.append((s, init))

    def feasible(test, env):
        """set of possible truth values of test"""
        if isinstance(test, ast.UnaryOp) and isinstance(test.op, ast.Not):
            return {not v for v in feasible(test.operand, env)}
        if isinstance(test, ast.Name) and test.id in flags:
            v = env[flags.index(test.id)]
            return {'none': {False}, 'truthy': {True}}.get(v, {True, False})
        if isinstance(test, ast.Compare) and len(test.ops) == 1 and isinstance(test.left, ast.Name) and \
                test.left.id in flags and isinstance(test.comparators[0], ast.Constant) and \
                test.comparators[0].value is None and isinstance(test.ops[0], (ast.Is, ast.IsNot)):
            v = env[flags.index(test.left.id)]
            isnone = {'none': {True}, 'truthy': {False}}.get(v, {True, False})
            return isnone if isinstance(test.ops[0], ast.Is) else {not x for x in isnone}
        return {True, False}
    while dq:
        n, env = dq.popleft()
        if n in targets:
            p = []
            k = (n, env)
            while k is not None:
                p.append(k[0])
                k = par[k]
            return p[::-1]
        env2 = env
        if n.kind == 'stmt' and isinstance(n.ast, ast.Assign):
            for t in astx.assigned_targets(n.ast):
                if isinstance(t, ast.Name) and t.id in flags:
                    v = n.ast.value
                    nv = 'none' if isinstance(v, ast.Constant) and v.value is None else \
                        'truthy' if truthy_str(v) else '?'
                    l = list(env2)
                    l[flags.index(t.id)] = nv
                    env2 = tuple(l)
        elif n.kind == 'stmt' and isinstance(n.ast, (ast.AugAssign, ast.AnnAssign, ast.Delete)):
            for t in astx.assigned_targets(n.ast):
                if isinstance(t, ast.Name) and t.id in flags:
                    l = list(env2)
                    l[flags.index(t.id)] = '?'
                    env2 = tuple(l)
        allowed = None
        if n.kind == 'test' and isinstance(n.ast, (ast.If, ast.While)):
            allowed = feasible(n.ast.test, env)
        for m, lab in g.succ[n]:
            if allowed is not None and lab in ('true', 'false') and (lab == 'true') not in allowed:
                continue
            # an exception raised by the assignment statement itself leaves the old store
            e = env if lab == 'exc' else env2
            k = (m, e)
            if k not in par:
                par[k] = (n, env)
                dq.append(k)
    return None


_FLAT = ('flatten', 'ravel')


@rule('C23.apply', floor=4)
def apply(repo, out):
    """DOEDriver: every (name, value) of a case reaches _set_design_var(name, value) before the solve; failures re-raise; every case is run."""
    fn = repo.func(DD, 'DOEDriver._run_case')
    C = ctx_of(fn)
    g = C.g
    args = [a.arg for a in fn.node.args.args]
    if len(args) < 2:
        raise AnalysisError(f'{fn.ident}: no case parameter')
    casep = args[1]
    loops = [st for st in astx.walk_stmts(fn.node.body) if isinstance(st, ast.For) and
             isinstance(st.iter, ast.Name) and st.iter.id == casep and C.rd.defs(C.at(st), casep) == {g.entry}]
    if len(loops) != 1:
        raise AnalysisError(f'{fn.ident}: expected one loop over `{casep}`, found {len(loops)}')
    loop = loops[0]
    hdr = C.at(loop)
    bind = hdr     # node that binds (name, value) of the entry
    if isinstance(loop.target, ast.Tuple) and len(loop.target.elts) == 2 and \
            all(isinstance(e, ast.Name) for e in loop.target.elts):
        nv, vv = loop.target.elts[0].id, loop.target.elts[1].id
    else:
        # `for entry in case: name, value = entry` (unpacked first thing in the body)
        nv = None
        if isinstance(loop.target, ast.Name):
            for b in loop.body:
                if isinstance(b, ast.Assign) and len(b.targets) == 1 and isinstance(b.targets[0], ast.Tuple) and \
                        len(b.targets[0].elts) == 2 and all(isinstance(e, ast.Name) for e in b.targets[0].elts) and \
                        isinstance(b.value, ast.Name) and b.value.id == loop.target.id and \
                        C.rd.defs(C.at(b), loop.target.id) == {hdr}:
                    nv, vv = b.targets[0].elts[0].id, b.targets[0].elts[1].id
                    bind = C.at(b)
                    break
        if nv is None:
            out.unsure(fn, loop, 'case entries are not unpacked as (name, value)')
            return
    body = set(g.body_nodes(loop))
    sets = []
    shape_ok = True
    for n in g.nodes:
        if n.kind not in ('stmt', 'test', 'iter', 'with'):
            continue
        for c in n.calls():
            if astx.callee_attr(c) in ('_set_design_var', 'set_design_var') and astx.path(astx.receiver(c)) == 'self':
                sets.append((n, c))
    solves = g.calling('_run_solve_nonlinear', recv='self')
    if not solves:
        raise AnalysisError(f'{fn.ident}: no self._run_solve_nonlinear() call')
    if not sets:
        out.bad(fn, loop, 'the case values are never passed to self._set_design_var: the model is evaluated at its '
                'previous design point', key='apply-missing')
        return
    good = []
    for n, c in sets:
        if n not in body:
            out.bad(fn, n.ast, 'a design variable is set outside the loop over the case entries', key='apply-outside')
            shape_ok = False
            continue
        a0, a1 = astx.arg(c, 0, 'name'), astx.arg(c, 1, 'value')
        extra = [k.arg for k in c.keywords if k.arg not in ('name', 'value')] + [1 for _ in c.args[2:]]
        if a0 is None or a1 is None:
            out.unsure(fn, n.ast, '_set_design_var arguments not recognised')
            shape_ok = False
            continue
        if extra:
            kws = {k.arg: k.value for k in c.keywords}
            harmless = not c.args[2:] and all(
                (k == 'set_remote' and isinstance(v, ast.Constant) and v.value is True) or
                (k == 'units' and isinstance(v, ast.Constant) and v.value is None)
                for k, v in kws.items() if k not in ('name', 'value'))
            if not harmless:
                out.unsure(fn, n.ast, f'_set_design_var called with extra arguments {extra}')
                shape_ok = False
                continue
        name_ok = isinstance(a0, ast.Name) and a0.id == nv and C.rd.defs(n, nv) == {bind}

        def val_ok(e):
            if isinstance(e, ast.Name):
                return e.id == vv and C.rd.defs(n, vv) == {bind}
            if isinstance(e, ast.Call) and isinstance(e.func, ast.Attribute) and e.func.attr in _FLAT and not e.args:
                return val_ok(e.func.value)
            if isinstance(e, ast.Call) and isinstance(e.func, ast.Attribute) and e.func.attr == 'reshape' and \
                    len(e.args) == 1 and astx.src(e.args[0]) in ('-1', '(-1,)'):
                return val_ok(e.func.value)
            if np_call(e, 'ravel', 'asarray', 'atleast_1d') and len(e.args) == 1:
                return val_ok(e.args[0])
            return False
        if name_ok and val_ok(a1):
            good.append(n)
            continue
        simple = lambda e: isinstance(e, (ast.Name, ast.Constant, ast.Subscript)) or \
            (isinstance(e, ast.Call) and isinstance(e.func, ast.Attribute) and isinstance(e.func.value, ast.Name))
        if simple(a0) and simple(a1):
            out.bad(fn, n.ast, f'`{astx.src(c)}` does not pass the entry ({nv}, {vv}) of the case: the model is evaluated '
                    'at a value the generator did not produce', key='apply-args')
        else:
            out.unsure(fn, n.ast, f'arguments of `{astx.src(c)}` not recognised')
        shape_ok = False
    if not shape_ok:
        return
    # (a) every entry is applied
    entry = [m for m, lab in g.succ[hdr] if lab == 'true']
    w = g.path(entry, [hdr] + solves, avoid=good, labels=cfgm.noexc)
    if w is not None:
        out.bad(fn, loop, 'an entry of the case can be passed over without self._set_design_var: the model keeps the '
                'value of the previous case for that variable: ' + g.fmt_path(w), key='apply-skip')
        return
    # the loop cannot be left early towards the solve
    w = g.path([m for n in good for m in g.normal_succ(n)], solves, avoid=[hdr], labels=cfgm.noexc)
    if w is not None:
        out.bad(fn, loop, 'the loop over the case entries can be left before all entries are applied: ' +
                g.fmt_path(w), key='apply-skip')
        return
    out.ok(fn, loop, f'every path through `for {nv}, {vv} in {casep}` calls self._set_design_var({nv}, {vv}[.flatten()])')
    # (b) ORDER
    bad_order = None
    for s in solves:
        if g.dominated_by(s, [hdr], labels=cfgm.noexc) is not None:
            bad_order = (s, 'the model can be solved before the case is applied: ' +
                         g.fmt_path(g.dominated_by(s, [hdr], labels=cfgm.noexc)))
        r = g.reach(g.normal_succ(s), labels=cfgm.noexc)
        if r & set(good):
            bad_order = (s, 'design variables are (also) set after the model was solved')
    if bad_order:
        out.bad(fn, bad_order[0].ast, bad_order[1], key='apply-order')
    else:
        out.ok(fn, solves[0].ast, 'self._run_solve_nonlinear() runs after the loop over the case entries, never before')
    # (c) a failing assignment never continues to the solve / a normal return
    flags = set()
    for n in g.nodes:
        if n.kind == 'stmt' and isinstance(n.ast, ast.Assign):
            for t in n.ast.targets:
                if isinstance(t, ast.Name) and (isinstance(n.ast.value, ast.Constant) and n.ast.value.value is None
                                                or truthy_str(n.ast.value)):
                    flags.add(t.id)
    starts = [m for n in good for m, lab in g.succ[n] if lab == 'exc' and m is not g.raise_exit]
    w = flag_search(g, starts, set(solves) | {g.exit}, flags) if starts else None
    if w is not None:
        out.bad(fn, good[0].ast, 'an exception raised while assigning a design variable can be swallowed: execution '
                'continues (' + g.fmt_path(w) + ') and the model is solved / recorded at a point that is not the '
                'generated case', key='apply-swallow')
    else:
        out.ok(fn, good[0].ast, 'an exception from self._set_design_var always leaves _run_case by an exception')
    # (d) run(): every generated case is run
    fr = repo.func(DD, 'DOEDriver.run')
    Cr = ctx_of(fr)
    gr = Cr.g
    rc = [(n, c) for n in gr.nodes if n.kind == 'stmt' for c in n.calls()
          if astx.callee_attr(c) == '_run_case' and astx.path(astx.receiver(c)) == 'self']
    if not rc:
        raise AnalysisError(f'{fr.ident}: no self._run_case call')
    for n, c in rc:
        lp = next((l for l in Cr.loops_of(n.ast)), None)
        if lp is None or not isinstance(lp.target, ast.Name):
            out.unsure(fr, n.ast, '_run_case is not called in a loop over the generated cases')
            continue
        a = astx.arg(c, 0, 'case')
        lh = Cr.at(lp)
        if not (isinstance(a, ast.Name) and a.id == lp.target.id and Cr.rd.defs(n, a.id) == {lh}):
            out.bad(fr, n.ast, f'_run_case gets `{astx.src(a)}` instead of the generated case `{lp.target.id}`',
                    key='run-case-arg')
            continue
        entry = [m for m, lab in gr.succ[lh] if lab == 'true']
        w = gr.path(entry, [lh], avoid=[n], labels=cfgm.noexc)
        if w is not None:
            out.bad(fr, n.ast, 'a generated case can be skipped without being run: ' + gr.fmt_path(w),
                    key='run-case-skip')
            continue
        # the generator is called with the driver's own design-variable metadata
        it = lp.iter
        a0 = it.args[0] if isinstance(it, ast.Call) and it.args else None
        a0v = a0
        if isinstance(a0, ast.Name):
            a0v = Cr.rd.value(lh, a0.id) or a0
        if a0 is None or astx.path(a0v) != 'self._designvars':
            out.unsure(fr, lp, 'generator is not called with self._designvars')
            continue
        out.ok(fr, n.ast, 'every case generated from self._designvars is passed to self._run_case exactly as generated')


def _expand(C, e, at, subst, depth=0):
    """Copy of e with local names replaced by their unique definitions (and `subst` path renames)."""
    if depth > 8:
        return e
    if isinstance(e, ast.Name):
        if e.id in subst:
            return subst[e.id]
        v = C.rd.value(at, e.id)
        if v is not None:
            d = next(iter(C.rd.defs(at, e.id)))
            # chained assignment `a = self.x = expr`
            return _expand(C, v, d, subst, depth + 1)
        ds = C.rd.defs(at, e.id)
        if len(ds) == 1:
            d = next(iter(ds))
            if d.kind == 'stmt' and isinstance(d.ast, ast.Assign) and len(d.ast.targets) > 1:
                return _expand(C, d.ast.value, d, subst, depth + 1)
        return e
    if isinstance(e, ast.AST):
        new = e.__class__()
        for f in e._fields:
            v = getattr(e, f, None)
            if isinstance(v, list):
                setattr(new, f, [_expand(C, x, at, subst, depth) if isinstance(x, ast.AST) else x for x in v])
            elif isinstance(v, ast.AST):
                setattr(new, f, _expand(C, v, at, subst, depth))
            else:
                setattr(new, f, v)
        return new
    return e


@rule('C23.partition', floor=1)
def partition(repo, out):
    """Parallel DOE: case i runs on colour i % ncolors, with the same ncolors/colour the communicator was split by."""
    fp = repo.func(DD, 'DOEDriver._parallel_generator')
    fs = repo.func(DD, 'DOEDriver._setup_comm')
    Cp, Cs = ctx_of(fp), ctx_of(fs)
    ys = [n for n in Cp.g.nodes if n.kind == 'stmt' and any(isinstance(w_, ast.Yield) for w_ in astx.walk(n.ast))]
    if len(ys) != 1:
        raise AnalysisError(f'{fp.ident}: expected one yield')
    y = ys[0]
    lp = next((l for l in Cp.loops_of(y.ast)), None)
    if lp is None or not (isinstance(lp.iter, ast.Call) and astx.call_name(lp.iter) == 'enumerate' and
                          isinstance(lp.target, ast.Tuple) and len(lp.target.elts) == 2 and
                          all(isinstance(e, ast.Name) for e in lp.target.elts)):
        out.unsure(fp, y.ast, 'cases are not enumerated')
        return
    iv, cv = lp.target.elts[0].id, lp.target.elts[1].id
    yv = next(w_ for w_ in astx.walk(y.ast) if isinstance(w_, ast.Yield)).value
    if not (isinstance(yv, ast.Name) and yv.id == cv):
        out.bad(fp, y.ast, f'yields `{astx.src(yv)}` instead of the enumerated case `{cv}`', key='partition-yield')
        return
    guards = [a for a in astx.ancestors(y.ast) if isinstance(a, ast.If) and astx.in_body(y.ast, lp, 'body')
              and astx.in_body(a, lp, 'body')]
    if len(guards) != 1 or not astx.in_body(y.ast, guards[0], 'body'):
        out.unsure(fp, y.ast, 'case filter not a single `if` around the yield')
        return
    t = guards[0].test
    if not (isinstance(t, ast.Compare) and len(t.ops) == 1):
        out.unsure(fp, guards[0], 'case filter is not a comparison')
        return
    l, r = t.left, t.comparators[0]
    if not (isinstance(l, ast.BinOp) and isinstance(l.op, ast.Mod)):
        l, r = r, l
    if not (isinstance(l, ast.BinOp) and isinstance(l.op, ast.Mod) and isinstance(l.left, ast.Name) and
            l.left.id == iv):
        out.unsure(fp, guards[0], f'case filter is not of the form `{iv} % ncolors == color`')
        return
    if not isinstance(t.ops[0], ast.Eq):
        out.bad(fp, guards[0], f'the case filter `{astx.src(t)}` does not select exactly one colour per case: cases are '
                'run on several process groups (or on none)', key='partition-filter')
        return
    at = Cp.at(guards[0])
    # _setup_comm: self._problem_comm = comm ; color = self._color = comm.rank % ncolors
    commp = [a.arg for a in fs.node.args.args][1] if len(fs.node.args.args) > 1 else None
    stores = {}
    for n in Cs.g.nodes:
        if n.kind == 'stmt' and isinstance(n.ast, ast.Assign):
            for tt in n.ast.targets:
                p = astx.path(tt)
                if p in ('self._problem_comm', 'self._color'):
                    stores.setdefault(p, []).append(n)
    if len(stores.get('self._color', [])) != 1 or len(stores.get('self._problem_comm', [])) != 1:
        out.unsure(fs, fs.node, 'self._color / self._problem_comm not stored exactly once in _setup_comm')
        return
    pc = stores['self._problem_comm'][0]
    if not (isinstance(pc.ast.value, ast.Name) and pc.ast.value.id == commp):
        out.unsure(fs, pc.ast, 'self._problem_comm is not the communicator argument')
        return
    cn = stores['self._color'][0]
    subst = {commp: ast.parse('self._problem_comm', mode='eval').body}
    col_s = _expand(Cs, cn.ast.value, cn, subst)
    if not (isinstance(col_s, ast.BinOp) and isinstance(col_s.op, ast.Mod)):
        out.unsure(fs, cn.ast, f'colour `{astx.src(col_s)}` is not `rank % ncolors`')
        return
    if astx.path(col_s.left) != 'self._problem_comm.rank':
        out.unsure(fs, cn.ast, f'colour is not derived from the rank: {astx.src(col_s)}')
        return
    ncol_s = col_s.right
    ncol_p = _expand(Cp, l.right, at, {})
    col_p = _expand(Cp, r, at, {})
    if astx.path(col_p) != 'self._color':
        if isinstance(col_p, ast.Constant) or astx.path(col_p) in ('self._problem_comm.rank', 'self.comm.rank'):
            out.bad(fp, guards[0], f'cases are selected by `{astx.src(col_p)}` instead of the colour the communicator '
                    'was split by', key='partition-colour')
        else:
            out.unsure(fp, guards[0], f'selected colour `{astx.src(col_p)}` not recognised')
        return
    if not astx.same(ncol_s, ncol_p):
        out.bad(fp, guards[0], f'cases are dealt out modulo `{astx.src(ncol_p)}` but the communicator was split into '
                f'`{astx.src(ncol_s)}` colours: some cases are run by no process group (never evaluated) or the '
                'same case by several', key='partition-modulus')
        return
    out.ok(fp, guards[0], f'case i is run by colour i % ({astx.src(ncol_p)}), the number of colours of the split')


# =========================================================================== per-variable level lookup
class _Raise(Exception):
    pass


def _lv_eval(e, env, sc, pname):
    """Evaluate an expression of the level-lookup function in scenario sc = (is_int, has_name, has_default)."""
    is_int, has_name, has_default = sc
    if isinstance(e, ast.Constant):
        return ('const', e.value)
    if isinstance(e, ast.Name):
        if e.id in env:
            return env[e.id]
        if e.id == pname:
            return ('name',)
        return ('global', e.id)
    if astx.path(e) == 'self._levels':
        return ('LEVELS',)

    def has(k):
        if k == ('name',):
            return has_name
        if k == ('const', 'default'):
            return has_default
        raise _NoEval(f'key {k}')

    def item(k):
        return ('item', 'name' if k == ('name',) else 'default')
    if isinstance(e, ast.Call):
        cn = astx.call_name(e)
        if cn == 'isinstance' and len(e.args) == 2:
            x = _lv_eval(e.args[0], env, sc, pname)
            ty = astx.path(e.args[1])
            if x == ('LEVELS',) and ty in ('int', 'dict'):
                return ('bool', is_int if ty == 'int' else not is_int)
            raise _NoEval(astx.src(e))
        if isinstance(e.func, ast.Attribute) and e.func.attr == 'get' and 1 <= len(e.args) <= 2 and not e.keywords:
            x = _lv_eval(e.func.value, env, sc, pname)
            if x != ('LEVELS',):
                raise _NoEval(astx.src(e))
            if is_int:
                raise _Raise()
            k = _lv_eval(e.args[0], env, sc, pname)
            if has(k):
                return item(k)
            if len(e.args) == 2:
                return _lv_eval(e.args[1], env, sc, pname)
            return ('const', None)
        raise _NoEval(astx.src(e))
    if isinstance(e, ast.Subscript):
        x = _lv_eval(e.value, env, sc, pname)
        if x != ('LEVELS',):
            raise _NoEval(astx.src(e))
        if is_int:
            raise _Raise()
        k = _lv_eval(e.slice, env, sc, pname)
        if has(k):
            return item(k)
        raise _Raise()
    if isinstance(e, ast.Compare) and len(e.ops) == 1 and isinstance(e.ops[0], (ast.In, ast.NotIn)):
        x = _lv_eval(e.comparators[0], env, sc, pname)
        if x != ('LEVELS',):
            raise _NoEval(astx.src(e))
        if is_int:
            raise _Raise()
        v = has(_lv_eval(e.left, env, sc, pname))
        return ('bool', v if isinstance(e.ops[0], ast.In) else not v)
    if isinstance(e, ast.UnaryOp) and isinstance(e.op, ast.Not):
        x = _lv_eval(e.operand, env, sc, pname)
        if x[0] != 'bool':
            raise _NoEval(astx.src(e))
        return ('bool', not x[1])
    if isinstance(e, ast.BoolOp):
        vals = []
        for v in e.values:
            x = _lv_eval(v, env, sc, pname)
            if x[0] != 'bool':
                raise _NoEval(astx.src(e))
            vals.append(x[1])
            if isinstance(e.op, ast.And) and not x[1]:
                return ('bool', False)
            if isinstance(e.op, ast.Or) and x[1]:
                return ('bool', True)
        return ('bool', all(vals) if isinstance(e.op, ast.And) else any(vals))
    if isinstance(e, ast.IfExp):
        t = _lv_eval(e.test, env, sc, pname)
        if t[0] != 'bool':
            raise _NoEval(astx.src(e))
        return _lv_eval(e.body if t[1] else e.orelse, env, sc, pname)
    raise _NoEval(astx.src(e))


def _lv_run(body, env, sc, pname):
    for st in body:
        if isinstance(st, ast.Assign) and len(st.targets) == 1 and isinstance(st.targets[0], ast.Name):
            env[st.targets[0].id] = _lv_eval(st.value, env, sc, pname)
        elif isinstance(st, ast.If):
            t = _lv_eval(st.test, env, sc, pname)
            if t[0] != 'bool':
                raise _NoEval(astx.src(st))
            r = _lv_run(st.body if t[1] else st.orelse, env, sc, pname)
            if r is not None:
                return r
        elif isinstance(st, ast.Return):
            if st.value is None:
                return ('const', None)
            return _lv_eval(st.value, env, sc, pname)
        elif isinstance(st, ast.Raise):
            raise _Raise()
        elif isinstance(st, ast.Pass):
            continue
        else:
            raise _NoEval(astx.src(st))
    return None


@rule('C23.dvlevels', floor=2)
def dvlevels(repo, out):
    """Level lookup: an int applies to every variable; a dict gives levels[name], else levels['default'], else the module default."""
    for rel, cls, meth in PYDOE:
        fn = None
        for nm in LEVEL_FUNCS:
            fn = fn or repo.try_func(rel, f'{cls}.{nm}')
        if fn is None:
            raise AnalysisError(f'{rel}:{cls}: level lookup function vanished')
        params = [a.arg for a in fn.node.args.args]
        if len(params) != 2:
            out.unsure(fn, fn.node, 'signature not (self, name)')
            continue
        pname = params[1]
        want = {(True, False, False): ('LEVELS',), (False, True, True): ('item', 'name'),
                (False, True, False): ('item', 'name'), (False, False, True): ('item', 'default')}
        scen = list(want) + [(False, False, False)]
        desc = {(True, False, False): 'levels is an int', (False, True, True): 'dict with the name and "default"',
                (False, True, False): 'dict with the name only', (False, False, True): 'dict with "default" only',
                (False, False, False): 'dict with neither'}
        bad = None
        try:
            for sc in scen:
                try:
                    r = _lv_run(astx.strip_doc(fn.node.body), {}, sc, pname)
                except _Raise:
                    r = ('raise',)
                if r is None:
                    r = ('const', None)
                if sc in want:
                    if r != want[sc]:
                        bad = (sc, r, want[sc])
                        break
                elif r[0] not in ('const', 'global') or r == ('const', None):
                    bad = (sc, r, ('module default',))
                    break
        except _NoEval as ex:
            out.unsure(fn, fn.node, f'level lookup not evaluable: {ex}')
            continue
        if bad:
            sc, r, w = bad
            out.bad(fn, fn.node, f'when {desc[sc]} the level count of a variable is {" ".join(map(str, r))}, expected '
                    f'{" ".join(map(str, w))}: the design does not enumerate the levels the user requested for that '
                    'variable', key='dvlevels-lookup')
        else:
            out.ok(fn, fn.node, 'int -> self._levels; dict -> [name], else ["default"], else the module default '
                   '(5 scenarios evaluated)')


# =========================================================================== iteration order of layout producers
_REORDER = {'sorted': 'sorted', 'reversed': 'reversed', 'set': 'set', 'frozenset': 'set'}
_KEEP = ('list', 'tuple', 'iter', 'dict', 'OrderedDict', 'enumerate')


def order_key(C, e, at, depth=0):
    """(wrappers, base path) of an iterable expression: which container, visited in which order."""
    if depth > 8 or e is None:
        return None
    if isinstance(e, ast.Call):
        cn = astx.call_name(e)
        if isinstance(e.func, ast.Attribute) and e.func.attr in ('items', 'keys', 'values') and not e.args:
            return order_key(C, e.func.value, at, depth + 1)
        if cn in _REORDER and e.args:
            k = order_key(C, e.args[0], at, depth + 1)
            return None if k is None else ((_REORDER[cn],) + k[0], k[1])
        if cn and cn.split('.')[-1] in _KEEP and len(e.args) >= 1:
            return order_key(C, e.args[0], at, depth + 1)
        return None
    if isinstance(e, ast.Subscript) and isinstance(e.slice, ast.Slice):
        k = order_key(C, e.value, at, depth + 1)
        if k is None:
            return None
        st = e.slice.step
        if st is None and e.slice.lower is None and e.slice.upper is None:
            return k
        if isinstance(st, ast.UnaryOp) and isinstance(st.op, ast.USub) and isinstance(st.operand, ast.Constant) and \
                st.operand.value == 1 and e.slice.lower is None and e.slice.upper is None:
            return (('reversed',) + k[0], k[1])
        return (('sliced',) + k[0], k[1])
    if isinstance(e, ast.Name):
        ds = C.rd.defs(at, e.id)
        if ds == {C.g.entry} or not ds:
            return ((), e.id)
        v = C.rd.value(at, e.id)
        if v is None:
            return None
        return order_key(C, v, next(iter(ds)), depth + 1)
    p = astx.path(e)
    if p:
        return ((), p)
    return None


def _norm_order(k):
    """sorted(...) fixes the order whatever happened inside it."""
    if k is None:
        return None
    w = []
    for x in k[0]:
        w.append(x)
        if x in ('sorted', 'set'):
            break
    return (tuple(w), k[1])


def _comp_iter(v):
    """Iterable of the comprehension that builds a dict of sizes: dict([... for .. in X]) / {..: .. for .. in X}."""
    if isinstance(v, ast.Call) and v.args and isinstance(v.args[0], (ast.ListComp, ast.GeneratorExp)):
        v = v.args[0]
    if isinstance(v, (ast.ListComp, ast.GeneratorExp, ast.DictComp)) and len(v.generators) == 1:
        return v.generators[0]
    return None


@rule('C23.order', floor=9)
def order(repo, out):
    """Sizes, level list, level-table rows and case assembly all visit the design variables in the same order."""
    for P in pydoes(repo):
        C = P.C
        prods = []     # (label, func, stmt, key, filtered)
        # reference: the level-table loop
        ref = _norm_order(order_key(C, P.t_dv.iter, C.at(P.t_dv)))
        if ref is None:
            out.unsure(P.fn, P.t_dv, f'iterable of the level-table loop not recognised: {astx.src(P.t_dv.iter)}')
            continue
        # self._sizes built in this function
        for st in astx.walk_stmts(P.fn.node.body):
            if isinstance(st, ast.Assign) and any(astx.path(t) == 'self._sizes' for t in st.targets):
                gen = _comp_iter(st.value)
                if gen is None:
                    prods.append(('sizes of the variables (column layout of the design)', P.fn, st, None, False))
                else:
                    prods.append(('sizes of the variables (column layout of the design)', P.fn, st,
                                  _norm_order(order_key(C, gen.iter, C.at(st))), bool(gen.ifs)))
        if not prods:
            out.unsure(P.fn, P.fn.node, 'self._sizes is not built in this function')
            continue
        # case assembly loops
        seen = set()
        for st, off_e, idx_e in P.reads:
            dv = next((l for l in C.loops_of(st) if is_items_loop(l)), None)
            if dv is not None and id(dv) not in seen:
                seen.add(id(dv))
                prods.append(('case assembly', P.fn, dv, _norm_order(order_key(C, dv.iter, C.at(dv))), False))
        # level list: iterates self._sizes, so it inherits the order of the sizes dict
        fa = repo.func(P.rel, f'{P.cls}._get_all_levels')
        CA = ctx_of(fa)
        for w_ in astx.walk(fa.node):
            if isinstance(w_, (ast.ListComp, ast.GeneratorExp)) and len(w_.generators) == 1:
                gen = w_.generators[0]
                k = order_key(CA, gen.iter, CA.at(astx.stmt_of(w_)))
                if k is not None and k[1] == 'self._sizes' and prods[0][3] is not None:
                    # the dict of sizes keeps the order in which it was built (above)
                    k = _norm_order((k[0] + prods[0][3][0], prods[0][3][1]))
                    prods.append(('level list of the design', fa, astx.stmt_of(w_), k, bool(gen.ifs)))
                else:
                    prods.append(('level list of the design', fa, astx.stmt_of(w_), None, False))
        for lp_ in [st_ for st_ in astx.walk_stmts(fa.node.body) if isinstance(st_, ast.For)]:
            k = order_key(CA, lp_.iter, CA.at(lp_))
            if k is not None and k[1] == 'self._sizes' and prods[0][3] is not None:
                k = _norm_order((k[0] + prods[0][3][0], prods[0][3][1]))
                prods.append(('level list of the design', fa, lp_, k, False))
            else:
                prods.append(('level list of the design', fa, lp_, None, False))
        # sampling twin: values are matched to names positionally by AnalysisGenerator.__next__
        if P.rel == SP:
            AG = 'openmdao/drivers/analysis_generator.py'
            fx = repo.func(AG, 'AnalysisGenerator.__next__')
            CX = ctx_of(fx)
            lps = [st for st in astx.walk_stmts(fx.node.body) if isinstance(st, ast.For)]
            if len(lps) != 1:
                out.unsure(fx, fx.node, 'expected one loop naming the values')
            else:
                prods.append(('naming of the case values', fx, lps[0],
                              _norm_order(order_key(CX, lps[0].iter, CX.at(lps[0]))), False))
        out.ok(P.fn, P.t_dv, f'level-table rows follow `{astx.src(P.t_dv.iter)}`')
        for label, f, st, k, filt in prods:
            if k is None:
                out.unsure(f, st, f'{label}: iterable not recognised')
            elif k[1] != ref[1]:
                out.unsure(f, st, f'{label}: iterates `{k[1]}`, the level table iterates `{ref[1]}`')
            elif k[0] != ref[0] or filt:
                how = '/'.join(k[0]) or 'plain'
                if filt and k[0] == ref[0]:
                    how = 'filtered'
                out.bad(f, st, f'{label} visits the design variables in {how} order while the level table visits them '
                        f'in {"/".join(ref[0]) or "declaration"} order: row/column `off` of the design then belongs to '
                        'one variable in the design matrix and to another in the level table, so a variable is '
                        'indexed with the level count of another one (NaN / out-of-bounds values, levels never '
                        'reached) whenever names are not declared in that order', key='order-' + label.split()[0])
            else:
                out.ok(f, st, f'{label}: same order as the level table')


# =========================================================================== unit conversion when a case value is applied
DRV = 'openmdao/core/driver.py'


@rule('C23.units', floor=2)
def units(repo, out):
    """Driver._set_design_var converts the applied value FROM the design-variable units TO the units of the source output."""
    fn = repo.func(DRV, 'Driver._set_design_var')
    C = ctx_of(fn)
    params = [a.arg for a in fn.node.args.args]

    def role(e, at, depth=0):
        """'dv' (units the value is given in) | 'src' (units of the model output) | None."""
        if depth > 4:
            return None
        if isinstance(e, ast.Name):
            ds = C.rd.defs(at, e.id)
            if ds == {C.g.entry} and e.id in params and 'unit' in e.id:
                return 'dv'
            v = C.rd.value(at, e.id)
            if v is not None:
                return role(v, next(iter(ds)), depth + 1)
            return None
        if isinstance(e, ast.Subscript) and astx.const_str(e.slice) == 'units':
            b = e.value
            if isinstance(b, ast.Name):
                v = C.rd.value(at, b.id)
                if v is not None and isinstance(v, ast.Subscript) and astx.path(v.value) == 'self._designvars':
                    return 'dv'
                return None
            if isinstance(b, ast.Subscript) and astx.path(b.value) == 'self._designvars':
                return 'dv'
            p = xpath(b, at) or ''
            if 'abs2meta' in p and "['output']" in p:
                return 'src'
        return None

    def xpath(e, at, depth=0):
        """Access path with local temporaries expanded (`t = a.b['output']; t[x]` -> a.b['output'][*])."""
        if depth > 6:
            return None
        if isinstance(e, ast.Name):
            v = C.rd.value(at, e.id)
            if v is not None:
                return xpath(v, next(iter(C.rd.defs(at, e.id))), depth + 1)
            return e.id
        if isinstance(e, ast.Attribute):
            b_ = xpath(e.value, at, depth + 1)
            return None if b_ is None else f'{b_}.{e.attr}'
        if isinstance(e, ast.Subscript):
            b_ = xpath(e.value, at, depth + 1)
            if b_ is None:
                return None
            return f'{b_}[{e.slice.value!r}]' if isinstance(e.slice, ast.Constant) else f'{b_}[*]'
        return astx.path(e)

    def given_side(test, cands):
        """'pos' if test true => the units expression is not None, 'neg' if test true => it is None, else None."""
        if isinstance(test, ast.UnaryOp) and isinstance(test.op, ast.Not):
            return {'pos': 'neg', 'neg': 'pos'}.get(given_side(test.operand, cands))
        if isinstance(test, ast.Compare) and len(test.ops) == 1 and \
                isinstance(test.ops[0], (ast.Is, ast.IsNot, ast.Eq, ast.NotEq)):
            a, b = test.left, test.comparators[0]
            if isinstance(a, ast.Constant) and a.value is None:
                a, b = b, a
            if isinstance(b, ast.Constant) and b.value is None and any(astx.same(a, c_) for c_ in cands):
                return 'pos' if isinstance(test.ops[0], (ast.IsNot, ast.NotEq)) else 'neg'
        if any(astx.same(test, c_) for c_ in cands):
            return 'pos'      # truthiness of a units string
        return None
    calls = [(n, c) for n in C.g.nodes if n.kind == 'stmt' for c in n.calls() if astx.callee_attr(c) == 'convert_units']
    if not calls:
        raise AnalysisError(f'{fn.ident}: no convert_units call')
    for n, c in calls:
        if len(c.args) != 3 or c.keywords:
            out.unsure(fn, n.ast, 'convert_units call shape not recognised')
            continue
        val, frm, to = c.args
        rf, rt = role(frm, n), role(to, n)
        if rf is None or rt is None:
            out.unsure(fn, n.ast, f'units `{astx.src(frm)}` / `{astx.src(to)}` not recognised')
            continue
        if (rf, rt) != ('dv', 'src'):
            out.bad(fn, n.ast, f'the applied value is converted from {"the source output" if rf == "src" else "design-variable"} '
                    f'units (`{astx.src(frm)}`) to {"the source output" if rt == "src" else "design-variable"} units '
                    f'(`{astx.src(to)}`); a value given in design-variable units must be converted FROM them TO the '
                    'units of the source output: with differing units the model is evaluated at another point than the '
                    'generated case (and outside the declared bounds)', key='units-direction')
            continue
        # converted value is the stored one and goes back to the same slot
        tgt = n.ast.targets[0] if isinstance(n.ast, ast.Assign) and len(n.ast.targets) == 1 else None
        if tgt is None or not astx.same(tgt, val):
            out.unsure(fn, n.ast, 'converted value is not written back to the slot it was read from')
            continue
        # the branch is taken exactly when these units are given
        cands = [frm]
        if isinstance(frm, ast.Name) and C.rd.value(n, frm.id) is not None:
            cands.append(C.rd.value(n, frm.id))
        side = None
        for a in astx.ancestors(n.ast):
            if a is fn.node:
                break
            if isinstance(a, ast.If):
                t = given_side(a.test, cands)
                if t is not None:
                    side = t if astx.in_body(n.ast, a, 'body') else {'pos': 'neg', 'neg': 'pos'}[t]
                    break
        if side is None:
            out.unsure(fn, n.ast, f'conversion is not guarded by a test on `{astx.src(frm)}`')
            continue
        if side == 'neg':
            out.bad(fn, n.ast, f'the conversion from `{astx.src(frm)}` runs on the branch where `{astx.src(frm)}` is None '
                    '(and not where units are given): a value given in other units than the source is applied '
                    'unconverted', key='units-guard')
            continue
        out.ok(fn, n.ast, f'value converted from `{astx.src(frm)}` (design-variable units) to the source units and '
               'written back to the same elements')


# =========================================================================== sample dictionaries (AnalysisDriver twins)
AG = 'openmdao/drivers/analysis_generator.py'
AD = 'openmdao/drivers/analysis_driver.py'
SAMPLE_SLOTS = ('units', 'indices')


def _slot_read(C, e, at, depth=0):
    """Key literal K if e reads slot K of a dictionary: `M.get(K[, None])` / `M[K]` (through local aliases)."""
    if depth > 4:
        return None
    if isinstance(e, ast.Name):
        v = C.rd.value(at, e.id)
        if v is None:
            return None
        return _slot_read(C, v, next(iter(C.rd.defs(at, e.id))), depth + 1)
    if isinstance(e, ast.Call) and isinstance(e.func, ast.Attribute) and e.func.attr == 'get' and \
            1 <= len(e.args) <= 2 and not e.keywords:
        if len(e.args) == 2 and not (isinstance(e.args[1], ast.Constant) and e.args[1].value is None):
            return None
        return astx.const_str(e.args[0])
    if isinstance(e, ast.Subscript):
        return astx.const_str(e.slice)
    return None


@rule('C23.slots', floor=7)
def slots(repo, out):
    """Sample dictionaries: 'units'/'indices' of a sample are the factor's own 'units'/'indices', and reach set_val in those positions."""
    # producers
    for rel, qn in ((SU, 'UniformGenerator.__next__'), (AG, 'AnalysisGenerator.__next__')):
        fn = repo.func(rel, qn)
        C = ctx_of(fn)
        want = set(SAMPLE_SLOTS) | {'val'}
        dicts = [w_ for w_ in astx.walk(fn.node) if isinstance(w_, ast.Dict) and
                 {astx.const_str(k) for k in w_.keys if k is not None} & want]
        if len(dicts) != 1:
            out.unsure(fn, fn.node, f'expected one sample dictionary literal, found {len(dicts)}')
            continue
        d = dicts[0]
        st = astx.stmt_of(d)
        at = C.at(st)
        slotmap = {astx.const_str(k): (v_, at) for k, v_ in zip(d.keys, d.values) if astx.const_str(k)}
        # entries added afterwards: `E = {...}; E['units'] = ...` (same dictionary object, same iteration)
        if isinstance(st, ast.Assign) and st.value is d and len(st.targets) == 1 and isinstance(st.targets[0], ast.Name):
            en = st.targets[0].id
            late_ok = True
            for n_ in C.g.nodes:
                if n_.kind == 'stmt' and isinstance(n_.ast, ast.Assign) and len(n_.ast.targets) == 1:
                    t_ = n_.ast.targets[0]
                    if isinstance(t_, ast.Subscript) and isinstance(t_.value, ast.Name) and t_.value.id == en and \
                            C.rd.defs(n_, en) == {at}:
                        k_ = astx.const_str(t_.slice)
                        if k_ is None or C.g.dominated_by(n_, [at], labels=cfgm.noexc) is not None:
                            late_ok = False
                        elif any(isinstance(a_, (ast.If, ast.Try, ast.While)) and a_ is not fn.node and
                                 astx.in_body(st, a_, 'body') is False and
                                 (astx.in_body(n_.ast, a_, 'body') or astx.in_body(n_.ast, a_, 'orelse'))
                                 for a_ in astx.ancestors(n_.ast)):
                            late_ok = False      # conditional entry
                        else:
                            slotmap[k_] = (n_.ast.value, n_)
            if not late_ok:
                out.unsure(fn, st, f'entries of `{en}` are added conditionally / under computed keys')
                continue
        keys = list(slotmap)
        if 'val' not in keys:
            out.bad(fn, st, "the sample dictionary has no 'val' entry", key='slot-val')
            continue
        for slot in SAMPLE_SLOTS:
            if slot not in keys:
                out.bad(fn, st, f"the sample dictionary drops the factor's {slot!r}: the value is applied in the wrong "
                        f"{'units' if slot == 'units' else 'elements of the variable'}", key=f'slot-{slot}')
                continue
            v, v_at = slotmap[slot]
            k = _slot_read(C, v, v_at)
            if k is None:
                out.unsure(fn, st, f'value of {slot!r} not recognised: {astx.src(v)}')
            elif k != slot:
                out.bad(fn, st, f"the {slot!r} entry of the sample is filled from the factor's {k!r} "
                        f"(`{astx.src(v)}`): " +
                        ("an indexed factor is applied to the whole variable (or to the elements named by another "
                         "entry), so the model is evaluated at points that were never generated"
                         if slot == 'indices' else "the value is converted with the wrong units / not converted"),
                        key=f'slot-{slot}')
            else:
                out.ok(fn, st, f"{slot!r} <- factor[{slot!r}]")
    # consumer
    fn = repo.func(AD, 'AnalysisDriver._run_sample')
    C = ctx_of(fn)
    calls = [(n, c) for n in C.g.nodes if n.kind == 'stmt' for c in n.calls()
             if astx.callee_attr(c) == 'set_val' and len(c.args) + len(c.keywords) >= 2]
    if len(calls) != 1:
        out.unsure(fn, fn.node, f'expected one set_val call, found {len(calls)}')
        return
    n, c = calls[0]
    for pos, slot, kwn in ((1, 'val', 'val'), (2, 'units', 'units'), (3, 'indices', 'indices')):
        a = astx.arg(c, pos, kwn)
        if a is None:
            out.bad(fn, n.ast, f"set_val is called without the sample's {slot!r}", key=f'slot-{slot}')
            continue
        k = _slot_read(C, a, n)
        if k is None:
            out.unsure(fn, n.ast, f'argument `{astx.src(a)}` not recognised')
        elif k != slot:
            out.bad(fn, n.ast, f"set_val receives the sample's {k!r} as its {kwn} argument", key=f'slot-{slot}')
        else:
            out.ok(fn, n.ast, f"set_val {kwn} <- sample[{slot!r}]")


# =========================================================================== self-test (part 1: pyDOE)
_TAB_DG = ("            for k in range(size):\n"
           "                lower = meta['lower']\n"
           "                if isinstance(lower, np.ndarray):\n"
           "                    lower = lower[k]\n")
_TAB_SP = ("                for k in range(size):\n"
           "                    lower = meta['lower']\n"
           "                    if isinstance(lower, np.ndarray):\n"
           "                        lower = lower[k]\n")
selftest(
    'C23',
    # ---- loopdef (the F6 shape transplanted)
    Mutant('loopdef-hoist-lower', DG, _TAB_DG,
           "            lower = meta['lower']\n"
           "            for k in range(size):\n"
           "                if isinstance(lower, np.ndarray):\n"
           "                    lower = lower[k]\n", 'C23.loopdef'),
    Mutant('loopdef-hoist-upper-sampling', SP,
           "                    upper = meta['upper']\n                    if isinstance(upper, np.ndarray):\n",
           "                    if k == 0:\n                        upper = meta['upper']\n"
           "                    if isinstance(upper, np.ndarray):\n", 'C23.loopdef'),
    # ---- table
    Mutant('table-upper-from-lower', DG, "                upper = meta['upper']\n                if isinstance(upper, np.ndarray):\n                    upper = upper[k]\n\n                levels",
           "                upper = meta['lower']\n                if isinstance(upper, np.ndarray):\n                    upper = upper[k]\n\n                levels", 'C23.table'),
    Mutant('table-elem-zero', DG, "                    lower = lower[k]\n", "                    lower = lower[0]\n", 'C23.table'),
    Mutant('table-elem-row', SP, "                        upper = upper[k]\n", "                        upper = upper[row]\n", 'C23.table'),
    Mutant('table-num-levels-max', DG, "values[row, 0:levels] = np.linspace(lower, upper, num=levels)",
           "values[row, 0:levels_max] = np.linspace(lower, upper, num=levels_max)", 'C23.table'),
    Mutant('table-num-default', SP, "                    levels = self._get_levels(name)\n",
           "                    levels = _LEVELS\n", 'C23.table'),
    Mutant('table-row-per-dv', DG, "                values[row, 0:levels] = np.linspace(lower, upper, num=levels)\n\n                row += 1\n",
           "                values[row, 0:levels] = np.linspace(lower, upper, num=levels)\n\n            row += 1\n", 'C23.table'),
    Mutant('table-row-step-first', DG, "                levels = self._get_dv_levels(name)\n                values[row, 0:levels] = np.linspace(lower, upper, num=levels)\n\n                row += 1\n",
           "                levels = self._get_dv_levels(name)\n                row += 1\n"
           "                values[row, 0:levels] = np.linspace(lower, upper, num=levels)\n", 'C23.table'),
    Mutant('table-row-reset-in-loop', SP, "        row = 0\n        for name, meta in factors.items():\n            size = self._sizes[name]\n",
           "        for name, meta in factors.items():\n            row = 0\n            size = self._sizes[name]\n", 'C23.table'),
    # ---- index
    Mutant('index-design-col-k', DG, "                    idx = idxs[row + k]\n", "                    idx = idxs[k]\n", 'C23.index'),
    Mutant('index-table-row-k', DG, "                    val[k] = values[row + k][idx]\n", "                    val[k] = values[k][idx]\n", 'C23.index'),
    Mutant('index-step-one', DG, "                row += size_i\n", "                row += 1\n", 'C23.index'),
    Mutant('index-step-one-sampling', SP, "                row += size_i\n", "                row += 1\n", 'C23.index'),
    Mutant('index-step-before', DG, "                val = np.empty(size_i)\n                for k in range(size_i):\n                    idx = idxs[row + k]\n                    val[k] = values[row + k][idx]\n                retval.append((name, val))\n                row += size_i\n",
           "                val = np.empty(size_i)\n                row += size_i\n                for k in range(size_i):\n                    idx = idxs[row + k]\n                    val[k] = values[row + k][idx]\n                retval.append((name, val))\n", 'C23.index'),
    Mutant('index-no-reset', DG, "        for idxs in doe:\n            retval = []\n            row = 0\n",
           "        row = 0\n        for idxs in doe:\n            retval = []\n", 'C23.index'),
    Mutant('index-offset-mismatch', SP, "                    val[k] = values[row + k][idx]\n",
           "                    val[k] = values[row][idx]\n", 'C23.index'),
    Mutant('index-step-wrong-size', SP, "                row += size_i\n", "                row += size\n", 'C23.index'),
    # ---- levels
    Mutant('levels-ignore-default', DG, "return sum([v * [self._get_dv_levels(k)] for k, v in sizes.items()], [])",
           "return sum([v * [self._levels.get(k, _LEVELS)] for k, v in sizes.items()], [])", 'C23.levels'),
    Mutant('levels-one-per-dv', SP, "return sum([v * [self._get_levels(k)] for k, v in sizes.items()], [])",
           "return sum([[self._get_levels(k)] for k, v in sizes.items()], [])", 'C23.levels'),
    Mutant('levels-uniform-default', DG, "return [self._levels] * sum(self._sizes.values())",
           "return [_LEVELS] * sum(self._sizes.values())", 'C23.levels'),
    Mutant('levels-uniform-per-dv', SP, "return [self._levels] * sum(self._sizes.values())",
           "return [self._levels] * len(self._sizes)", 'C23.levels'),
    # ---- design
    Mutant('design-pb-no-clamp', DG, "        doe[doe < 0] = 0  # replace -1 with zero\n", "", 'C23.design'),
    Mutant('design-pb-clamp-to-one', SP, "        doe[doe < 0] = 0  # replace -1 with zero\n", "        doe[doe < 0] = 1\n", 'C23.design'),
    Mutant('design-pb-three-levels', DG, "        super().__init__(levels=2)\n", "        super().__init__(levels=3)\n", 'C23.design'),
    Mutant('design-bb-no-shift', DG, "        return doe + 1  # replace [-1, 0, 1] with [0, 1, 2]", "        return doe", 'C23.design'),
    Mutant('design-bb-abs', SP, "        return doe + 1  # replace [-1, 0, 1] with [0, 1, 2]", "        return abs(doe) + 1", 'C23.design'),
    # ---- twins
    Twin('twin-table-inline-levels', DG, "                levels = self._get_dv_levels(name)\n                values[row, 0:levels] = np.linspace(lower, upper, num=levels)\n",
         "                values[row, :self._get_dv_levels(name)] = np.linspace(lower, upper, self._get_dv_levels(name))\n"),
    Twin('twin-table-row-plus-k', DG, "                values[row, 0:levels] = np.linspace(lower, upper, num=levels)\n\n                row += 1\n",
         "                values[row + k, 0:levels] = np.linspace(lower, upper, num=levels)\n\n            row += size\n"),
    Twin('twin-index-flip-add', DG, "                    idx = idxs[row + k]\n                    val[k] = values[row + k][idx]\n",
         "                    val[k] = values[k + row, idxs[k + row]]\n"),
    Twin('twin-index-renamed', SP, "                size_i = _get_size(name, meta)\n                val = np.empty(size_i)\n                for k in range(size_i):\n                    idx = idxs[row + k]\n                    val[k] = values[row + k][idx]\n                retval.append(val)\n                row += size_i\n",
         "                nel = _get_size(name, meta)\n                val = np.empty(nel)\n                for j in range(nel):\n                    col = idxs[row + j]\n                    val[j] = values[row + j][col]\n                row += nel\n                retval.append(val)\n"),
    Twin('twin-pb-maximum', DG, "        doe[doe < 0] = 0  # replace -1 with zero\n", "        doe = np.maximum(doe, 0)\n"),
    Twin('twin-bb-temp', SP, "        return doe + 1  # replace [-1, 0, 1] with [0, 1, 2]", "        shifted = 1 + doe\n        return shifted"),
    Twin('twin-levels-flip-mult', DG, "return sum([v * [self._get_dv_levels(k)] for k, v in sizes.items()], [])",
         "return sum([[self._get_dv_levels(nm)] * n for nm, n in sizes.items()], [])"),
    Twin('twin-bounds-swapped-linspace-order', SP, "                    lower = meta['lower']\n                    if isinstance(lower, np.ndarray):\n                        lower = lower[k]\n\n                    upper = meta['upper']\n                    if isinstance(upper, np.ndarray):\n                        upper = upper[k]\n",
         "                    upper = meta['upper']\n                    if isinstance(upper, np.ndarray):\n                        upper = upper[k]\n\n                    lower = meta['lower']\n                    if isinstance(lower, np.ndarray):\n                        lower = lower[k]\n"),
)


# =========================================================================== self-test (part 2: lhs / uniform / seed)
_LHS_MAP = "val = lower + sample * (upper - lower)"
selftest(
    'C23',
    # ---- emit (pyDOE)
    Mutant('index-yield-per-variable', DG, "                row += size_i\n            yield retval\n",
           "                row += size_i\n                yield retval\n", 'C23.index'),
    Mutant('index-append-only-arrays', SP, "                retval.append(val)\n                row += size_i\n",
           "                if size_i > 1:\n                    retval.append(val)\n                row += size_i\n", 'C23.index'),
    Mutant('index-retval-shared', DG, "        for idxs in doe:\n            retval = []\n            row = 0\n",
           "        retval = []\n        for idxs in doe:\n            row = 0\n", 'C23.index'),
    # ---- lhs
    Mutant('lhs-no-span', DG, _LHS_MAP, "val = lower + sample * upper", 'C23.lhs'),
    Mutant('lhs-from-upper', SP, _LHS_MAP, "val = upper + sample * (upper - lower)", 'C23.lhs'),
    Mutant('lhs-negated-span', DG, _LHS_MAP, "val = lower + sample * (lower - upper)", 'C23.lhs'),
    Mutant('lhs-upper-is-lower', DG, "                upper = meta['upper']\n                if not isinstance(upper, np.ndarray):\n                    upper = upper * np.ones(size)\n\n                val",
           "                upper = meta['lower']\n                if not isinstance(upper, np.ndarray):\n                    upper = upper * np.ones(size)\n\n                val", 'C23.lhs'),
    Mutant('lhs-col-step-one', DG, "                col += size\n", "                col += 1\n", 'C23.lhs'),
    Mutant('lhs-col-step-one-sampling', SP, "                    col += size\n", "                    col += 1\n", 'C23.lhs'),
    Mutant('lhs-col-not-reset', DG, "        for row in doe:\n            retval = []\n            col = 0\n",
           "        col = 0\n        for row in doe:\n            retval = []\n", 'C23.lhs'),
    Mutant('lhs-col-before-slice', SP, "                    size = _get_size(name, meta)\n                    sample = row[col:col + size]\n",
           "                    size = _get_size(name, meta)\n                    col += size\n                    sample = row[col:col + size]\n", 'C23.lhs',
           also=[(SP, "                    retval.append(val)\n                    col += size\n", "                    retval.append(val)\n")]),
    Mutant('lhs-columns-per-variable', DG, "size = sum([meta['size'] for meta in design_vars.values()])",
           "size = len(design_vars)", 'C23.lhs'),
    Mutant('lhs-yield-per-variable', DG, "                col += size\n\n            yield retval\n",
           "                col += size\n\n                yield retval\n", 'C23.lhs'),
    # ---- uniform
    Mutant('uniform-low-low', DG, "np.random.uniform(lower, upper)", "np.random.uniform(lower, lower)", 'C23.uniform'),
    Mutant('uniform-upper-key', DG, "                upper = meta['upper']\n                if not isinstance(upper, np.ndarray):\n                    upper = upper * np.ones(size)\n\n                sample",
           "                upper = meta['lower']\n                if not isinstance(upper, np.ndarray):\n                    upper = upper * np.ones(size)\n\n                sample", 'C23.uniform'),
    Mutant('uniform-sampling-key', SU, "self._rng.uniform(meta['lower'], meta['upper'], sizes[name])",
           "self._rng.uniform(meta['lower'], meta['lower'], sizes[name])", 'C23.uniform'),
    Mutant('uniform-yield-late', DG, "                sample.append((name, np.random.uniform(lower, upper)))\n\n            yield sample\n",
           "                sample.append((name, np.random.uniform(lower, upper)))\n\n        yield sample\n", 'C23.uniform'),
    Mutant('uniform-elem-zero', DG, "                lower = meta['lower']\n                if not isinstance(lower, np.ndarray):\n                    lower = lower * np.ones(size)\n\n                upper = meta['upper']\n                if not isinstance(upper, np.ndarray):\n                    upper = upper * np.ones(size)\n\n                sample",
           "                lower = meta['lower']\n                if isinstance(lower, np.ndarray):\n                    lower = lower[0]\n\n                upper = meta['upper']\n                if not isinstance(upper, np.ndarray):\n                    upper = upper * np.ones(size)\n\n                sample", 'C23.uniform'),
    # ---- seed
    Mutant('seed-truthy-guard', DG, "        if self._seed is not None:\n            np.random.seed(self._seed)\n\n        for _ in range",
           "        if self._seed:\n            np.random.seed(self._seed)\n\n        for _ in range", 'C23.seed'),
    Mutant('seed-dropped', DG, "        if self._seed is not None:\n            np.random.seed(self._seed)\n\n        for _ in range",
           "        for _ in range", 'C23.seed'),
    Mutant('seed-after-first-sample', DG, "        if self._seed is not None:\n            np.random.seed(self._seed)\n\n        for _ in range(self._num_samples):\n            sample = []\n",
           "        for _ in range(self._num_samples):\n            sample = []\n", 'C23.seed',
           also=[(DG, "            yield sample\n", "            yield sample\n            if self._seed is not None:\n                np.random.seed(self._seed)\n")]),
    Mutant('seed-inverted-guard', SU, "if self._seed is not None else np.random\n", "if self._seed is None else np.random\n", 'C23.seed'),
    Mutant('seed-sampling-truthy', SU, "if self._seed is not None else np.random\n", "if self._seed else np.random\n", 'C23.seed'),
    # the shape repaired by dd23f15: process-wide seeding at construction, lazy process-wide draws
    Mutant('seed-sampling-construction-time', SU, "        self._rng = np.random.RandomState(self._seed) if self._seed is not None else np.random\n",
           "        if self._seed is not None:\n            np.random.seed(self._seed)\n", 'C23.seed',
           also=[(SU, "self._rng.uniform(meta['lower']", "np.random.uniform(meta['lower']")]),
    Mutant('seed-sampling-private-unused', SU, "self._rng.uniform(meta['lower']", "np.random.uniform(meta['lower']", 'C23.seed'),
    Mutant('seed-sampling-if-else-inverted', SU, "        self._rng = np.random.RandomState(self._seed) if self._seed is not None else np.random\n",
           "        if self._seed is None:\n            self._rng = np.random.RandomState(self._seed)\n        else:\n            self._rng = np.random\n", 'C23.seed'),
    Mutant('seed-lhs-not-forwarded', DG, "                        iterations=self._iterations,\n                        random_state=self._seed)",
           "                        iterations=self._iterations)", 'C23.seed'),
    Mutant('seed-lhs-fixed', SP, "random_state=self._seed)", "random_state=0)", 'C23.seed'),
    Mutant('seed-fixed-value', DG, "        if self._seed is not None:\n            np.random.seed(self._seed)\n\n        for _ in range",
           "        if self._seed is not None:\n            np.random.seed(0)\n\n        for _ in range", 'C23.seed'),
    # ---- twins
    Twin('twin-lhs-commuted', DG, _LHS_MAP, "val = (upper - lower) * sample + lower"),
    Twin('twin-lhs-convex', SP, _LHS_MAP, "val = lower * (1 - sample) + upper * sample"),
    Twin('twin-lhs-span-temp', DG, _LHS_MAP, "span = upper - lower\n                val = span * sample + lower"),
    Twin('twin-seed-flipped-guard', DG, "        if self._seed is not None:\n            np.random.seed(self._seed)\n\n        for _ in range",
         "        if self._seed is None:\n            pass\n        else:\n            np.random.seed(self._seed)\n\n        for _ in range"),
    Twin('twin-seed-alias', SU, "        self._rng = np.random.RandomState(self._seed) if self._seed is not None else np.random\n",
         "        seed = self._seed\n        self._rng = np.random if seed is None else np.random.RandomState(seed)\n"),
    Twin('twin-seed-sampling-if-else', SU, "        self._rng = np.random.RandomState(self._seed) if self._seed is not None else np.random\n",
         "        if self._seed is not None:\n            self._rng = np.random.RandomState(self._seed)\n        else:\n            self._rng = np.random\n"),
    Twin('twin-uniform-temp', DG, "                sample.append((name, np.random.uniform(lower, upper)))\n",
         "                draw = np.random.uniform(low=lower, high=upper)\n                sample.append((name, draw))\n"),
    Twin('twin-lhs-drop-global-seed', DG, "        if self._seed is not None:\n            np.random.seed(self._seed)\n\n        size = sum(",
         "        size = sum("),
)


# =========================================================================== self-test (part 3: DOEDriver)
_SET = ("                if isinstance(dv_val, np.ndarray):\n"
        "                    self._set_design_var(dv_name, dv_val.flatten())\n"
        "                else:\n"
        "                    self._set_design_var(dv_name, dv_val)\n")
selftest(
    'C23',
    Mutant('apply-scalars-skipped', DD, _SET,
           "                if isinstance(dv_val, np.ndarray):\n"
           "                    self._set_design_var(dv_name, dv_val.flatten())\n", 'C23.apply'),
    Mutant('apply-first-element', DD, "self._set_design_var(dv_name, dv_val.flatten())",
           "self._set_design_var(dv_name, dv_val[0])", 'C23.apply'),
    Mutant('apply-swallow-print', DD, "                if msg:\n                    raise ValueError(msg)\n",
           "                if msg:\n                    print(msg)\n", 'C23.apply'),
    Mutant('apply-swallow-except-pass', DD, "            except ValueError as err:\n                msg = \"Error assigning %s = %s: \" % (dv_name, dv_val) + str(err)\n",
           "            except ValueError as err:\n                pass\n", 'C23.apply'),
    Mutant('apply-inverted-flag', DD, "                if msg:\n                    raise ValueError(msg)\n",
           "                if msg is None:\n                    raise ValueError(msg)\n", 'C23.apply'),
    Mutant('apply-continue-on-error', DD, "            except ValueError as err:\n                msg = \"Error assigning %s = %s: \" % (dv_name, dv_val) + str(err)\n            finally:\n                if msg:\n                    raise ValueError(msg)\n",
           "            except ValueError as err:\n                continue\n", 'C23.apply'),
    Mutant('apply-break-after-first', DD, "            finally:\n                if msg:\n                    raise ValueError(msg)\n",
           "            finally:\n                if msg:\n                    raise ValueError(msg)\n            break\n", 'C23.apply'),
    Mutant('apply-after-solve', DD, "        metadata = {}\n\n        for dv_name, dv_val in case:",
           "        metadata = {}\n        self._run_solve_nonlinear()\n\n        for dv_name, dv_val in case:", 'C23.apply'),
    Mutant('run-skip-case', DD, "            self._run_case(case)\n            self.iter_count += 1\n",
           "            if self.iter_count % 2 == 0:\n                self._run_case(case)\n            self.iter_count += 1\n", 'C23.apply'),
    Mutant('partition-modulus-size', DD, "        ncolors = self._problem_comm.size // self.options['procs_per_model']\n        color = self._color\n",
           "        ncolors = self._problem_comm.size\n        color = self._color\n", 'C23.partition'),
    Mutant('partition-rank', DD, "        color = self._color\n\n        for i, case", "        color = self._problem_comm.rank\n\n        for i, case", 'C23.partition'),
    Mutant('partition-not-equal', DD, "            if i % ncolors == color:", "            if i % ncolors != color:", 'C23.partition'),
    Mutant('partition-setup-divides-differently', DD, "            ncolors = full_size // procs_per_model\n",
           "            ncolors = full_size // procs_per_model + 1\n", 'C23.partition'),
    Twin('twin-apply-unconditional-ravel', DD, _SET, "                self._set_design_var(dv_name, np.ravel(dv_val))\n"),
    Twin('twin-apply-reraise-direct', DD, "            try:\n                msg = None\n" + _SET +
         "            except ValueError as err:\n                msg = \"Error assigning %s = %s: \" % (dv_name, dv_val) + str(err)\n            finally:\n                if msg:\n                    raise ValueError(msg)\n",
         "            try:\n" + _SET +
         "            except ValueError as err:\n                raise ValueError(\"Error assigning %s = %s: \" % (dv_name, dv_val) + str(err))\n"),
    Twin('twin-apply-flag-is-not-none', DD, "                if msg:\n                    raise ValueError(msg)\n",
         "                if msg is not None:\n                    raise ValueError(msg)\n"),
    Twin('twin-partition-inline', DD, "        ncolors = self._problem_comm.size // self.options['procs_per_model']\n        color = self._color\n\n        for i, case in enumerate(self.options['generator'](design_vars, model)):\n            if i % ncolors == color:",
         "        nproc = self.options['procs_per_model']\n\n        for i, case in enumerate(self.options['generator'](design_vars, model)):\n            if self._color == i % (self._problem_comm.size // nproc):"),
    Twin('twin-run-alias', DD, "        for case in case_gen(self._designvars, self._problem().model):",
         "        model = self._problem().model\n        for case in case_gen(dv_meta, model):"),
)


selftest(
    'C23',
    Mutant('dvlevels-default-first', DG, 'return levels.get(name, levels.get("default", _LEVELS))',
           'return levels.get("default", levels.get(name, _LEVELS))', 'C23.dvlevels'),
    Mutant('dvlevels-no-default', SP, 'return levels.get(name, levels.get("default", _LEVELS))',
           'return levels.get(name, _LEVELS)', 'C23.dvlevels'),
    Mutant('dvlevels-ignore-name', DG, 'return levels.get(name, levels.get("default", _LEVELS))',
           'return levels.get("default", _LEVELS)', 'C23.dvlevels'),
    Twin('twin-dvlevels-explicit', DG, '            return levels.get(name, levels.get("default", _LEVELS))',
         '            if name in levels:\n                return levels[name]\n            return levels.get("default", _LEVELS)'),
    Twin('twin-dvlevels-no-alias', SP, '        levels = self._levels\n        if isinstance(levels, int):\n            return levels\n        else:\n            return levels.get(name, levels.get("default", _LEVELS))',
         '        if not isinstance(self._levels, int):\n            return self._levels.get(name, self._levels.get("default", _LEVELS))\n        return self._levels'),
)


selftest(
    'C23',
    Mutant('index-range-off-by-one', DG, "                for k in range(size_i):\n", "                for k in range(size_i - 1):\n", 'C23.index'),
    Mutant('index-value-array-short', SP, "                val = np.empty(size_i)\n", "                val = np.empty(size_i + 1)\n", 'C23.index'),
    Mutant('table-range-stale-size', DG, "        for name, meta in design_vars.items():\n            size = _get_size(meta)\n\n            for k in range(size):",
           "        for name, meta in design_vars.items():\n            for k in range(size):", 'C23.table'),
    Mutant('table-range-off-by-one', SP, "                for k in range(size):\n", "                for k in range(size - 1):\n", 'C23.table'),
    Twin('twin-table-size-inline', DG, "            size = _get_size(meta)\n\n            for k in range(size):", "            nel = _get_size(meta)\n\n            for k in range(nel):"),
)


_SIZES_DG = "for name, meta in design_vars.items()])\n        size = sum(self._sizes.values())"
_LHS_RS = "                        random_state=self._seed)\n\n        # yield desvar values"
selftest(
    'C23',
    # ---- order (seed 1 shape and relatives)
    Mutant('order-sizes-sorted', DG, _SIZES_DG, "for name, meta in sorted(design_vars.items())])\n        size = sum(self._sizes.values())", 'C23.order'),
    Mutant('order-assembly-reversed', DG, "            row = 0\n            for name, meta in design_vars.items():\n                size_i",
           "            row = 0\n            for name, meta in reversed(design_vars.items()):\n                size_i", 'C23.order'),
    Mutant('order-levels-sorted', SP, "for k, v in sizes.items()], [])", "for k, v in sorted(sizes.items())], [])", 'C23.order'),
    Mutant('order-table-sorted-sampling', SP, "        row = 0\n        for name, meta in factors.items():\n            size = self._sizes[name]",
           "        row = 0\n        for name, meta in sorted(factors.items()):\n            size = self._sizes[name]", 'C23.order'),
    Mutant('order-naming-sorted', SP, "for name, meta in factors.items():\n                size_i", "for name, meta in factors.items():\n                size_i", 'C23.order',
           also=[('openmdao/drivers/analysis_generator.py', "for i, name in enumerate(self._var_dict.keys()):", "for i, name in enumerate(sorted(self._var_dict.keys())):")]),
    Twin('twin-order-keys-view', DG, _SIZES_DG, "for name, meta in list(design_vars.items())])\n        size = sum(self._sizes.values())"),
    Twin('twin-order-all-sorted', DG, _SIZES_DG, "for name, meta in sorted(design_vars.items())])\n        size = sum(self._sizes.values())",
         also=[(DG, "        row = 0\n        for name, meta in design_vars.items():\n            size = _get_size(meta)",
                "        row = 0\n        for name, meta in sorted(design_vars.items()):\n            size = _get_size(meta)"),
               (DG, "            row = 0\n            for name, meta in design_vars.items():\n                size_i",
                "            row = 0\n            for name, meta in sorted(design_vars.items()):\n                size_i")]),
    # ---- stateful random generators (seed 2 shape and relatives)
    Mutant('seed-lhs-state-in-init', DG, "        self._iterations = iterations\n        self._seed = seed\n\n    def __call__",
           "        self._iterations = iterations\n        self._seed = seed\n        self._random_state = None if seed is None else np.random.RandomState(seed)\n\n    def __call__", 'C23.seed',
           also=[(DG, _LHS_RS, "                        random_state=self._random_state)\n\n        # yield desvar values")]),
    Mutant('seed-lhs-state-in-init-sampling', SP, "        self._seed = seed\n\n        try:\n            from pydoe import lhs",
           "        self._seed = seed\n        self._rs = np.random.RandomState(seed)\n\n        try:\n            from pydoe import lhs", 'C23.seed',
           also=[(SP, "                        random_state=self._seed)", "                        random_state=self._rs)")]),
    Mutant('seed-lhs-lazy-state', DG, "        # generate design\n        doe = self._lhs(size, samples=self._samples,",
           "        if getattr(self, '_rs', None) is None:\n            self._rs = np.random.RandomState(self._seed)\n        # generate design\n        doe = self._lhs(size, samples=self._samples,", 'C23.seed',
           also=[(DG, _LHS_RS, "                        random_state=self._rs)\n\n        # yield desvar values")]),
    Mutant('seed-uniform-state-in-init', DG, "        self._num_samples = num_samples\n        self._seed = seed\n\n    def __call__",
           "        self._num_samples = num_samples\n        self._seed = seed\n        self._rng = np.random.RandomState(seed)\n\n    def __call__", 'C23.seed',
           also=[(DG, "np.random.uniform(lower, upper)", "self._rng.uniform(lower, upper)")]),
    Mutant('seed-uniform-module-rng', DG, "_LEVELS = 2  # default number of levels for pyDOE generators\n",
           "_LEVELS = 2  # default number of levels for pyDOE generators\n_RNG = np.random.RandomState(0)\n", 'C23.seed',
           also=[(DG, "np.random.uniform(lower, upper)", "_RNG.uniform(lower, upper)")]),
    Mutant('seed-uniform-sampling-state-in-init', SU, "        self._rng = np.random\n        self._sizes = sizes = {}",
           "        self._rng = np.random.default_rng(seed)\n        self._sizes = sizes = {}", 'C23.seed',
           also=[(SU, "        self._rng = np.random.RandomState(self._seed) if self._seed is not None else np.random\n", "")]),
    Twin('twin-seed-lhs-local-state', DG, "        # generate design\n        doe = self._lhs(size, samples=self._samples,",
         "        rs = None if self._seed is None else np.random.RandomState(self._seed)\n        # generate design\n        doe = self._lhs(size, samples=self._samples,",
         also=[(DG, _LHS_RS, "                        random_state=rs)\n\n        # yield desvar values")]),
    Twin('twin-seed-uniform-local-rng', DG, "        if self._seed is not None:\n            np.random.seed(self._seed)\n\n        for _ in range",
         "        rng = np.random.RandomState(self._seed)\n\n        for _ in range",
         also=[(DG, "np.random.uniform(lower, upper)", "rng.uniform(lower, upper)")]),
    Twin('twin-seed-sampling-rng-in-setup', SU, "        self._rng = np.random.RandomState(self._seed) if self._seed is not None else np.random\n", "        self._rng = np.random.RandomState(self._seed)\n"),
)


# =========================================================================== self-test (robustness round: accepted idiom classes)
selftest(
    'C23',
    # hoisted per-variable lookups + conditional expressions for the per-element bound (benign C23_1)
    Twin('twin-table-hoisted-ifexp', DG,
         "            size = _get_size(meta)\n\n            for k in range(size):\n"
         "                lower = meta['lower']\n                if isinstance(lower, np.ndarray):\n                    lower = lower[k]\n\n"
         "                upper = meta['upper']\n                if isinstance(upper, np.ndarray):\n                    upper = upper[k]\n\n"
         "                levels = self._get_dv_levels(name)\n",
         "            size = _get_size(meta)\n            levels = self._get_dv_levels(name)\n"
         "            dv_lower = meta['lower']\n            dv_upper = meta['upper']\n\n            for k in range(size):\n"
         "                lower = dv_lower[k] if isinstance(dv_lower, np.ndarray) else dv_lower\n"
         "                upper = dv_upper[k] if isinstance(dv_upper, np.ndarray) else dv_upper\n\n"),
    # ... the same shape must still be caught when the element index is wrong
    Mutant('table-hoisted-ifexp-elem-zero', DG,
           "                lower = meta['lower']\n                if isinstance(lower, np.ndarray):\n                    lower = lower[k]\n\n                upper = meta['upper']\n",
           "                dv_lower = meta['lower']\n                lower = dv_lower[0] if isinstance(dv_lower, np.ndarray) else dv_lower\n\n                upper = meta['upper']\n",
           'C23.table'),
    # keys + lookup instead of items(), end temporary, `col = end`, if/else broadcast, inlined value (benign C23_2)
    Twin('twin-lhs-keys-lookup-end-temp', DG,
         "            for name, meta in design_vars.items():\n                size = meta['size']\n                sample = row[col:col + size]\n\n"
         "                lower = meta['lower']\n                if not isinstance(lower, np.ndarray):\n                    lower = lower * np.ones(size)\n\n"
         "                upper = meta['upper']\n                if not isinstance(upper, np.ndarray):\n                    upper = upper * np.ones(size)\n\n"
         "                val = lower + sample * (upper - lower)\n\n                retval.append((name, val))\n                col += size\n",
         "            for name in design_vars:\n                meta = design_vars[name]\n                dv_size = meta['size']\n"
         "                end = col + dv_size\n                sample = row[col:end]\n\n"
         "                lower = meta['lower']\n                if isinstance(lower, np.ndarray):\n                    lower_arr = lower\n"
         "                else:\n                    lower_arr = lower * np.ones(dv_size)\n\n"
         "                upper = meta['upper']\n                if isinstance(upper, np.ndarray):\n                    upper_arr = upper\n"
         "                else:\n                    upper_arr = upper * np.ones(dv_size)\n\n"
         "                retval.append((name, lower_arr + sample * (upper_arr - lower_arr)))\n                col = end\n"),
    Mutant('lhs-end-temp-stale', DG, "                sample = row[col:col + size]\n", "                end = col + 1\n                sample = row[col:col + size]\n",
           'C23.lhs', also=[(DG, "                col += size\n", "                col = end\n")]),
    Mutant('lhs-inline-value-wrong', DG, "                val = lower + sample * (upper - lower)\n\n                retval.append((name, val))\n",
           "                retval.append((name, lower + sample * upper))\n", 'C23.lhs'),
    Twin('twin-index-step-assign-form', DG, "                row += size_i\n", "                row = row + size_i\n"),
    # entry unpacked in the body, msg initialised before the try, inverted isinstance, check after the try (benign C23_3)
    Twin('twin-apply-unpack-in-body', DD,
         "        for dv_name, dv_val in case:\n            try:\n                msg = None\n" + _SET +
         "            except ValueError as err:\n                msg = \"Error assigning %s = %s: \" % (dv_name, dv_val) + str(err)\n"
         "            finally:\n                if msg:\n                    raise ValueError(msg)\n",
         "        for dv in case:\n            dv_name, dv_val = dv\n            msg = None\n            try:\n"
         "                if not isinstance(dv_val, np.ndarray):\n                    self._set_design_var(dv_name, dv_val)\n"
         "                else:\n                    self._set_design_var(dv_name, dv_val.flatten())\n"
         "            except ValueError as err:\n                msg = \"Error assigning %s = %s: \" % (dv_name, dv_val) + str(err)\n\n"
         "            if msg:\n                raise ValueError(msg)\n"),
    Mutant('apply-unpack-swapped', DD, "        for dv_name, dv_val in case:\n", "        for dv in case:\n            dv_val, dv_name = dv\n", 'C23.apply'),
)


selftest(
    'C23',
    Mutant('units-direction-meta', DRV, "convert_units(desvar[loc_idxs], meta['units'], src_units)",
           "convert_units(desvar[loc_idxs], src_units, meta['units'])", 'C23.units'),
    Mutant('units-direction-explicit', DRV, "convert_units(desvar[loc_idxs], units, src_units)",
           "convert_units(desvar[loc_idxs], src_units, units)", 'C23.units'),
    Mutant('units-same', DRV, "convert_units(desvar[loc_idxs], meta['units'], src_units)",
           "convert_units(desvar[loc_idxs], meta['units'], meta['units'])", 'C23.units'),
    Twin('twin-units-temp', DRV, "                desvar[loc_idxs] = convert_units(desvar[loc_idxs], meta['units'], src_units)",
         "                dv_units = meta['units']\n                desvar[loc_idxs] = convert_units(desvar[loc_idxs], dv_units, src_units)"),
)


_AGD = "'indices': self._var_dict[name].get('indices', None)}"
selftest(
    'C23',
    # ---- round-2 seeds
    Mutant('levels-ignore-default-sampling', SP, "return sum([v * [self._get_levels(k)] for k, v in sizes.items()], [])",
           "return sum([v * [self._levels.get(k, _LEVELS)] for k, v in sizes.items()], [])", 'C23.levels'),
    Mutant('table-affine-unit-grid', DG, "                levels = self._get_dv_levels(name)\n                values[row, 0:levels] = np.linspace(lower, upper, num=levels)\n",
           "                levels = self._get_dv_levels(name)\n                steps = np.linspace(0., 1., num=levels)\n                values[row, 0:levels] = lower + steps * (upper - lower)\n", 'C23.table'),
    Mutant('table-affine-span-temp', SP, "                    values[row, 0:levels] = np.linspace(lower, upper, num=levels)\n",
           "                    span = upper - lower\n                    values[row, 0:levels] = np.linspace(0, 1, levels) * span + lower\n", 'C23.table'),
    Mutant('slots-indices-from-units', SU, "'indices': meta.get('indices', None)", "'indices': meta.get('units', None)", 'C23.slots'),
    Mutant('slots-units-from-indices-base', AG, "'units': self._var_dict[name].get('units', None),", "'units': self._var_dict[name].get('indices', None),", 'C23.slots'),
    Mutant('slots-consumer-swapped', AD, "self._problem().model.set_val(var, val, units, idxs)", "self._problem().model.set_val(var, val, idxs, units)", 'C23.slots'),
    Mutant('slots-indices-dropped', SU, "                'units': meta.get('units', None),\n                'indices': meta.get('indices', None)\n", "                'units': meta.get('units', None),\n", 'C23.slots'),
    Twin('twin-slots-subscript-alias', SU, "                'indices': meta.get('indices', None)\n            }", "                'indices': idx\n            }",
         also=[(SU, "            d[name] = {\n", "            idx = meta.get('indices')\n            d[name] = {\n")]),
    Twin('twin-slots-consumer-keywords', AD, "self._problem().model.set_val(var, val, units, idxs)", "self._problem().model.set_val(var, val, indices=idxs, units=units)"),
)


# =========================================================================== self-test (second robustness round)
_GAL_SP_OLD = ("        sizes = self._sizes\n"
               "        if isinstance(self._levels, int):  # All have the same number of levels\n"
               "            return [self._levels] * sum(self._sizes.values())\n"
               "        elif isinstance(self._levels, dict):  # Different DVs have different number of levels\n"
               "            return sum([v * [self._get_levels(k)] for k, v in sizes.items()], [])\n"
               "        else:\n"
               "            raise ValueError(f\"Levels should be an int or dictionary, not '{type(self._levels)}'\")\n")


def _gal_loop(elt, loop="for name, size in sizes.items():", guard=""):
    return ("        sizes = self._sizes\n        levels = self._levels\n"
            "        if isinstance(levels, int):  # All have the same number of levels\n"
            "            return [levels] * sum(sizes.values())\n"
            "        if not isinstance(levels, dict):\n"
            "            raise ValueError(f\"Levels should be an int or dictionary, not '{type(levels)}'\")\n\n"
            "        all_levels = []\n"
            f"        {loop}\n{guard}"
            f"            {'    ' if guard else ''}all_levels.extend({elt})\n"
            "        return all_levels\n")


_NEXT_SU_OLD = ("        d = {}\n        for name, meta in self._var_dict.items():\n            d[name] = {\n"
                "                'val': self._rng.uniform(meta['lower'], meta['upper'], sizes[name]),\n"
                "                'units': meta.get('units', None),\n                'indices': meta.get('indices', None)\n"
                "            }\n        self._run_count += 1\n        return d\n")


def _next_comp(key="name", hi="meta['upper']"):
    return ("        rng = self._rng\n\n        sample = {\n"
            f"            {key}: {{\n"
            f"                'val': rng.uniform(low=meta['lower'], high={hi}, size=sizes[name]),\n"
            "                'units': meta.get('units', None),\n                'indices': meta.get('indices', None)\n"
            "            }\n            for name, meta in self._var_dict.items()\n        }\n"
            "        self._run_count = self._run_count + 1\n        return sample\n")


_UNITS_OLD = ("            if units is not None:\n"
              "                src_units = problem.model._var_abs2meta['output'][src_name]['units']\n"
              "                desvar[loc_idxs] = convert_units(desvar[loc_idxs], units, src_units)\n"
              "            elif meta['units'] is not None:\n"
              "                src_units = problem.model._var_allprocs_abs2meta['output'][src_name]['units']\n"
              "                desvar[loc_idxs] = convert_units(desvar[loc_idxs], meta['units'], src_units)\n")


def _units_nested(outer="units is None", a="meta['units'], src_units", b="units, src_units"):
    return (f"            if {outer}:\n"
            "                if meta['units'] is not None:\n"
            "                    abs2meta_out = problem.model._var_allprocs_abs2meta['output']\n"
            "                    src_units = abs2meta_out[src_name]['units']\n"
            f"                    desvar[loc_idxs] = convert_units(desvar[loc_idxs], {a})\n"
            "            else:\n"
            "                abs2meta_out = problem.model._var_abs2meta['output']\n"
            "                src_units = abs2meta_out[src_name]['units']\n"
            f"                desvar[loc_idxs] = convert_units(desvar[loc_idxs], {b})\n")


selftest(
    'C23',
    # accumulation loop instead of sum(list-of-lists, []), aliases, early return/raise (benign C23_b2_1)
    Twin('twin-levels-extend-loop', SP, _GAL_SP_OLD, _gal_loop("size * [self._get_levels(name)]")),
    Mutant('levels-extend-loop-ignore-default', SP, _GAL_SP_OLD, _gal_loop("size * [levels.get(name, _LEVELS)]"), 'C23.levels'),
    Mutant('levels-extend-loop-one-per-dv', SP, _GAL_SP_OLD, _gal_loop("[self._get_levels(name)]"), 'C23.levels'),
    Mutant('levels-extend-loop-filtered', SP, _GAL_SP_OLD,
           _gal_loop("size * [self._get_levels(name)]", guard="            if size > 1:\n"), 'C23.levels'),
    Mutant('order-extend-loop-sorted', SP, _GAL_SP_OLD,
           _gal_loop("size * [self._get_levels(name)]", loop="for name, size in sorted(sizes.items()):"), 'C23.order'),
    Twin('twin-dvlevels-inverted-early-return', SP,
         "        if isinstance(levels, int):\n            return levels\n        else:\n            return levels.get(name, levels.get(\"default\", _LEVELS))",
         "        if not isinstance(levels, int):\n            fallback = levels.get(\"default\", _LEVELS)\n            return levels.get(name, fallback)\n        return levels"),
    # dict comprehension, rng alias, keyword arguments (benign C23_b2_2)
    Twin('twin-uniform-dict-comprehension', SU, _NEXT_SU_OLD, _next_comp()),
    Mutant('uniform-comprehension-high-is-lower', SU, _NEXT_SU_OLD, _next_comp(hi="meta['lower']"), 'C23.uniform'),
    Mutant('uniform-comprehension-wrong-key', SU, _NEXT_SU_OLD, _next_comp(key="'x'"), 'C23.uniform'),
    Twin('twin-seed-sampling-if-else-alias', SU,
         "        self._rng = np.random.RandomState(self._seed) if self._seed is not None else np.random\n",
         "        seed = self._seed\n        if seed is None:\n            self._rng = np.random\n        else:\n"
         "            self._rng = np.random.RandomState(seed)\n"),
    # nested guards with inverted test, abs2meta temporary (benign C23_b2_3)
    Twin('twin-units-nested-inverted', DRV, _UNITS_OLD, _units_nested()),
    Mutant('units-nested-direction', DRV, _UNITS_OLD, _units_nested(a="src_units, meta['units']"), 'C23.units'),
    Mutant('units-nested-wrong-side', DRV, _UNITS_OLD, _units_nested(outer="units is not None"), 'C23.units'),
)


# =========================================================================== self-test (third robustness round)
def _next_temp(key="name", hi="meta['upper']", guard=""):
    ind = '    ' if guard else ''
    return ("        rng = self._rng\n\n        case = {}\n        for name, meta in self._var_dict.items():\n"
            f"            sample = rng.uniform(meta['lower'], {hi}, sizes[name])\n{guard}"
            f"            {ind}case[{key}] = {{\n"
            f"                {ind}'val': sample,\n"
            f"                {ind}'units': meta.get('units', None),\n                {ind}'indices': meta.get('indices', None)\n"
            f"            {ind}}}\n        self._run_count += 1\n        return case\n")


_AG_NEXT_OLD = ("        d = {}\n        vals = next(self._iter)\n\n"
                "        for i, name in enumerate(self._var_dict.keys()):\n"
                "            d[name] = {'val': vals[i],\n"
                "                       'units': self._var_dict[name].get('units', None),\n"
                "                       'indices': self._var_dict[name].get('indices', None)}\n"
                "        self._run_count += 1\n        return d\n")


def _ag_entry(idx="meta.get('indices', None)", guard=""):
    ind = '    ' if guard else ''
    return ("        vals = next(self._iter)\n        case = {}\n\n"
            "        for i, (name, meta) in enumerate(self._var_dict.items()):\n"
            "            entry = {'val': vals[i]}\n"
            "            entry['units'] = meta.get('units', None)\n"
            f"{guard}            {ind}entry['indices'] = {idx}\n"
            "            case[name] = entry\n"
            "        self._run_count = self._run_count + 1\n        return case\n")


selftest(
    'C23',
    # draw kept in a temporary and stored into the entry of the variable (benign C23_b3_1)
    Twin('twin-uniform-draw-temp-entry', SU, _NEXT_SU_OLD, _next_temp()),
    Mutant('uniform-draw-temp-wrong-key', SU, _NEXT_SU_OLD, _next_temp(key="'x'"), 'C23.uniform'),
    Mutant('uniform-draw-temp-bounds', SU, _NEXT_SU_OLD, _next_temp(hi="meta['lower']"), 'C23.uniform'),
    Mutant('uniform-draw-temp-dropped', SU, _NEXT_SU_OLD, _next_temp(guard="            if sizes[name] > 1:\n"), 'C23.uniform'),
    # sample entry built incrementally, items() instead of keys + lookup (benign C23_b3_2)
    Twin('twin-slots-entry-built-stepwise', AG, _AG_NEXT_OLD, _ag_entry()),
    Mutant('slots-entry-stepwise-indices-from-units', AG, _AG_NEXT_OLD, _ag_entry(idx="meta.get('units', None)"), 'C23.slots'),
    Mutant('slots-entry-stepwise-missing', AG, _AG_NEXT_OLD,
           _ag_entry().replace("            entry['indices'] = meta.get('indices', None)\n", ""), 'C23.slots'),
    # keyword arguments at the consumer (benign C23_b3_3) -- already accepted, pinned here
    Twin('twin-slots-consumer-keywords-2', AD, "self._problem().model.set_val(var, val, units, idxs)",
         "self._problem().model.set_val(var, val, units=units, indices=idxs)"),
    Mutant('slots-consumer-keywords-swapped', AD, "self._problem().model.set_val(var, val, units, idxs)",
           "self._problem().model.set_val(var, val, units=idxs, indices=units)", 'C23.slots'),
)


# =========================================================================== self-test (fourth robustness round)
_TAB_DG_FULL = ("        row = 0\n        for name, meta in design_vars.items():\n            size = _get_size(meta)\n\n"
                "            for k in range(size):\n"
                "                lower = meta['lower']\n                if isinstance(lower, np.ndarray):\n                    lower = lower[k]\n\n"
                "                upper = meta['upper']\n                if isinstance(upper, np.ndarray):\n                    upper = upper[k]\n\n"
                "                levels = self._get_dv_levels(name)\n"
                "                values[row, 0:levels] = np.linspace(lower, upper, num=levels)\n\n                row += 1\n")


def _tab_helper(ret="bound[j]", up="_bound_entry(meta['upper'], j)", step="table_row = table_row + 1"):
    return ("        def _bound_entry(bound, j):\n            if not isinstance(bound, np.ndarray):\n                return bound\n"
            f"            return {ret}\n\n"
            "        table_row = 0\n        for name in design_vars:\n            meta = design_vars[name]\n"
            "            dv_size = _get_size(meta)\n\n            for j in range(dv_size):\n"
            "                lower = _bound_entry(meta['lower'], j)\n"
            f"                upper = {up}\n\n"
            "                nlevels = self._get_dv_levels(name)\n"
            "                values[table_row, 0:nlevels] = np.linspace(lower, upper, num=nlevels)\n\n"
            f"                {step}\n")


_LHS_DG_FULL = ("        for row in doe:\n            retval = []\n            col = 0\n"
                "            for name, meta in design_vars.items():\n                size = meta['size']\n"
                "                sample = row[col:col + size]\n\n"
                "                lower = meta['lower']\n                if not isinstance(lower, np.ndarray):\n                    lower = lower * np.ones(size)\n\n"
                "                upper = meta['upper']\n                if not isinstance(upper, np.ndarray):\n                    upper = upper * np.ones(size)\n\n"
                "                val = lower + sample * (upper - lower)\n\n                retval.append((name, val))\n                col += size\n\n"
                "            yield retval\n")


def _lhs_helper(up="_full_bound(meta['upper'], size)", span="upper - lower", nxt="start = end"):
    return ("        for unit_sample in doe:\n            retval = []\n            start = 0\n"
            "            for name, meta in design_vars.items():\n                size = meta['size']\n"
            "                end = start + size\n                sample = unit_sample[start:end]\n\n"
            "                lower = _full_bound(meta['lower'], size)\n"
            f"                upper = {up}\n\n"
            f"                span = {span}\n                val = lower + sample * span\n\n"
            f"                retval.append((name, val))\n                {nxt}\n\n"
            "            yield retval\n\n\n"
            "def _full_bound(bound, size):\n    if isinstance(bound, np.ndarray):\n        return bound\n"
            "    return bound * np.ones(size)\n")


selftest(
    'C23',
    # per-element bound through a local helper, keys + lookup, `row = row + 1` (benign C23_b4_1)
    Twin('twin-table-bound-helper', DG, _TAB_DG_FULL, _tab_helper()),
    Mutant('table-bound-helper-elem-zero', DG, _TAB_DG_FULL, _tab_helper(ret="bound[0]"), 'C23.table'),
    Mutant('table-bound-helper-upper-from-lower', DG, _TAB_DG_FULL, _tab_helper(up="_bound_entry(meta['lower'], j)"), 'C23.table'),
    Mutant('table-bound-helper-no-step', DG, _TAB_DG_FULL, _tab_helper(step="pass"), 'C23.table'),
    # broadcast through a module-level helper, span / end temporaries, `start = end` (benign C23_b4_2)
    Twin('twin-lhs-bound-helper', DG, _LHS_DG_FULL, _lhs_helper()),
    Mutant('lhs-bound-helper-upper-from-lower', DG, _LHS_DG_FULL, _lhs_helper(up="_full_bound(meta['lower'], size)"), 'C23.lhs'),
    Mutant('lhs-bound-helper-span-reversed', DG, _LHS_DG_FULL, _lhs_helper(span="lower - upper"), 'C23.lhs'),
    Mutant('lhs-bound-helper-start-stuck', DG, _LHS_DG_FULL, _lhs_helper(nxt="pass"), 'C23.lhs'),
)
