"""C25 -- KS aggregation brackets the extremum and has exact gradients.

The anchor code (KSfunction._compute_values / compute / derivatives, KSComp.setup / compute /
compute_partials, jax ks_max / ks_min) is straight-line array arithmetic.  ``omstatic.lib_c25``
interprets its AST symbolically: every value becomes an algebraic normal form (rational Laurent
polynomial over the atoms g, rho, exp(.), log(.), row reductions max/min/sum) plus a shape tag with
numpy's broadcasting alignment.  On that model the clauses of the property are decided:

* lse      the returned value is in the family  ext + (c/rho) * log(sum(exp(k*(g - ext))))  (ext = max or
           min over the aggregated axis, the SAME ext added outside and subtracted inside, sign-mirrored for
           min, 0 < c <= 1, k > 0) and every exponential is taken of the shifted, non-positive quantity
           -- for which  ext <= value <= ext + ln(n)/rho  (mirrored for min) is a theorem and no overflow
           can occur; a value outside the family is a violation only together with a concrete
           counterexample array found by evaluating the normal form in floats;
* grad     the element of KSfunction.derivatives that KSComp.compute_partials consumes equals the exact
           symbolic derivative of the value that KSComp.compute consumes (differentiation through max,
           sum, exp, log; the sub-gradient of max cancels iff the shift is consistent);
* parity   for every valuation of the boolean options, KSComp.compute returns
           s_out * KS(s_in * (g - upper), options['rho'])  with s_in = (-1)^(lower_flag xor minimum),
           s_out = (-1)^minimum, and compute_partials returns s_out*s_in * dKS evaluated at exactly the
           argument and rho that compute used;
* pattern  the declared rows/cols of d KS / d g and the flattening order of the partials agree with the
           shapes of g and KS (evaluated for a few concrete (vec_size, width) pairs).
"""
import ast
import itertools
import math
import os

import numpy as np

from .. import astx
from .. import lib_c25 as X
from ..core import AnalysisError
from ..engine import rule, describe, selftest, Mutant, Twin

KS = 'openmdao/components/ks_comp.py'
JAX = 'openmdao/jax_funcs/ks.py'

# OMSTATIC_C25_ARM_DRHO=1 turns the dKS/drho observation (second element of KSfunction.derivatives, unused by
# KSComp and not stated by the property) into a violation with key 'dKS_drho'; default: note + counter only
ARM_DRHO = os.environ.get('OMSTATIC_C25_ARM_DRHO', '') == '1'

describe('C25',
         'Symbolic interpretation (omstatic/lib_c25.py) of KSfunction, KSComp and the jax ks_max/ks_min: values '
         'are reduced to an algebraic normal form with shape tags.  Decided: (lse) the value is the shifted '
         'log-sum-exp family for which the bracket max <= KS <= max + ln(n)/rho (mirrored for min) is a theorem, '
         'with the same extremum added outside and subtracted inside every exponential, aggregated along the '
         'constraint axis with the reduced axis restored; (grad) the hand-written dKS/dg that KSComp uses equals '
         'the exact symbolic derivative of the value KSComp returns; (parity) sign/offset/rho table of '
         'KSComp.compute and compute_partials over all valuations of lower_flag and minimum, both evaluated at '
         'the same conditioned array; (pattern) declared sparsity rows/cols against the flattening order.  '
         'Violations of lse/grad are only reported together with a concrete counterexample array evaluated on '
         'the model.  Not decided: floating-point rounding, jax automatic differentiation itself (the jax '
         'functions have no hand-written derivative), complex step, dKS/drho (rho is an option of KSComp, not '
         'an input; reported as a note only).',
         ['rho > 0 and finite; arrays are finite',
          'KSComp feeds KSfunction a 2-D array (vec_size, width) and aggregates along the last axis (checked '
          'against add_input in C25.pattern)',
          'numpy/jax.numpy semantics of max, min, sum, exp, log, broadcasting, flatten/ravel, tile, repeat, arange '
          'are those modelled in omstatic/lib_c25.py; anything else is undecided, never a violation',
          'first parameter of the KS helper functions is the constraint array, second is rho',
          'C25.pattern is decided for the shapes (vec_size, width) in {(2,3),(3,2),(1,4),(3,1),(2,2)}'])

G = ('sym', 'g', 'E')
RHO = ('sym', 'rho', 'S')
IN_G = ('sym', "inputs['g']", 'E')
OPT_UPPER = ('sym', "options['upper']", 'S')
OPT_RHO = ('sym', "options['rho']", 'S')


# ------------------------------------------------------------------------------------------ helpers
def sym_call(repo, rel, qn, mode, jax_only=False):
    """Symbolic result of fn(g, rho) -> (fn, value, interpreter)."""
    fn = repo.func(rel, qn)
    it = X.Interp(repo, mode=mode, jax_only=jax_only)
    val = it.call_function(fn, [X.Num(X.Poly.atom(G), 'E'), X.Num(X.Poly.atom(RHO), 'S')], {})
    return fn, val, it


def rho_mono(m):
    """Power of rho if the monomial is rho^k (k may be 0) else None."""
    if m == ():
        return 0
    if len(m) == 1 and m[0][0] == RHO:
        return m[0][1]
    return None


def shifted_arg(p, sign):
    """If p == k*(g - ext) with k = c*rho^j, sign*c > 0 and ext = max (sign>0) / min (sign<0) of g:
    return (ext_atom, c, j) else None."""
    if len(p.t) != 2:
        return None
    gt = et = None
    for m, c in p.t.items():
        rest = tuple(ap for ap in m if ap[0] != RHO)
        j = sum(k for a, k in m if a == RHO)
        if rest == ((G, 1),):
            gt = (c, j)
        elif len(rest) == 1 and rest[0][1] == 1 and rest[0][0][0] == 'red' and rest[0][0][1] in ('max', 'min'):
            et = (c, j, rest[0][0])
    if gt is None or et is None:
        return None
    (cg, jg), (ce, je, ext) = gt, et
    want = 'max' if sign > 0 else 'min'
    if ext[1] != want or X.Poly.from_key(ext[2]) != X.Poly.atom(G):
        return None
    if ce != -cg or je != jg or sign * cg <= 0:
        return None
    return ext, cg, jg


def lse_family(p, sign):
    """(True, text) if p = ext + beta*log(sum(exp(k*(g-ext)))) with sign*beta = c/rho, 0 < c <= 1, else (False, why)."""
    if len(p.t) != 2:
        return False, 'value is not of the form  ext + beta*log(sum(exp(.)))'
    ext_term = log_term = None
    for m, c in p.t.items():
        if len(m) == 1 and m[0][1] == 1 and m[0][0][0] == 'red' and m[0][0][1] in ('max', 'min'):
            ext_term = (c, m[0][0])
        else:
            logs = [(a, k) for a, k in m if a[0] == 'log']
            rest = tuple(ap for ap in m if ap[0][0] != 'log')
            if len(logs) == 1 and logs[0][1] == 1 and rho_mono(rest) is not None:
                log_term = (c, rho_mono(rest), logs[0][0])
    if ext_term is None or log_term is None:
        return False, 'value is not of the form  ext + beta*log(sum(exp(.)))'
    (ce, ext), (cb, kb, la) = ext_term, log_term
    if ce != 1:
        return False, f'the extremum enters the value with coefficient {ce}, not 1'
    s = X.Poly.from_key(la[1]).single()
    if s is None or s[0] != 1 or len(s[1]) != 1 or s[1][0][1] != 1 or s[1][0][0][0] != 'red' or s[1][0][0][1] != 'sum':
        return False, 'the logarithm is not taken of a plain sum of exponentials'
    red = s[1][0][0]
    inner = X.Poly.from_key(red[2]).single()
    if inner is None or inner[0] != 1 or len(inner[1]) != 1 or inner[1][0][1] != 1 or inner[1][0][0][0] != 'exp':
        return False, 'the logarithm is not taken of a plain sum of exponentials'
    sh = shifted_arg(X.Poly.from_key(inner[1][0][0][1]), sign)
    if sh is None:
        return False, ('the exponent is not k*(g - ext) with the %s over the aggregated axis and %s k'
                       % ('maximum' if sign > 0 else 'minimum', 'positive' if sign > 0 else 'negative'))
    if sh[0] != ext:
        return False, 'the extremum added outside is not the one subtracted inside the exponential'
    if red[3] != ext[3]:
        return False, 'sum and extremum are taken over different axes'
    if kb != -1 or not (0 < sign * cb <= 1):
        return False, f'the log term is scaled by {cb}*rho^{kb}, not by c/rho with 0 < c <= 1'
    return True, (f'value = {ext[1]}(g) {"+" if sign > 0 else "-"} ({abs(cb)}/rho)*log(sum(exp({sh[1]}*rho^{sh[2]}*(g - '
                  f'{ext[1]}(g)))))')


SAMPLES = [
    np.array([[0.0, 0.0, 0.0], [1.0, 1.0, 1.0]]),
    np.array([[0.3, -0.2, 0.1], [2.0, 1.9, -5.0]]),
    np.array([[1000.0, 0.0, -1000.0], [-3000.0, -1000.0, -1000.5]]),
    np.array([[-7.0, -7.0, -9.0], [40.0, 12.0, 40.0]]),
    np.array([[1.0e5, 1.0e5 - 1.0e-3, 0.0], [-1.0e5, -2.0e5, -1.0e5]]),
    np.array([[-1000.0, -1001.5, -1003.0], [-2000.0, -2000.0, -2500.0]]),     # all negative, large magnitude
    np.array([[1000.0, 1001.5, 1003.0], [2000.0, 2000.0, 2500.0]]),           # all positive, large magnitude
    np.array([[-0.75, -0.5, -0.5], [-2.0, -1.0, -3.0]]),
    np.array([[0.75, 0.5, 0.5], [2.0, 1.0, 3.0]]),
]
RHOS = [0.5, 3.0, 50.0, 2000.0, 1.0e6]


def bracket_witness(p, sign, mode):
    """Concrete (array, rho) for which the modelled value leaves the bracket, as text; None if none found."""
    with np.errstate(all='ignore'):
        for arr in SAMPLES:
            for rho in RHOS:
                b = {G: arr, RHO: rho, '__shape__': arr.shape}
                try:
                    v = np.asarray(X.ev_poly(p, b), dtype=float)
                except X.Unknown:
                    return None
                ax = -1 if mode == '2d' else None
                n = arr.shape[-1] if mode == '2d' else arr.size
                ext = (np.max if sign > 0 else np.min)(arr, axis=ax, keepdims=True)
                try:
                    v = np.broadcast_to(v, ext.shape)
                except ValueError:
                    return f'for g={arr.tolist()} the value has shape {v.shape}, expected one value per aggregate'
                lo, hi = (ext, ext + math.log(n) / rho) if sign > 0 else (ext - math.log(n) / rho, ext)
                tol = 1e-7 * (1.0 + np.abs(ext)) + 1e-9
                badm = ~((v >= lo - tol) & (v <= hi + tol))
                if badm.any():
                    i = int(np.argmax(badm.ravel()))
                    row = arr[i] if mode == '2d' else arr.ravel()
                    return (f'for g={row.tolist()}, rho={rho} the modelled value is {float(v.ravel()[i])!r}, outside '
                            f'[{float(lo.ravel()[i])!r}, {float(hi.ravel()[i])!r}]')
    return None


def numeric_diff(p, q):
    """Concrete point where the two normal forms differ (text) or None."""
    arr = np.array([[0.3, -0.2, 0.1, 0.25], [2.0, 1.9, -5.0, 1.0]])
    with np.errstate(all='ignore'):
        for rho in (0.7, 3.0):
            b = {G: arr, RHO: rho, '__shape__': arr.shape}
            try:
                a = np.broadcast_to(np.asarray(X.ev_poly(p, b), dtype=float), arr.shape)
                c = np.broadcast_to(np.asarray(X.ev_poly(q, b), dtype=float), arr.shape)
            except (X.Unknown, ValueError):
                return None
            if not np.allclose(a, c, rtol=1e-9, atol=1e-12, equal_nan=False):
                return (f'for g={arr[0].tolist()}, rho={rho}: code gives {np.round(a[0], 6).tolist()}, exact derivative '
                        f'is {np.round(c[0], 6).tolist()}')
    return None


def run_sym(out, fn, thunk):
    """Run a symbolic evaluation; translate Defect / Unknown into verdicts.  Returns result or None."""
    try:
        return thunk()
    except X.Defect as d:
        out.bad(fn, d.node, d.why, key=d.key)
    except X.Unknown as u:
        out.unsure(fn, u.node if isinstance(u.node, ast.AST) else None, f'outside the modelled fragment: {u.why}')
    return None


# ------------------------------------------------------------------------------------------ C25.lse
LSE_ANCHORS = [(KS, 'KSfunction.compute', '2d', +1, False),
               (JAX, 'ks_max', 'nd', +1, True),
               (JAX, 'ks_min', 'nd', -1, True)]


@rule('C25.lse', floor=3)
def lse(repo, out):
    """Value is the shifted log-sum-exp family (bracket is a theorem), same extremum in/out, stable exponent, right axis."""
    for rel, qn, mode, sign, jax_only in LSE_ANCHORS:
        fn = repo.func(rel, qn)
        if jax_only and set(fn.decorators()) - {'jit'}:
            out.unsure(fn, fn.node, f'decorators {fn.decorators()}: a custom derivative rule may be attached')
            continue
        res = run_sym(out, fn, lambda: sym_call(repo, rel, qn, mode, jax_only))
        if res is None:
            continue
        _, val, it = res
        want_shape = 'RK' if mode == '2d' else 'A'
        if not isinstance(val, X.Num) or val.shape != want_shape:
            out.unsure(fn, fn.node, f'return value is not one number per aggregate (shape tag '
                       f'{getattr(val, "shape", type(val).__name__)})')
            continue
        fam, text = lse_family(val.p, sign)
        unstable = [(n, p) for n, p in it.exp_args if shifted_arg(p, sign) is None]
        out.count('exp_sites', len(it.exp_args))
        if fam and not unstable:
            if bracket_witness(val.p, sign, mode) is not None:
                raise AnalysisError(f'{fn.ident}: model inconsistency (family member with a numeric counterexample)')
            out.ok(fn, fn.node, text + f'; all {len(it.exp_args)} exponential(s) of the shifted quantity')
            continue
        w = bracket_witness(val.p, sign, mode)
        if w is not None:
            out.bad(fn, unstable[0][0] if unstable else fn.node,
                    f'returned value {X.show(val.p)} does not bracket the {"maximum" if sign > 0 else "minimum"}: '
                    f'{w} ({text})', key='bracket')
        elif fam:
            out.unsure(fn, unstable[0][0], 'value is algebraically the shifted log-sum-exp but an exponential is taken '
                       f'of {X.show(unstable[0][1])}, which is not the shifted non-positive quantity (overflow for '
                       'large magnitudes)')
        else:
            out.unsure(fn, fn.node, f'value {X.show(val.p)} not recognised: {text}; no counterexample found')


# ------------------------------------------------------------------------------------------ KSComp level
def option_aliases(fn):
    """Local names bound to self.options in fn (plus the attribute path itself)."""
    al = {'self.options'}
    for st in astx.walk_stmts(fn.node.body):
        if isinstance(st, ast.Assign) and astx.path(st.value) == 'self.options':
            al |= {t.id for t in st.targets if isinstance(t, ast.Name)}
    return al


_CMPTXT = {ast.Lt: '<', ast.Gt: '>', ast.LtE: '<=', ast.GtE: '>=', ast.Eq: '==', ast.NotEq: '=='}
_CMPSWAP = {ast.Lt: ast.Gt, ast.Gt: ast.Lt, ast.LtE: ast.GtE, ast.GtE: ast.LtE, ast.Eq: ast.Eq, ast.NotEq: ast.NotEq}


def tested_options(fns):
    """Atoms of the branch conditions of the given methods: names of options read as booleans, and
    (name, op, int) for comparisons of an option with an integer literal (same normalisation as lib_c25)."""
    names = set()
    for fn in fns:
        al = option_aliases(fn)

        def optname(e):
            if isinstance(e, ast.Subscript) and astx.const_str(e.slice) and astx.path(e.value) in al:
                return astx.const_str(e.slice)
            return None
        for n in astx.walk(fn.node):
            t = n.test if isinstance(n, (ast.If, ast.IfExp)) else None
            if t is None:
                continue
            used = set()
            for c in astx.walk(t):
                if isinstance(c, ast.Compare) and len(c.ops) == 1 and type(c.ops[0]) in _CMPTXT:
                    l, r, op = c.left, c.comparators[0], type(c.ops[0])
                    if isinstance(l, ast.Constant):
                        l, r, op = r, l, _CMPSWAP[op]
                    if optname(l) and isinstance(r, ast.Constant) and isinstance(r.value, int) and \
                            not isinstance(r.value, bool):
                        names.add((optname(l), _CMPTXT[op], r.value))
                        used.add(id(l))
            for sub in astx.walk(t):
                if optname(sub) and id(sub) not in used:
                    names.add(optname(sub))
    return sorted(names, key=repr)


def helper_structs(repo):
    """Return structure (shape tags) of every two-parameter static helper of KSfunction."""
    m = repo.module(KS)
    out = {}
    for qn, f in m.funcs.items():
        if not qn.startswith('KSfunction.') or 'staticmethod' not in f.decorators():
            continue
        a = f.node.args
        if len(a.args) != 2:
            continue
        try:
            _, val, _ = sym_call(repo, KS, qn, '2d')
        except (X.Unknown, X.Defect):
            # fall back to the arity of the returned tuple; shapes as documented
            rets = [s for s in astx.walk_stmts(f.node.body) if isinstance(s, ast.Return) and s.value is not None]
            if len(rets) == 1 and isinstance(rets[0].value, ast.Tuple):
                out[qn] = tuple(['E'] + ['RK'] * (len(rets[0].value.elts) - 1))
            elif len(rets) == 1:
                out[qn] = 'RK'
            continue
        if isinstance(val, X.Num):
            out[qn] = val.shape
        elif isinstance(val, X.Tup) and all(isinstance(x, X.Num) for x in val.items):
            out[qn] = tuple(x.shape for x in val.items)
    return out


def run_component(repo, qn, valuation, structs):
    """Symbolically run KSComp.<qn>(inputs, second) -> (fn, interpreter)."""
    fn = repo.func(KS, qn)
    it = X.Interp(repo, mode='2d', valuation=valuation, opaque=structs)
    second = 'outputs' if qn.endswith('.compute') else 'partials'
    params = [a.arg for a in fn.node.args.args]
    if len(params) < 3:
        raise X.Unknown(fn.node, 'unexpected signature')
    it.call_function(fn, [X.Obj('inputs'), X.Obj(second)], {})
    return fn, it


def parse_sink(it, tag):
    """The single store into outputs/partials as (key, coeff, call_atom, Num, stmt)."""
    sinks = [(k, v) for k, v in it.sinks.items() if k[0] == tag]
    if len(sinks) != 1:
        raise X.Unknown(None, f'{len(sinks)} stores into {tag}')
    (k, (num, st)), = sinks
    s = num.p.single()
    if s is None or len(s[1]) != 1 or s[1][0][1] != 1 or s[1][0][0][0] != 'call':
        raise X.Unknown(st, f'stored value {X.show(num.p)} is not +-(one KS helper result)')
    return k[1], s[0], s[1][0][0], num, st


def valuations(repo):
    fns = [repo.func(KS, 'KSComp.compute'), repo.func(KS, 'KSComp.compute_partials')]
    names = tested_options(fns)
    if not names:
        raise AnalysisError('KSComp.compute tests no option: lower_flag / minimum handling not found')
    if len(names) > 4:
        raise AnalysisError(f'too many options tested: {names}')
    cmp_opts = [k[0] for k in names if isinstance(k, tuple)]
    if len(cmp_opts) != len(set(cmp_opts)):
        raise AnalysisError(f'several comparisons of the same numeric option: {names}')
    return names, [dict(zip(names, bits)) for bits in itertools.product((False, True), repeat=len(names))]


def fmt_val(v):
    return ', '.join((f'{k}={v[k]}' if isinstance(k, str) else f"({k[0]} {k[1]} {k[2]})={v[k]}") for k in sorted(v, key=repr))


SINGLE = ('width', '==', 1)          # the aggregate of one column is that column: KS(c) = c, dKS/dc = 1
KNOWN_ATOMS = {'lower_flag', 'minimum', SINGLE}


def single_column(v):
    return bool(v.get(SINGLE, False))


def cached_atoms(p):
    return sorted({a[1] for m in p.t for a, _ in m if X.is_cached(a)})


STALE = ('%s: the value is a copy taken outside compute, so a change of the option after setup is ignored and the '
         'result no longer refers to the current option value')


def _bad_offset(bad, fc, st, tag, A, rem, cg):
    if cached_atoms(rem):
        bad(fc, st, f'[{tag}] the constraint array is offset by ' + STALE % X.show(rem), 'compute-upper')
        return
    if any(a != OPT_UPPER for m in rem.t for a, _ in m):
        raise X.Unknown(st, f'offset {X.show(rem)} of the aggregated array not recognised')
    bad(fc, st, f"[{tag}] the aggregate is taken of {X.show(A)}; 'upper' is not honoured (expected "
        f"{'-' if cg < 0 else ''}(inputs['g'] - options['upper']))", 'compute-upper')


def _raw_sink(it, tag_):
    sinks = [(k, v) for k, v in it.sinks.items() if k[0] == tag_]
    if len(sinks) != 1:
        raise X.Unknown(None, f'{len(sinks)} stores into {tag_}')
    (k, (num, st)), = sinks
    return k[1], num, st


def _parity_single(repo, out, bad, v, structs, fc, fp, tag):
    """width == 1: KS(c, rho) = c and dKS/dc = 1 exactly, so compute must return (-1)^lower_flag * (g - upper)
    and compute_partials its derivative, whichever path (helper or shortcut) the code takes."""
    L = v.get('lower_flag', False)
    want = -1 if L else 1

    def degenerate(a):
        if a[0] != 'call':
            return None
        shape = structs.get(a[1])
        if a[2] is None:
            return X.Poly.from_key(a[3][0])
        if isinstance(shape, tuple) and shape[a[2]] == 'E':
            return X.Poly.const(1)
        raise X.Unknown(None, f'{a[1]}[{a[2]}] has no single-column meaning')
    got = None
    try:
        _, it = run_component(repo, 'KSComp.compute', v, structs)
        okey, num, st = _raw_sink(it, 'outputs')
        if it.tested - KNOWN_ATOMS or okey != 'KS':
            raise X.Unknown(st, f'behaviour depends on {sorted(it.tested - KNOWN_ATOMS, key=repr)} / output {okey!r}')
        V = X.substitute(num.p, degenerate)
        cg = V.t.get(((IN_G, 1),))
        others = [m for m in V.t if any(a == IN_G for a, _ in m) and m != ((IN_G, 1),)]
        if cg is None or others or abs(cg) != 1:
            raise X.Unknown(st, f'single-column output {X.show(V)} is not +-(g - upper)')
        got = cg
        problems = 0
        if cg != want:
            problems += 1
            bad(fc, st, f'[{tag}] with one column the aggregate is the column itself, so the output must be '
                f"{'-' if want < 0 else ''}(inputs['g'] - options['upper']); the code returns {X.show(V)} (the sign "
                'reversals of lower_flag / minimum are not applied on this path)', 'compute-single-column')
        rem = V - X.Poly.atom(IN_G).scale(cg)
        if rem != X.Poly.atom(OPT_UPPER).scale(-cg):
            problems += 1
            _bad_offset(bad, fc, st, tag, V, rem, cg)
        if not problems:
            out.ok(fc, st, f"[{tag}] outputs['KS'] = {X.show(V)} (single column)")
    except X.Defect as d:
        bad(fc, d.node, d.why, d.key)
    except X.Unknown as u:
        out.unsure(fc, u.node if isinstance(u.node, ast.AST) else None, f'[{tag}] {u.why}')
    try:
        _, it = run_component(repo, 'KSComp.compute_partials', v, structs)
        pkey, num, st = _raw_sink(it, 'partials')
        if it.tested - KNOWN_ATOMS:
            raise X.Unknown(st, f'behaviour depends on {sorted(it.tested - KNOWN_ATOMS, key=repr)}')
        P = X.substitute(num.p, degenerate)
        c = P.const_value()
        if c is None:
            raise X.Unknown(st, f'single-column partial {X.show(P)} is not a constant')
        ref = got if got is not None else want
        if c != ref:
            bad(fp, st, f'[{tag}] with one column the partial is {X.show(P)} but the derivative of the value returned '
                f'by compute is {int(ref):+d}', 'partials-sign')
        else:
            out.ok(fp, st, f'[{tag}] partials{list(pkey)} = {X.show(P)} (single column)')
    except X.Defect as d:
        bad(fp, d.node, d.why, d.key)
    except X.Unknown as u:
        out.unsure(fp, u.node if isinstance(u.node, ast.AST) else None, f'[{tag}] {u.why}')


@rule('C25.parity', floor=8)
def parity(repo, out):
    """compute = s_out*KS(s_in*(g-upper), rho-option), partials = s_out*s_in*dKS at the same argument, all option valuations."""
    names, vals = valuations(repo)
    structs = helper_structs(repo)
    fc = repo.func(KS, 'KSComp.compute')
    fp = repo.func(KS, 'KSComp.compute_partials')
    reported = set()

    def bad(fn, node, why, key):
        # one instance per (method, valuation, clause): a violation under some valuations must not make the
        # rule fall below its floor; the key is shared so that the finding stays one construct
        reported.add((fn.qualname, key))
        out.bad(fn, node, why, key=key)

    for v in vals:
        L, M = v.get('lower_flag', False), v.get('minimum', False)
        s_in = -1 if L != M else 1
        s_out = -1 if M else 1
        tag = fmt_val(v)
        if single_column(v):
            _parity_single(repo, out, bad, v, structs, fc, fp, tag)
            continue
        # ---- compute
        actual = None
        try:
            _, it = run_component(repo, 'KSComp.compute', v, structs)
            okey, c, atom, num, st = parse_sink(it, 'outputs')
            extra = it.tested - KNOWN_ATOMS
            if extra:
                raise X.Unknown(st, f'behaviour depends on option(s) {sorted(extra, key=repr)} not named by the property')
            if atom[2] is not None or len(atom[3]) != 2:
                raise X.Unknown(st, 'aggregate is not a (array, rho) helper returning one value')
            A, R = X.Poly.from_key(atom[3][0]), X.Poly.from_key(atom[3][1])
            cg = A.t.get(((IN_G, 1),))
            others = [m for m in A.t if any(a == IN_G for a, _ in m) and m != ((IN_G, 1),)]
            if cg is None or others or abs(cg) != 1 or abs(c) != 1:
                raise X.Unknown(st, f'aggregated array {X.show(A)} is not +-(g - upper) / output not +-KS')
            actual = (atom[3], c * cg)
            problems = 0
            rs = R.single()
            if cached_atoms(R):
                problems += 1
                bad(fc, st, f'[{tag}] KS is evaluated with rho = ' + STALE % X.show(R), 'compute-rho')
            elif rs is not None and rs[1] == ((OPT_RHO, 1),) and rs[0] >= 1:
                pass   # KS with c*rho, c >= 1, is inside [ext, ext + ln(n)/rho] as well
            elif R.is_const() or (rs is not None and rs[1] == ((OPT_RHO, 1),)):
                problems += 1
                bad(fc, st, f"[{tag}] KS is evaluated with rho = {X.show(R)} instead of options['rho']: the distance to "
                    "the extremum is bounded by ln(n)/that, which exceeds ln(n)/options['rho'] for admissible rho",
                    'compute-rho')
            else:
                raise X.Unknown(st, f'aggregation factor {X.show(R)} not recognised')
            if cg != s_in:
                problems += 1
                bad(fc, st, f'[{tag}] the constraint array enters the aggregate as {X.show(A)}: sign {int(cg):+d}, the '
                    f'property requires {s_in:+d} (lower_flag reverses the input, minimum reverses input and output)',
                    'compute-input-sign')
            rem = A - X.Poly.atom(IN_G).scale(cg)
            if rem != X.Poly.atom(OPT_UPPER).scale(-cg):
                problems += 1
                _bad_offset(bad, fc, st, tag, A, rem, cg)
            if c != s_out:
                problems += 1
                bad(fc, st, f'[{tag}] the output is {int(c):+d} * KS(...), the property requires {s_out:+d} '
                    '(minimum = -KS_max(-c))', 'compute-output-sign')
            if okey != 'KS':
                raise X.Unknown(st, f'output {okey!r}')
            if not problems:
                out.ok(fc, st, f"[{tag}] outputs['KS'] = {X.show(num.p)}")
        except X.Defect as d:
            bad(fc, d.node, d.why, d.key)
        except X.Unknown as u:
            out.unsure(fc, u.node if isinstance(u.node, ast.AST) else None, f'[{tag}] {u.why}')
        # ---- compute_partials
        try:
            _, it = run_component(repo, 'KSComp.compute_partials', v, structs)
            pkey, c, atom, num, st = parse_sink(it, 'partials')
            extra = it.tested - KNOWN_ATOMS
            if extra:
                raise X.Unknown(st, f'behaviour depends on option(s) {sorted(extra, key=repr)} not named by the property')
            if atom[2] is None or len(atom[3]) != 2 or abs(c) != 1:
                raise X.Unknown(st, 'partial is not +-(one element of a derivative helper result)')
            if actual is None:
                # compute not parsed under this valuation: compare with the specification instead
                want_arg = ((X.Poly.atom(IN_G) - X.Poly.atom(OPT_UPPER)).scale(s_in).key(), X.Poly.atom(OPT_RHO).key())
                want_sign = s_in * s_out
            else:
                want_arg, want_sign = actual
            problems = 0
            if atom[3] != want_arg:
                problems += 1
                a_, r_ = (X.show(X.Poly.from_key(k)) for k in atom[3])
                wa, wr = (X.show(X.Poly.from_key(k)) for k in want_arg)
                bad(fp, st, f'[{tag}] derivative is evaluated at (array={a_}, rho={r_}) but compute aggregates '
                    f'(array={wa}, rho={wr}): the partial is not the derivative of the returned value',
                    'partials-argument')
            if c != want_sign:
                problems += 1
                bad(fp, st, f'[{tag}] partial is {int(c):+d} * dKS, chain rule through compute gives {int(want_sign):+d} '
                    '(= output sign * input sign)', 'partials-sign')
            if num.shape not in ('FC', 'FF', 'E'):
                raise X.Unknown(st, f'partial has shape tag {num.shape}')
            if not problems:
                out.ok(fp, st, f'[{tag}] partials{list(pkey)} = {X.show(num.p)}')
        except X.Defect as d:
            bad(fp, d.node, d.why, d.key)
        except X.Unknown as u:
            out.unsure(fp, u.node if isinstance(u.node, ast.AST) else None, f'[{tag}] {u.why}')


# ------------------------------------------------------------------------------------------ C25.grad
@rule('C25.grad', floor=1)
def grad(repo, out):
    """The derivative element KSComp.compute_partials uses is the exact symbolic derivative of the value KSComp.compute uses."""
    names, vals = valuations(repo)
    structs = helper_structs(repo)
    fp = repo.func(KS, 'KSComp.compute_partials')
    pairs = set()
    for v in vals:
        if single_column(v):
            continue   # decided by C25.parity with KS(c) = c
        try:
            _, it = run_component(repo, 'KSComp.compute', v, structs)
            _, _, vatom, _, _ = parse_sink(it, 'outputs')
            _, it2 = run_component(repo, 'KSComp.compute_partials', v, structs)
            _, _, datom, _, st = parse_sink(it2, 'partials')
        except X.Defect:
            continue   # reported by C25.parity
        except X.Unknown as u:
            out.unsure(fp, u.node if isinstance(u.node, ast.AST) else None, f'[{fmt_val(v)}] {u.why}')
            return
        pairs.add((vatom[1], datom[1], datom[2]))
    if not pairs:
        raise AnalysisError('no (value helper, derivative helper) pair found in KSComp')
    for vqn, dqn, idx in sorted(pairs, key=repr):
        fd = repo.func(KS, dqn)
        fv = repo.func(KS, vqn)
        r1 = run_sym(out, fv, lambda: sym_call(repo, KS, vqn, '2d'))
        r2 = run_sym(out, fd, lambda: sym_call(repo, KS, dqn, '2d'))
        if r1 is None or r2 is None:
            continue
        val, der = r1[1], r2[1]
        if not isinstance(val, X.Num):
            out.unsure(fv, fv.node, 'value helper does not return a single array')
            continue
        items = der.items if isinstance(der, X.Tup) else [der] if idx is None else None
        if items is None or idx is None or not (0 <= idx < len(items)) or not isinstance(items[idx], X.Num):
            out.unsure(fd, fd.node, f'element {idx} of the derivative helper not recognised')
            continue
        code = items[idx]
        ret = [s for s in astx.walk_stmts(fd.node.body) if isinstance(s, ast.Return)]
        at = ret[-1] if ret else fd.node
        try:
            exact = X.total(val.p, G, fv.node)
        except X.Unknown as u:
            out.unsure(fv, fv.node, f'cannot differentiate {X.show(val.p)}: {u.why}')
            continue
        if code.p == exact and code.shape == 'E':
            out.ok(fd, at, f'{dqn}(g, rho)[{idx}] = {X.show(code.p)} = d {vqn}(g, rho) / d g (symbolically)')
        else:
            w = numeric_diff(code.p, exact) if code.shape == 'E' else \
                f'element {idx} has shape tag {code.shape}, d value / d g has the shape of g'
            if w is not None:
                out.bad(fd, at, f'{dqn}(g, rho)[{idx}] = {X.show(code.p)} but d {vqn}(g, rho)/dg = {X.show(exact)}; {w}',
                        key='dKS_dg')
            else:
                out.unsure(fd, at, f'{X.show(code.p)} and {X.show(exact)} differ formally but no numeric difference found')
        # observation only: derivative with respect to rho (not an input of KSComp, not stated by the property)
        try:
            exact_r = X.total(val.p, RHO, fv.node)
            for i, x in enumerate(items):
                if i != idx and isinstance(x, X.Num) and x.shape in ('RK', 'R1', 'A') and x.p != exact_r:
                    msg = (f'{dqn}(g, rho)[{i}] = {X.show(x.p)} is not d {vqn}/d rho = {X.show(exact_r)} '
                           '(element unused by KSComp; outside the property statement)')
                    out.note(msg)
                    out.count('drho_mismatch', 1)
                    if ARM_DRHO:
                        out.bad(fd, at, msg, key='dKS_drho')
        except X.Unknown:
            pass


# ------------------------------------------------------------------------------------------ C25.pattern
SHAPES = [(2, 3), (3, 2), (1, 4), (3, 1), (2, 2)]


def _find_call(fn, attr, first_arg=None, kw=None):
    hits = []
    for c in astx.calls(fn.node):
        if astx.callee_attr(c) != attr or astx.path(astx.receiver(c)) != 'self':
            continue
        if first_arg is not None:
            a0 = astx.arg(c, 0, 'name')
            if astx.const_str(a0) != first_arg:
                continue
        if kw is not None and any(astx.const_str(astx.kwarg(c, k)) != v for k, v in kw.items()):
            continue
        hits.append(c)
    return hits


@rule('C25.pattern', floor=1)
def pattern(repo, out):
    """Declared rows/cols of dKS/dg match the flattening order of the stored partials and the shapes of g and KS."""
    fs = repo.func(KS, 'KSComp.setup')
    fp = repo.func(KS, 'KSComp.compute_partials')
    names, vals = valuations(repo)
    structs = helper_structs(repo)
    orders = set()
    pkeys = set()
    for v in vals:
        if single_column(v):
            continue
        try:
            _, it = run_component(repo, 'KSComp.compute_partials', v, structs)
            pkey, _, _, num, st = parse_sink(it, 'partials')
        except X.Defect:
            continue
        except X.Unknown as u:
            out.unsure(fp, u.node if isinstance(u.node, ast.AST) else None, u.why)
            return
        orders.add(num.shape)
        pkeys.add(pkey)
    if len(orders) != 1 or len(pkeys) != 1 or next(iter(orders)) not in ('FC', 'FF'):
        out.unsure(fp, fp.node, f'partials are not stored as one flattened array (shape tags {sorted(orders)})')
        return
    order = next(iter(orders))
    of, wrt = next(iter(pkeys))
    decl = _find_call(fs, 'declare_partials', kw={'of': of, 'wrt': wrt}) or \
        [c for c in _find_call(fs, 'declare_partials') if astx.const_str(astx.arg(c, 0, 'of')) == of and
         astx.const_str(astx.arg(c, 1, 'wrt')) == wrt]
    ins = _find_call(fs, 'add_input', first_arg=wrt)
    outs = _find_call(fs, 'add_output', first_arg=of)
    if len(decl) != 1 or len(ins) != 1 or len(outs) != 1:
        out.unsure(fs, fs.node, f'declare_partials({of!r}, {wrt!r}) / add_input / add_output not found exactly once')
        return
    decl, ins, outs = decl[0], ins[0], outs[0]
    rows_e, cols_e = astx.kwarg(decl, 'rows'), astx.kwarg(decl, 'cols')
    if rows_e is None or cols_e is None:
        out.unsure(fs, decl, 'partials declared without rows/cols')
        return
    if any(isinstance(a, (ast.If, ast.For, ast.While, ast.Try, ast.With)) for a in astx.ancestors(decl)
           if a is not fs.node):
        out.unsure(fs, decl, 'declare_partials is conditional')
        return
    for vs, w in SHAPES:
        ev = X.IntEval(fs, {'vec_size': vs, 'width': w})
        try:
            env = ev.run(fs.node.body, {})
            rows, cols = list(ev.ev(rows_e, env)), list(ev.ev(cols_e, env))
            gshape = ev.ev(astx.kwarg(ins, 'shape'), env) if astx.kwarg(ins, 'shape') is not None else None
            kshape = ev.ev(astx.kwarg(outs, 'shape'), env) if astx.kwarg(outs, 'shape') is not None else None
        except X.Defect as d:
            out.bad(fs, d.node, f'for vec_size={vs}, width={w}: {d.why}', key='rows-cols')
            return
        except (X.Unknown, TypeError) as u:
            out.unsure(fs, decl, f'index pattern not evaluable: {getattr(u, "why", u)}')
            return
        if gshape != (vs, w) or not isinstance(kshape, tuple) or len(kshape) not in (1, 2) or \
                kshape[0] != vs or any(k != 1 for k in kshape[1:]):
            out.unsure(fs, ins, f'shapes of g / KS are {gshape} / {kshape}, expected (vec_size, width) / (vec_size, 1)')
            return
        n = vs * w
        want = []
        for p in range(n):
            i, k = divmod(p, w) if order == 'FC' else (p % vs, p // vs)
            want.append((i, i * w + k))
        got = list(zip(rows, cols))
        out.count('shapes', 1)
        if got != want:
            if len(rows) != n or len(cols) != n:
                why = f'rows/cols have lengths {len(rows)}/{len(cols)}, the flattened partial has {n} entries'
            else:
                p = next(i for i in range(n) if got[i] != want[i])
                why = (f'entry {p} of the stored array is d KS[{want[p][0]}] / d g.flat[{want[p][1]}] but is declared at '
                       f'(row, col) = {got[p]}')
            out.bad(fs, decl, f'for vec_size={vs}, width={w} ({"C" if order == "FC" else "Fortran"}-order flatten in '
                    f'compute_partials): {why}', key='rows-cols')
            return
    out.ok(fs, decl, f'rows/cols = (i, i*width + k) in the {"C" if order == "FC" else "Fortran"} order of the stored '
           f'array for shapes {SHAPES}')


# ------------------------------------------------------------------------------------------ self-test
_V = "        g_max = np.max(np.atleast_2d(g), axis=-1)[:, np.newaxis]\n"
_NEG_MIN = "        if opt['minimum']:\n            con_val = -con_val\n"
_NEG_LOW = "        if opt['lower_flag']:\n            con_val = -con_val\n"

selftest(
    'C25',
    # ---- lse
    Mutant('lse-shift-by-min', KS, 'g_max = np.max(np.atleast_2d(g), axis=-1)', 'g_max = np.min(np.atleast_2d(g), axis=-1)', 'C25.lse'),
    Mutant('lse-no-shift', KS, 'g_diff = g - g_max', 'g_diff = g', 'C25.lse'),
    Mutant('lse-shift-not-added-back', KS, 'KS = g_max + 1.0 / rho * np.log(summation)', 'KS = 1.0 / rho * np.log(summation)', 'C25.lse'),
    Mutant('lse-times-rho', KS, 'KS = g_max + 1.0 / rho * np.log(summation)', 'KS = g_max + rho * np.log(summation)', 'C25.lse'),
    Mutant('lse-sum-axis0', KS, 'summation = np.sum(exponents, axis=-1)[:, np.newaxis]', 'summation = np.sum(exponents, axis=0)[:, np.newaxis]', 'C25.lse'),
    Mutant('lse-max-global', KS, 'g_max = np.max(np.atleast_2d(g), axis=-1)[:, np.newaxis]', 'g_max = np.max(np.atleast_2d(g))', 'C25.lse'),
    Mutant('lse-no-newaxis', KS, 'g_max = np.max(np.atleast_2d(g), axis=-1)[:, np.newaxis]', 'g_max = np.max(np.atleast_2d(g), axis=-1)', 'C25.lse'),
    Mutant('lse-exp-sign', KS, 'exponents = np.exp(rho * g_diff)', 'exponents = np.exp(-rho * g_diff)', 'C25.lse'),
    Mutant('jax-max-unshifted', JAX, 'x_diff = x - x_max', 'x_diff = x', 'C25.lse'),
    Mutant('jax-max-rho-misplaced', JAX, 'return x_max + 1.0 / rho * jnp.log(summation)', 'return x_max + rho * jnp.log(summation)', 'C25.lse'),
    Mutant('jax-min-diff-swapped', JAX, 'x_diff = x_min - x', 'x_diff = x - x_min', 'C25.lse'),
    Mutant('jax-min-plus', JAX, 'return x_min - 1.0 / rho * jnp.log(summation)', 'return x_min + 1.0 / rho * jnp.log(summation)', 'C25.lse'),
    Mutant('jax-min-uses-max', JAX, 'x_min = jnp.min(x)', 'x_min = jnp.max(x)', 'C25.lse'),
    Mutant('lse-precedence', KS, 'KS = g_max + 1.0 / rho * np.log(summation)', 'KS = g_max + 1.0 / (rho * np.log(summation))', 'C25.lse'),
    Mutant('lse-sum-of-shifted', KS, 'summation = np.sum(exponents, axis=-1)[:, np.newaxis]', 'summation = np.sum(g_diff, axis=-1)[:, np.newaxis]', 'C25.lse'),
    Mutant('lse-newaxis-in-front', KS, 'g_max = np.max(np.atleast_2d(g), axis=-1)[:, np.newaxis]', 'g_max = np.max(np.atleast_2d(g), axis=-1)[np.newaxis, :]', 'C25.lse'),
    Mutant('jax-max-shift-clamped-at-zero', JAX, 'x_max = jnp.max(x)', 'x_max = jnp.maximum(jnp.max(x), 0.0)', 'C25.lse'),
    Mutant('jax-min-shift-clamped-at-zero', JAX, 'x_min = jnp.min(x)', 'x_min = jnp.minimum(jnp.min(x), 0.0)', 'C25.lse'),
    Mutant('jax-max-shift-clipped', JAX, 'x_max = jnp.max(x)', 'x_max = jnp.clip(jnp.max(x), -100.0, 100.0)', 'C25.lse'),
    Mutant('jax-max-shift-where', JAX, 'x_max = jnp.max(x)', 'x_max = jnp.where(jnp.max(x) > 0.0, jnp.max(x), 0.0)', 'C25.lse'),
    Mutant('jax-max-shift-offset', JAX, 'x_max = jnp.max(x)', 'x_max = jnp.max(x) + 1.0', 'C25.lse'),
    Mutant('jax-min-shift-offset', JAX, 'x_min = jnp.min(x)', 'x_min = jnp.min(x) - 1.0', 'C25.lse'),
    Mutant('lse-shift-clamped-at-zero', KS, 'g_max = np.max(np.atleast_2d(g), axis=-1)[:, np.newaxis]',
           'g_max = np.maximum(np.max(np.atleast_2d(g), axis=-1)[:, np.newaxis], 0.0)', 'C25.lse'),
    # ---- grad
    Mutant('grad-global-sum', KS, 'dKS_dsum = 1.0 / (rho * summation)', 'dKS_dsum = 1.0 / (rho * np.sum(exponents))', 'C25.grad'),
    Mutant('grad-plain-exponents-ratio', KS, 'dKS_dg = dKS_dsum * dsum_dg', 'dKS_dg = exponents / (1.0 + summation)', 'C25.grad'),
    Mutant('grad-rho-not-cancelled', KS, 'dKS_dsum = 1.0 / (rho * summation)', 'dKS_dsum = 1.0 / summation', 'C25.grad'),
    Mutant('grad-dsum-no-rho', KS, 'dsum_dg = rho * exponents', 'dsum_dg = exponents', 'C25.grad'),
    Mutant('grad-unnormalised', KS, 'dKS_dg = dKS_dsum * dsum_dg', 'dKS_dg = dsum_dg / rho', 'C25.grad'),
    Mutant('grad-wrong-element', KS, "derivs = KSfunction.derivatives(con_val, opt['rho'])[0]", "derivs = KSfunction.derivatives(con_val, opt['rho'])[1]", 'C25.grad'),
    Mutant('grad-value-exp-without-rho', KS, 'exponents = np.exp(rho * g_diff)', 'exponents = np.exp(g_diff)', 'C25.grad'),
    Mutant('grad-value-half-log', KS, 'KS = g_max + 1.0 / rho * np.log(summation)', 'KS = g_max + 0.5 / rho * np.log(summation)', 'C25.grad'),
    # ---- parity
    Mutant('parity-partials-guard-minimum', KS, "        if self.options['lower_flag']:\n            derivs = -derivs", "        if self.options['minimum']:\n            derivs = -derivs", 'C25.parity'),
    Mutant('parity-partials-always-positive', KS, "        if self.options['lower_flag']:\n            derivs = -derivs\n", "", 'C25.parity'),
    Mutant('parity-output-not-negated', KS, "        if opt['minimum']:\n            ks_val = -ks_val\n", "", 'C25.parity'),
    Mutant('parity-input-not-negated-for-min', KS, _NEG_MIN, "", 'C25.parity'),
    Mutant('parity-partials-min-missing', KS, _NEG_MIN, "", 'C25.parity', nth=1),
    Mutant('parity-partials-lower-missing', KS, _NEG_LOW, "", 'C25.parity', nth=1),
    Mutant('parity-upper-dropped-in-partials', KS, "con_val = inputs['g'] - opt['upper']", "con_val = inputs['g']", 'C25.parity', nth=1),
    Mutant('parity-upper-added', KS, "con_val = inputs['g'] - opt['upper']", "con_val = inputs['g'] + opt['upper']", 'C25.parity'),
    Mutant('parity-upper-reversed', KS, "con_val = inputs['g'] - opt['upper']", "con_val = opt['upper'] - inputs['g']", 'C25.parity'),
    Mutant('parity-rho-default-in-compute', KS, "ks_val = KSfunction.compute(con_val, opt['rho'])", "ks_val = KSfunction.compute(con_val)", 'C25.parity'),
    Mutant('parity-rho-default-in-partials', KS, "KSfunction.derivatives(con_val, opt['rho'])[0]", "KSfunction.derivatives(con_val)[0]", 'C25.parity'),
    Mutant('parity-elif-minimum', KS, "            con_val = -con_val\n        if opt['minimum']:\n            con_val = -con_val\n\n        ks_val",
           "            con_val = -con_val\n        elif opt['minimum']:\n            con_val = -con_val\n\n        ks_val", 'C25.parity'),
    Mutant('parity-partials-always-negative', KS, "        if self.options['lower_flag']:\n            derivs = -derivs\n", "        derivs = -derivs\n", 'C25.parity'),
    Mutant('parity-output-negated-on-lower', KS, "        if opt['minimum']:\n            ks_val = -ks_val\n", "        if opt['lower_flag']:\n            ks_val = -ks_val\n", 'C25.parity'),
    Mutant('parity-upper-after-negation', KS, "        con_val = inputs['g'] - opt['upper']\n" + _NEG_LOW,
           "        con_val = inputs['g']\n" + _NEG_LOW + "        con_val = con_val - opt['upper']\n", 'C25.parity'),
    Mutant('parity-half-rho', KS, "ks_val = KSfunction.compute(con_val, opt['rho'])", "ks_val = KSfunction.compute(con_val, 0.5 * opt['rho'])", 'C25.parity'),
    Mutant('parity-rho-cached-in-setup', KS, "        units = opts['units']\n", "        units = opts['units']\n        self._rho = opts['rho']\n", 'C25.parity',
           also=[(KS, "KSfunction.compute(con_val, opt['rho'])", "KSfunction.compute(con_val, self._rho)"),
                 (KS, "KSfunction.derivatives(con_val, opt['rho'])[0]", "KSfunction.derivatives(con_val, self._rho)[0]")]),
    Mutant('parity-rho-cached-partials-only', KS, "        units = opts['units']\n", "        units = opts['units']\n        self._rho = opts['rho']\n", 'C25.parity',
           also=[(KS, "KSfunction.derivatives(con_val, opt['rho'])[0]", "KSfunction.derivatives(con_val, self._rho)[0]")]),
    Mutant('parity-upper-cached-in-setup', KS, "        units = opts['units']\n", "        units = opts['units']\n        self._upper = self.options['upper']\n", 'C25.parity',
           also=[(KS, "con_val = inputs['g'] - opt['upper']", "con_val = inputs['g'] - self._upper")]),
    Mutant('parity-single-column-shortcut-early', KS, "        con_val = inputs['g'] - opt['upper']\n" + _NEG_LOW,
           "        con_val = inputs['g'] - opt['upper']\n        if opt['width'] == 1:\n            outputs['KS'] = con_val\n            return\n" + _NEG_LOW, 'C25.parity'),
    Mutant('parity-single-column-skips-output-negation', KS, _NEG_MIN + "\n        ks_val",
           _NEG_MIN + "        if 1 == opt['width']:\n            outputs['KS'] = con_val\n            return\n\n        ks_val", 'C25.parity'),
    Mutant('parity-single-column-partials-unsigned', KS, "        if self.options['lower_flag']:\n            derivs = -derivs",
           "        if self.options['lower_flag'] and opt['width'] != 1:\n            derivs = -derivs", 'C25.parity'),
    # ---- pattern
    Mutant('pattern-fortran-flatten', KS, "partials['KS', 'g'] = derivs.flatten()", "partials['KS', 'g'] = derivs.flatten(order='F')", 'C25.pattern'),
    Mutant('pattern-transposed', KS, "partials['KS', 'g'] = derivs.flatten()", "partials['KS', 'g'] = derivs.T.flatten()", 'C25.pattern'),
    Mutant('pattern-col-stride', KS, 'cols = np.tile(cols, vec_size) + np.repeat(np.arange(vec_size), width) * width',
           'cols = np.tile(cols, vec_size) + np.repeat(np.arange(vec_size), width) * vec_size', 'C25.pattern'),
    Mutant('pattern-rows-tiled', KS, 'rows = np.tile(rows, vec_size) + np.repeat(np.arange(vec_size), width)',
           'rows = np.tile(rows, vec_size) + np.tile(np.arange(vec_size), width)', 'C25.pattern'),
    Mutant('pattern-cols-repeat', KS, 'cols = np.tile(cols, vec_size) + np.repeat(np.arange(vec_size), width) * width',
           'cols = np.repeat(cols, vec_size) + np.tile(np.arange(vec_size), width) * width', 'C25.pattern'),
    # ---- twins
    Twin('twin-log-over-rho', KS, 'KS = g_max + 1.0 / rho * np.log(summation)', 'KS = np.log(summation) / rho + g_max'),
    Twin('twin-keepdims', KS, 'g_max = np.max(np.atleast_2d(g), axis=-1)[:, np.newaxis]', 'g_max = np.max(g, axis=1, keepdims=True)'),
    Twin('twin-method-sum', KS, 'summation = np.sum(exponents, axis=-1)[:, np.newaxis]', 'summation = exponents.sum(axis=-1, keepdims=True)'),
    Twin('twin-expanded-exponent', KS, 'exponents = np.exp(rho * g_diff)', 'exponents = np.exp(rho * g - g_max * rho)'),
    Twin('twin-softmax-direct', KS, 'dKS_dg = dKS_dsum * dsum_dg', 'dKS_dg = exponents / summation'),
    Twin('twin-returns-swapped', KS, 'return dKS_dg, dKS_drho', 'return dKS_drho, dKS_dg',
         also=[(KS, "KSfunction.derivatives(con_val, opt['rho'])[0]", "KSfunction.derivatives(con_val, opt['rho'])[1]")]),
    Twin('twin-ifexp-output', KS, "        if opt['minimum']:\n            ks_val = -ks_val\n", "        ks_val = -ks_val if opt['minimum'] else ks_val\n"),
    Twin('twin-xor-input', KS, _NEG_LOW + _NEG_MIN, "        if opt['lower_flag'] != opt['minimum']:\n            con_val = -con_val\n"),
    Twin('twin-conditioning-reordered', KS, _NEG_LOW + _NEG_MIN, _NEG_MIN + _NEG_LOW, nth=1),
    Twin('twin-upper-distributed', KS, "        con_val = inputs['g'] - opt['upper']\n        if opt['lower_flag']:\n            con_val = -con_val\n",
         "        if opt['lower_flag']:\n            con_val = opt['upper'] - inputs['g']\n        else:\n            con_val = inputs['g'] - opt['upper']\n"),
    Twin('twin-ravel', KS, "partials['KS', 'g'] = derivs.flatten()", "partials['KS', 'g'] = derivs.ravel()"),
    Twin('twin-fortran-consistent', KS, "partials['KS', 'g'] = derivs.flatten()", "partials['KS', 'g'] = derivs.flatten(order='F')",
         also=[(KS, 'rows = np.tile(rows, vec_size) + np.repeat(np.arange(vec_size), width)',
                'rows = np.tile(np.arange(vec_size), width)'),
               (KS, 'cols = np.tile(cols, vec_size) + np.repeat(np.arange(vec_size), width) * width',
                'cols = np.tile(np.arange(vec_size), width) * width + np.repeat(np.arange(width), vec_size)')]),
    Twin('twin-arange-cols', KS, 'cols = np.tile(cols, vec_size) + np.repeat(np.arange(vec_size), width) * width',
         'cols = np.arange(vec_size * width)'),
    Twin('twin-alias-renamed', KS, "opt = self.options", "o = self.options", nth='all',
         also=[(KS, "opt['", "o['", 'all')]),
    Twin('twin-locals-renamed', KS, 'g_diff', 'shifted', nth='all', also=[(KS, 'con_val', 'c', 'all')]),
    Twin('twin-conditioning-helper', KS, "    def compute(self, inputs, outputs):",
         "    def _conditioned(self, inputs):\n        opt = self.options\n        c = inputs['g'] - opt['upper']\n"
         "        if opt['lower_flag'] != opt['minimum']:\n            c = -c\n        return c\n\n"
         "    def compute(self, inputs, outputs):",
         also=[(KS, "        con_val = inputs['g'] - opt['upper']\n" + _NEG_LOW + _NEG_MIN, "        con_val = self._conditioned(inputs)\n", 'all')]),
    Twin('variant-sharper-rho-consistent', KS, "ks_val = KSfunction.compute(con_val, opt['rho'])", "ks_val = KSfunction.compute(con_val, 2 * opt['rho'])",
         also=[(KS, "KSfunction.derivatives(con_val, opt['rho'])[0]", "KSfunction.derivatives(con_val, 2 * opt['rho'])[0]")]),
    Twin('twin-rho-local', KS, "        ks_val = KSfunction.compute(con_val, opt['rho'])", "        rho = opt['rho']\n        ks_val = KSfunction.compute(con_val, rho=rho)"),
    Twin('twin-rho-live-accessor', KS, "    def compute(self, inputs, outputs):",
         "    def _rho(self):\n        return self.options['rho']\n\n    def compute(self, inputs, outputs):",
         also=[(KS, "KSfunction.compute(con_val, opt['rho'])", "KSfunction.compute(con_val, self._rho())"),
               (KS, "KSfunction.derivatives(con_val, opt['rho'])[0]", "KSfunction.derivatives(con_val, self._rho())[0]")]),
    Twin('twin-single-column-shortcut-correct', KS, "        ks_val = KSfunction.compute(con_val, opt['rho'])\n",
         "        if opt['width'] == 1:\n            ks_val = con_val\n        else:\n            ks_val = KSfunction.compute(con_val, opt['rho'])\n"),
    Twin('twin-single-column-guard-not-equal', KS, "        ks_val = KSfunction.compute(con_val, opt['rho'])\n",
         "        if opt['width'] != 1:\n            ks_val = KSfunction.compute(con_val, opt['rho'])\n        else:\n            ks_val = con_val\n"),
    Twin('twin-jax-max-keepdims-false', JAX, 'x_max = jnp.max(x)', 'x_max = jnp.max(x, keepdims=False)'),
    Twin('twin-jax-shift-in-temporary', JAX, 'x_max = jnp.max(x)\n', 'top = jnp.max(x)\n    x_max = top\n'),
    Twin('twin-jax-shift-idempotent-maximum', JAX, 'x_max = jnp.max(x)', 'x_max = jnp.maximum(jnp.max(x), jnp.max(x))'),
    Twin('twin-jax-log-over-rho', JAX, 'return x_max + 1.0 / rho * jnp.log(summation)', 'return jnp.log(summation) / rho + x_max'),
    Twin('twin-jax-min-negated-diff', JAX, 'x_diff = x_min - x', 'x_diff = -(x - x_min)'),
    Twin('twin-jax-min-mirror', JAX, 'x_diff = x_min - x\n    exponents = jnp.exp(rho * x_diff)',
         'x_diff = x - x_min\n    exponents = jnp.exp(-rho * x_diff)'),
)
