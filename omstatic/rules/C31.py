"""C31 -- derivative queries are read-only (structural clauses).

Decides, from the source only:
  * effect      : every in-place vector mutation in the totals path / jacvec product / list_* touches a
                  *linear* vector, never _inputs/_outputs/_residuals;
  * ctx         : the coloring context and the total-jac context restore every key they set, on the
                  exceptional path too, each from its own snapshot (or to its initial constant);
  * flags       : _tot_jac / recording stack / seed_vars / parallel_deriv_color / checking are reset;
  * check_partials, check_totals, check_totals_guard : snapshot/restore pairing of the two checks;
  * perturb     : the sparsity perturbation iterator restores what it perturbs, callers cover in+out;
  * apply_nl    : ExplicitComponent._apply_nonlinear leaves outputs algebraically unchanged;
  * meta_copy   : totals metadata handed to _TotalJacInfo are copies of the driver's dicts.
"""
import ast

from .. import astx, cfg as cfgm
from ..core import AnalysisError
from ..engine import rule, describe, selftest, Mutant, Twin

TJ = 'openmdao/core/total_jac.py'
PROB = 'openmdao/core/problem.py'
COMP = 'openmdao/core/component.py'
SYS = 'openmdao/core/system.py'
GROUP = 'openmdao/core/group.py'
COLOR = 'openmdao/utils/coloring.py'
EXPL = 'openmdao/core/explicitcomponent.py'
IMPL = 'openmdao/core/implicitcomponent.py'
JAXU = 'openmdao/utils/jax_utils.py'

describe('C31',
         'Decides structural necessary conditions of "derivative queries are read-only": (effect) in '
         'core/total_jac.py, Problem.compute_totals, Problem.compute_jacvec_product and the list_* '
         'functions every in-place vector mutation (set_val/iadd/.../subscript store/augmented '
         'assignment, also through asarray() views and local aliases) has a linear vector as receiver; '
         '(ctx) _compute_total_coloring_context and _totjac_context restore every key they set on both '
         'continuations of the yield from their own snapshot or to the initial constant; (flags) '
         '_tot_jac, the recording stack, seed_vars, parallel_deriv_color and checking are reset on all '
         'paths; (check_partials/check_totals) snapshot/restore wiring, copy-ness, scaling state and '
         'set equality; (check_totals_guard) the restore runs whenever the FD pass ran; (perturb) '
         '_perturbation_iter restores each vector from its own copy and all callers cover inputs and '
         'outputs; (apply_nl) symbolic net effect of ExplicitComponent._apply_nonlinear on outputs is '
         'identity; (meta_copy) _active_desvars/_active_responses copy driver metadata.  Does not '
         'decide run_model determinism, callee behaviour (_solve_linear, _linearize, user code) or the '
         'ulp-level drift of scaling round trips.',
         ['callees (_solve_linear, _linearize, approximation schemes [C12], user components) do not '
          'write nonlinear vectors except as decided by C12',
          'Group.approx_totals sets _has_approx=True which check_totals never restores: tabled out '
          '(capability flag, does not change derivative values)'])

NL_ATTRS = {'_inputs', '_outputs', '_residuals', '_discrete_inputs', '_discrete_outputs'}
LIN_ATTRS = {'_dinputs', '_doutputs', '_dresiduals'}
MUTATORS = {'set_val', 'set_vals', 'set_var', 'set_vec', 'iadd', 'isub', 'imul', 'add_scal_vec',
            'add_to_slice', '_abs_set_val', 'scale_to_norm', 'scale_to_phys', '_scale_forward',
            '_scale_reverse', '__setitem__', '__iadd__', '__isub__', '__imul__'}
# unambiguous "execute / overwrite the nonlinear model" entry points
NL_EXEC = {'run_model', 'run_driver', 'run_solve_nonlinear', '_solve_nonlinear', 'load_case',
           'set_design_var', '_guess_nonlinear'}
VIEW_CALLS = {'_abs_get_val', 'get_slice', '_get_data', 'get_val'}
COPY_CALLS = {'copy', 'deepcopy', 'array', 'zeros', 'ones', 'empty', 'full', 'zeros_like', 'hstack',
              'concatenate', 'arange', 'atleast_1d', 'atleast_2d'}
VEC = ('lin', 'nl', 'vec?')


# --------------------------------------------------------------------------- resolution helpers
class Ctx:
    """Per-function CFG + reaching definitions + alias resolution of vector-valued expressions."""

    def __new__(cls, repo, fn):
        cache = repo.__dict__.setdefault('_c31_ctx', {})
        k = id(fn.node)
        if k not in cache:
            o = object.__new__(cls)
            o.repo, o.fn = repo, fn
            o.g = cfgm.build(fn)
            o._rd = None
            o._dictcls = {}
            cache[k] = o
        return cache[k]

    @property
    def rd(self):
        if self._rd is None:
            self._rd = cfgm.ReachingDefs(self.g)
        return self._rd

    # -- direct classification of an expression that denotes a vector object
    def _is_vectors_dict(self, e, at, fi=False):
        """e denotes <system>._vectors, directly or through a local alias."""
        if isinstance(e, ast.Attribute):
            return e.attr == '_vectors'
        if isinstance(e, ast.Name):
            if fi or at is None:
                vals = self.__dict__.get('_defs_fi', {}).get(e.id, []) if '_defs_fi' in self.__dict__ else None
                if vals is None:
                    return False
                return bool(vals) and all(isinstance(v, ast.Attribute) and v.attr == '_vectors' for v in vals)
            v = self.rd.value(at, e.id)
            return isinstance(v, ast.Attribute) and v.attr == '_vectors'
        return False

    def vec_class(self, e, at=None):
        if isinstance(e, ast.Attribute):
            if e.attr in NL_ATTRS:
                return 'nl'
            if e.attr in LIN_ATTRS:
                return 'lin'
            return None
        if isinstance(e, ast.Subscript):
            v = e.value
            if isinstance(v, ast.Subscript) and self._is_vectors_dict(v.value, at):
                k = astx.const_str(e.slice)
                if k == 'linear':
                    return 'lin'
                if k == 'nonlinear':
                    return 'nl'
                return 'vec?'
            if isinstance(v, ast.Attribute) and v.attr in ('input_vec', 'output_vec') and \
                    astx.path(v.value) == 'self':
                return self._self_dict_class(v.attr)
        return None

    def _self_dict_class(self, attr):
        """Class of the values of the dict stored in self.<attr> by the class's __init__."""
        if attr in self._dictcls:
            return self._dictcls[attr]
        res = 'vec?'
        cls = self.fn.cls
        init = None
        if cls is not None:
            init = self.fn.module.funcs.get(f'{cls.name}.__init__')
        if init is not None:
            found = []
            for st in astx.walk_stmts(init.node.body):
                if isinstance(st, ast.Assign) and any(astx.path(t) == f'self.{attr}' for t in st.targets):
                    found.append(st)
            if len(found) == 1 and isinstance(found[0].value, ast.Dict) and found[0].value.values:
                ks = set()
                for v in found[0].value.values:
                    c = None
                    if isinstance(v, ast.Attribute):
                        c = 'nl' if v.attr in NL_ATTRS else 'lin' if v.attr in LIN_ATTRS else None
                    ks.add(c)
                if ks == {'lin'}:
                    res = 'lin'
                elif 'nl' in ks:
                    res = 'nl'
        self._dictcls[attr] = res
        return res

    # -- origins of a value: set of (class, how) ; class in lin/nl/vec?/copy/param/other
    def origins(self, e, at, depth=0):
        if depth > 10:
            return {('other', 'direct')}
        c = self.vec_class(e, at)
        if c:
            return {(c, 'direct')}
        if isinstance(e, ast.Name):
            if not self._may_be_vector(e.id):
                return {('other', 'direct')}
            ds = self.rd.defs(at, e.id)
            if not ds:
                return {('other', 'direct')}
            out = set()
            for d in ds:
                out |= self._def_origins(d, e.id, depth)
            return out
        if isinstance(e, ast.IfExp):
            return self.origins(e.body, at, depth + 1) | self.origins(e.orelse, at, depth + 1)
        if isinstance(e, ast.Call):
            f = astx.callee_attr(e)
            recv = astx.receiver(e)
            if f == 'asarray' and recv is not None:
                cp = astx.arg(e, 0, 'copy')
                if cp is None or (isinstance(cp, ast.Constant) and cp.value is False):
                    return self._view(self.origins(recv, at, depth + 1), 'view')
                if isinstance(cp, ast.Constant) and cp.value is True:
                    return {('copy', 'direct')}
                return self._view(self.origins(recv, at, depth + 1), 'maybeview')
            if f in VIEW_CALLS and recv is not None:
                return self._view(self.origins(recv, at, depth + 1), 'view')
            if f in COPY_CALLS:
                return {('copy', 'direct')}
            return {('other', 'direct')}
        if isinstance(e, ast.Subscript):
            o = self.origins(e.value, at, depth + 1)
            sl = e.slice
            simple = isinstance(sl, (ast.Slice, ast.Constant)) or \
                (isinstance(sl, ast.Tuple) and all(isinstance(x, (ast.Slice, ast.Constant)) for x in sl.elts))
            # vec[name] is a view of the vector; arr[slice] is a view; arr[fancy] may be a copy
            direct = any(h == 'direct' and k in VEC for k, h in o)
            return self._view(o, 'view' if (simple or direct) else 'maybeview')
        if isinstance(e, ast.Attribute):
            if e.attr in ('_data', 'real', 'imag', 'flat', 'T'):
                return self._view(self.origins(e.value, at, depth + 1), 'view')
            return {('other', 'direct')}
        return {('other', 'direct')}

    def _may_be_vector(self, name, _seen=None):
        """Flow-insensitive over-approximation: can local *name* hold (a view of) a vector or a parameter?

        Used to avoid building reaching definitions for functions that only index dicts/arrays.
        """
        memo = self.__dict__.setdefault('_mbv', {})
        if name in memo:
            return memo[name]
        if _seen is None:
            _seen = set()
        if name in _seen:
            return False
        _seen.add(name)
        if '_defs_fi' not in self.__dict__:
            d = {}
            a = self.fn.node.args
            for arg in a.posonlyargs + a.args + a.kwonlyargs + [x for x in (a.vararg, a.kwarg) if x]:
                if arg.arg not in ('self', 'cls'):
                    d.setdefault(arg.arg, []).append(None)
            for x in astx.walk(self.fn.node):
                if isinstance(x, ast.Assign):
                    for t in x.targets:
                        for nm in astx.walk(t):
                            if isinstance(nm, ast.Name):
                                d.setdefault(nm.id, []).append(x.value)
                elif isinstance(x, ast.For) and isinstance(x.target, ast.Name):
                    d.setdefault(x.target.id, []).append(x.iter)
            self._defs_fi = d
        def may(v):
            if v is None or self.vec_class(v):
                return True
            if isinstance(v, ast.Attribute) and v.attr == '_vectors':
                return True
            if isinstance(v, ast.Name):
                return self._may_be_vector(v.id, _seen)
            if isinstance(v, ast.IfExp):
                return may(v.body) or may(v.orelse)
            if isinstance(v, (ast.Tuple, ast.List)):
                return any(may(x) for x in v.elts)
            if isinstance(v, ast.Call):
                r = astx.receiver(v)
                return r is not None and astx.callee_attr(v) in (VIEW_CALLS | {'asarray'}) and may(r)
            if isinstance(v, ast.Subscript):
                return may(v.value)
            if isinstance(v, ast.Attribute):
                return v.attr in ('_data', 'real', 'imag', 'flat', 'T') and may(v.value)
            return False
        res = any(may(v) for v in self._defs_fi.get(name, []))
        memo[name] = res
        return res

    @staticmethod
    def _view(o, how):
        out = set()
        for k, h in o:
            if k in VEC:
                out.add((k, 'maybeview' if 'maybeview' in (h, how) else 'view'))
            else:
                out.add((k if k in ('copy', 'param') else 'other', 'direct'))
        return out

    def _def_origins(self, d, name, depth):
        if d is self.g.entry:
            return {('param', 'direct')}
        a = d.ast
        if d.kind == 'stmt' and isinstance(a, ast.Assign):
            for t in a.targets:
                if isinstance(t, ast.Name) and t.id == name:
                    return self.origins(a.value, d, depth + 1)
                if isinstance(t, (ast.Tuple, ast.List)) and isinstance(a.value, (ast.Tuple, ast.List)) and \
                        len(t.elts) == len(a.value.elts):
                    for te, ve in zip(t.elts, a.value.elts):
                        if isinstance(te, ast.Name) and te.id == name:
                            return self.origins(ve, d, depth + 1)
            return {('other', 'direct')}
        if d.kind == 'iter' and isinstance(a.target, ast.Name) and a.target.id == name and \
                isinstance(a.iter, (ast.Tuple, ast.List)) and a.iter.elts:
            out = set()
            for el in a.iter.elts:
                out |= self.origins(el, d, depth + 1)
            return out
        if d.kind == 'stmt' and isinstance(a, ast.AugAssign) and isinstance(a.target, ast.Name) and \
                a.target.id == name:
            out = set()
            for d2 in self.rd.defs(d, name):
                if d2 is not d:
                    out |= self._def_origins(d2, name, depth + 1)
            return out or {('other', 'direct')}
        return {('other', 'direct')}

    # -- access path with local aliases of the root substituted (model -> self.model)
    def norm_path(self, e, at, depth=0):
        p = astx.path(e)
        if p is None:
            return None
        root = e
        while isinstance(root, (ast.Attribute, ast.Subscript, ast.Call)):
            root = root.func if isinstance(root, ast.Call) else root.value
        if not isinstance(root, ast.Name) or depth > 4:
            return p
        v = self.rd.value(at, root.id)
        if v is None:
            return p
        vp = self.norm_path(v, next(iter(self.rd.defs(at, root.id))), depth + 1)
        if vp is None or vp == root.id:
            return p
        return vp + p[len(root.id):]


def _mutation_sites(ctx):
    """Yield (cfg node, stmt/call ast, target expr, description) for in-place mutation candidates."""
    for n in ctx.g.nodes:
        if n.kind not in ('stmt', 'test', 'iter', 'with'):
            continue
        if n.tag and not n.tag.endswith('/n'):
            pass
        a = n.ast
        if n.kind == 'stmt' and isinstance(a, ast.AugAssign):
            tgt = a.target.value if isinstance(a.target, ast.Subscript) else a.target
            yield n, a, tgt, 'augmented assignment'
        elif n.kind == 'stmt' and isinstance(a, ast.Assign):
            for t in astx.assigned_targets(a):
                if isinstance(t, ast.Subscript):
                    yield n, a, t.value, 'subscript store'
        for c in n.calls():
            if astx.callee_attr(c) in MUTATORS and astx.receiver(c) is not None:
                yield n, c, astx.receiver(c), f'{astx.callee_attr(c)}()'


# --------------------------------------------------------------------------- C31.effect
# functions that must not touch nonlinear vectors: (file, qualname or '*') -> reason
EFFECT_SCOPE = [
    (TJ, '*', 'totals path (linear solves only)'),
    (PROB, 'Problem.compute_totals', 'public totals entry point'),
    (PROB, 'Problem.compute_jacvec_product', 'public jvp/vjp entry point'),
    (SYS, 'System.list_inputs', 'reporting'),
    (SYS, 'System.list_outputs', 'reporting'),
    (SYS, 'System.list_vars', 'reporting'),
    (SYS, 'System.get_io_metadata', 'reporting helper'),
    (SYS, 'System._abs_get_val', 'value getter used by list_*'),
]
READONLY_FUNCS = {'System.list_inputs', 'System.list_outputs', 'System.list_vars',
                  'System.get_io_metadata', 'System._abs_get_val', 'Problem.compute_totals'}


def _scope_funcs(repo):
    for rel, qn, _ in EFFECT_SCOPE:
        if qn == '*':
            m = repo.module(rel)
            for f in m.funcs.values():
                yield f
        else:
            yield repo.func(rel, qn)


@rule('C31.effect', floor=23)
def effect(repo, out):
    """In the totals path, compute_jacvec_product and list_*: every in-place vector mutation has a linear vector as receiver; no call executes the nonlinear model."""
    nfun = 0
    for fn in _scope_funcs(repo):
        nfun += 1
        body = fn.node
        # cheap pre-filter: anything to look at?
        cand = False
        for x in astx.walk(body):
            if isinstance(x, ast.AugAssign) or (isinstance(x, ast.Call) and
                                                 astx.callee_attr(x) in (MUTATORS | NL_EXEC)):
                cand = True
                break
            if isinstance(x, ast.Assign) and any(isinstance(t, ast.Subscript)
                                                 for t in astx.assigned_targets(x)):
                cand = True
                break
        clean = True
        if cand:
            ctx = Ctx(repo, fn)
            seen = set()
            for n, a, tgt, what in _mutation_sites(ctx):
                k = (id(a), id(tgt))
                if k in seen:       # finally copies
                    continue
                seen.add(k)
                o = ctx.origins(tgt, n)
                kinds = {c for c, _ in o}
                hows = {h for c, h in o if c in VEC}
                if 'nl' in kinds:
                    clean = False
                    if 'maybeview' in hows and 'lin' not in kinds and \
                            not any(c == 'nl' and h != 'maybeview' for c, h in o):
                        out.unsure(fn, a, f'{what} through a possibly-copied slice of a nonlinear vector')
                    else:
                        out.bad(fn, a, f'{what} writes into a nonlinear vector (`{astx.src(tgt)}` resolves '
                                'to _inputs/_outputs/_residuals): a derivative query / report must only '
                                'touch the linear vectors', key=f'nl-write:{astx.dump(tgt)[:80]}')
                elif 'vec?' in kinds:
                    clean = False
                    out.unsure(fn, a, f'{what} on a vector whose linear/nonlinear kind is not a literal')
                elif 'lin' in kinds:
                    out.ok(fn, a, f'{what} on a linear vector')
                elif isinstance(a, ast.Call) and astx.callee_attr(a) in MUTATORS and \
                        astx.callee_attr(a) not in ('__setitem__',) and kinds <= {'param', 'other'}:
                    p = astx.path(tgt) or ''
                    last = p.rsplit('.', 1)[-1]
                    if astx.callee_attr(a) == 'set_val' and (p == 'self' and fn.cls is not None and
                                                              fn.cls.name == 'Problem' or
                                                              last in ('model', 'problem', 'prob')):
                        clean = False
                        out.bad(fn, a, 'set_val on the problem/model overwrites a model variable inside a '
                                'read-only query', key='nl-set_val')
                    elif astx.callee_attr(a) in ('set_val', 'set_vals', 'set_var'):
                        # dict-like / option receivers use the same method names: only vectors matter
                        if 'param' in kinds:
                            clean = False
                            out.unsure(fn, a, f'{what} on a parameter: cannot tell which vector is written')
                    else:
                        clean = False
                        out.unsure(fn, a, f'{what}: receiver `{astx.src(tgt)}` not resolved to a vector')
            for n in ctx.g.nodes:
                if n.kind in ('entry', 'exit', 'raise', 'join'):
                    continue
                for c in n.calls():
                    if astx.callee_attr(c) in NL_EXEC and id(c) not in seen:
                        seen.add(id(c))
                        clean = False
                        out.bad(fn, c, f'{astx.callee_attr(c)}() re-executes / overwrites the nonlinear model '
                                'inside a read-only query', key=f'nl-exec:{astx.callee_attr(c)}')
        if clean and fn.qualname in READONLY_FUNCS:
            out.ok(fn, fn.node, 'no in-place write to any nonlinear vector')
    out.count('functions_scanned', nfun)


# --------------------------------------------------------------------------- generic helpers
def _state_stores(n, ctx):
    """[(normalised path, value)] for the non-local state written by CFG node n.

    value is an expression, or ('elem', name, i) for the i-th element of a tuple held in local *name*
    (`a.x, a.y = saved`).  Handles single, chained and tuple-unpacking assignments.
    """
    if n.kind == 'stmt' and isinstance(n.ast, ast.Expr) and isinstance(n.ast.value, ast.Call):
        # dict.update(k=v, ...) / dict.update({'k': v}) / setattr(obj, 'name', v) are stores as well
        c = n.ast.value
        res = []
        if astx.callee_attr(c) == 'update' and astx.receiver(c) is not None and isinstance(c.func, ast.Attribute):
            base = ctx.norm_path(astx.receiver(c), n)
            items = [(k.arg, k.value) for k in c.keywords if k.arg is not None]
            if len(c.args) == 1 and isinstance(c.args[0], ast.Dict):
                items += [(astx.const_str(k), v) for k, v in zip(c.args[0].keys, c.args[0].values)]
            elif c.args:
                return []
            if base is not None and '[*]' not in base and items and all(k is not None for k, _ in items) and \
                    not any(k.arg is None for k in c.keywords):
                res = [(f'{base}[{k!r}]', v) for k, v in items]
        elif astx.call_name(c) == 'setattr' and len(c.args) == 3 and astx.const_str(c.args[1]):
            base = ctx.norm_path(c.args[0], n) if astx.path(c.args[0]) else None
            if base is not None and '[*]' not in base:
                res = [(f'{base}.{astx.const_str(c.args[1])}', c.args[2])]
        return res
    if n.kind != 'stmt' or not isinstance(n.ast, ast.Assign):
        return []
    res = []
    v = n.ast.value
    for t in n.ast.targets:
        pairs = []
        if isinstance(t, (ast.Tuple, ast.List)):
            if isinstance(v, (ast.Tuple, ast.List)) and len(v.elts) == len(t.elts):
                pairs = list(zip(t.elts, v.elts))
            elif isinstance(v, ast.Name):
                pairs = [(te, ('elem', v.id, i)) for i, te in enumerate(t.elts)]
            else:
                pairs = [(te, None) for te in t.elts]
        else:
            pairs = [(t, v)]
        for te, ve in pairs:
            if not isinstance(te, (ast.Attribute, ast.Subscript)):
                continue
            p = ctx.norm_path(te, n)
            if p is None or '[*]' in p:
                continue
            res.append((p, ve))
    return res


def _state_store(n, ctx):
    """(normalised path, value expr) if CFG node n is a plain single assignment to non-local state."""
    ss = _state_stores(n, ctx)
    if len(ss) == 1 and isinstance(ss[0][1], ast.AST):
        return ss[0]
    return None


def _local_saves(n, ctx):
    """{local name: {None or index: normalised path}} for snapshots taken by CFG node n."""
    if n.kind != 'stmt' or not isinstance(n.ast, ast.Assign) or len(n.ast.targets) != 1:
        return {}

    def pth(e):
        p = ctx.norm_path(e, n) if astx.path(e) else None
        return p if p and ('.' in p or '[' in p) else None
    t, v = n.ast.targets[0], n.ast.value
    out = {}
    if isinstance(t, ast.Name):
        if isinstance(v, (ast.Tuple, ast.List)):
            d = {i: pth(e) for i, e in enumerate(v.elts)}
            if any(d.values()):
                out[t.id] = d
        elif pth(v):
            out[t.id] = {None: pth(v)}
    elif isinstance(t, (ast.Tuple, ast.List)) and isinstance(v, (ast.Tuple, ast.List)) and len(t.elts) == len(v.elts):
        for te, ve in zip(t.elts, v.elts):
            if isinstance(te, ast.Name) and pth(ve):
                out[te.id] = {None: pth(ve)}
    return out


def _initial_constant(repo, path):
    """Initial (neutral) constant of a Problem attribute / _metadata key, read from Problem's source.

    Returns (found, value).
    """
    last = path.rsplit('.', 1)[-1]
    m = repo.module(PROB)
    if last.startswith("_metadata[") or last.startswith("_problem_meta["):
        key = last[last.index('[') + 1:-1].strip("'\"")
        for f in m.funcs.values():
            if not f.qualname.startswith('Problem.'):
                continue
            for d in astx.walk(f.node):
                if isinstance(d, ast.Dict):
                    for k, v in zip(d.keys, d.values):
                        if astx.const_str(k) == key and isinstance(v, ast.Constant) and \
                                any(astx.const_str(k2) == 'setup_status' for k2 in d.keys):
                            return True, v.value
        return False, None
    init = m.funcs.get('Problem.__init__')
    if init is not None:
        for st in astx.walk_stmts(init.node.body):
            if isinstance(st, ast.Assign) and isinstance(st.value, ast.Constant) and \
                    any(astx.path(t) == f'self.{last}' for t in st.targets):
                return True, st.value.value
    return False, None


def _is_const_tree(e):
    if isinstance(e, ast.Constant):
        return True
    return isinstance(e, (ast.Tuple, ast.List)) and all(_is_const_tree(x) for x in e.elts)


class _ExprSubst(ast.NodeTransformer):
    def __init__(self, mapping):
        self.mapping = mapping

    def visit_Name(self, n):
        if n.id in self.mapping and isinstance(n.ctx, ast.Load):
            import copy
            return copy.deepcopy(self.mapping[n.id])
        return n


class _FoldGetattr(ast.NodeTransformer):
    def visit_Call(self, n):
        self.generic_visit(n)
        if isinstance(n.func, ast.Name) and n.func.id == 'getattr' and len(n.args) == 2 and not n.keywords and \
                astx.const_str(n.args[1]) and n.args[1].value.isidentifier():
            return ast.copy_location(ast.Attribute(value=n.args[0], attr=n.args[1].value, ctx=ast.Load()), n)
        return n


def _unroll_const_loops(repo, fn):
    """Func in which data-driven code over literal tables is written out:

    * `for t in <tuple of constants>` (literal, or a local bound exactly once to such a literal, or
      `zip(<const tuple>, <name>)`) is unrolled, the targets replaced by the constants / `<name>[i]`;
      a leading `if c: continue` becomes `if c: pass else: <rest>`;
    * `tuple(E for k in <const tuple>)` / list comprehension becomes the tuple display;
    * `getattr(x, '<literal>')` becomes `x.<literal>`.
    Returns fn itself when nothing applies.
    """
    import copy
    from ..core import Func
    cache = repo.__dict__.setdefault('_c31_unroll', {})
    if id(fn.node) in cache:
        return cache[id(fn.node)]
    stores = {}
    for x in astx.walk(fn.node):
        if isinstance(x, ast.Name) and isinstance(x.ctx, ast.Store):
            stores[x.id] = stores.get(x.id, 0) + 1
    table = {}
    for st in astx.walk_stmts(fn.node.body):
        if isinstance(st, ast.Assign) and len(st.targets) == 1 and isinstance(st.targets[0], ast.Name) and \
                isinstance(st.value, (ast.Tuple, ast.List)) and _is_const_tree(st.value) and st.value.elts and \
                stores.get(st.targets[0].id) == 1:
            table[st.targets[0].id] = st.value

    def const_seq(e):
        if isinstance(e, (ast.Tuple, ast.List)) and _is_const_tree(e) and e.elts:
            return list(e.elts)
        if isinstance(e, ast.Name) and e.id in table:
            return list(table[e.id].elts)
        return None

    def elements(it):
        """list of per-iteration value expressions (or tuples of them) for a loop iterable, else None"""
        cs = const_seq(it)
        if cs is not None:
            return cs
        if isinstance(it, ast.Call) and isinstance(it.func, ast.Name) and it.func.id == 'zip' and len(it.args) >= 2 \
                and not it.keywords:
            cols, n = [], None
            for a in it.args:
                c = const_seq(a)
                if c is not None:
                    n = len(c) if n is None else min(n, len(c))
                cols.append(c)
            if n is None or not all(c is not None or isinstance(a, ast.Name) for c, a in zip(cols, it.args)):
                return None
            if any(c is not None and len(c) != n for c in cols):
                return None
            res = []
            for i in range(n):
                res.append(ast.Tuple(elts=[c[i] if c is not None else
                                           ast.Subscript(value=ast.Name(id=a.id, ctx=ast.Load()),
                                                         slice=ast.Constant(value=i), ctx=ast.Load())
                                           for c, a in zip(cols, it.args)], ctx=ast.Load()))
            return res
        return None

    def bind(target, val):
        if isinstance(target, ast.Name):
            return {target.id: val}
        if isinstance(target, (ast.Tuple, ast.List)) and isinstance(val, (ast.Tuple, ast.List)) and \
                len(target.elts) == len(val.elts):
            m = {}
            for t, v in zip(target.elts, val.elts):
                b = bind(t, v)
                if b is None:
                    return None
                m.update(b)
            return m
        return None

    changed = [False]

    class Comp(ast.NodeTransformer):
        def visit_Call(self, n):
            self.generic_visit(n)
            if isinstance(n.func, ast.Name) and n.func.id in ('tuple', 'list') and len(n.args) == 1 and \
                    not n.keywords and isinstance(n.args[0], (ast.GeneratorExp, ast.ListComp)):
                r = self._expand(n.args[0])
                if r is not None:
                    return ast.copy_location(r, n)
            return n

        def visit_ListComp(self, n):
            self.generic_visit(n)
            r = self._expand(n)
            return ast.copy_location(r, n) if r is not None else n

        @staticmethod
        def _expand(c):
            if len(c.generators) != 1 or c.generators[0].ifs or c.generators[0].is_async:
                return None
            els = elements(c.generators[0].iter)
            if els is None:
                return None
            out_ = []
            for v in els:
                m = bind(c.generators[0].target, v)
                if m is None:
                    return None
                out_.append(_ExprSubst(m).visit(copy.deepcopy(c.elt)))
            changed[0] = True
            return ast.Tuple(elts=out_, ctx=ast.Load())

    def jumps(stmts):
        for st in stmts:
            for x in astx.walk(st):
                if isinstance(x, (ast.Break, ast.Continue)):
                    # inside a nested loop it belongs to that loop
                    inner = False
                    for a in astx.ancestors(x):
                        if a is st._parent if hasattr(st, '_parent') else False:
                            break
                        if isinstance(a, (ast.For, ast.While)) and any(a is y for y in astx.walk(st)):
                            inner = True
                            break
                    if not inner:
                        return True
        return False

    def do_block(stmts):
        out_ = []
        for st in stmts:
            for fld in ('body', 'orelse', 'finalbody'):
                sub_ = getattr(st, fld, None)
                if isinstance(sub_, list) and sub_ and isinstance(sub_[0], ast.stmt) and \
                        not isinstance(st, (ast.FunctionDef, ast.AsyncFunctionDef, ast.ClassDef)):
                    setattr(st, fld, do_block(sub_))
            if isinstance(st, ast.Try):
                for h_ in st.handlers:
                    h_.body = do_block(h_.body)
            if isinstance(st, ast.For) and not st.orelse:
                els = elements(st.iter)
                body = st.body
                # leading `if c: continue` guards
                k = 0
                while k < len(body) and isinstance(body[k], ast.If) and len(body[k].body) == 1 and \
                        isinstance(body[k].body[0], ast.Continue) and not body[k].orelse:
                    k += 1
                if els is not None and k:
                    rest = body[k:] or [ast.Pass()]
                    for g_ in reversed(body[:k]):
                        rest = [ast.copy_location(ast.If(test=g_.test, body=[ast.Pass()], orelse=rest), g_)]
                    body = rest
                if els is not None:
                    for par in ast.walk(ast.Module(body=body, type_ignores=[])):
                        for ch in ast.iter_child_nodes(par):
                            ch._parent = par
                    if not jumps(body):
                        ok_ = True
                        copies = []
                        for v in els:
                            m = bind(st.target, v)
                            if m is None:
                                ok_ = False
                                break
                            for b in body:
                                copies.append(_ExprSubst(m).visit(copy.deepcopy(b)))
                        if ok_:
                            changed[0] = True
                            out_.extend(copies)
                            continue
            out_.append(st)
        return out_

    clone = ast.parse(ast.unparse(fn.node)).body[0]
    orig, new = list(astx.walk_stmts(fn.node.body)), list(astx.walk_stmts(clone.body))
    if len(orig) == len(new):
        for o, n_ in zip(orig, new):
            for x in ast.walk(n_):
                if hasattr(x, 'lineno'):
                    x.lineno = getattr(o, 'lineno', x.lineno)
                    x.end_lineno = getattr(o, 'end_lineno', x.lineno)
    for par in ast.walk(clone):
        for ch in ast.iter_child_nodes(par):
            ch._parent = par
    clone = Comp().visit(clone)
    clone.body = do_block(clone.body)
    if not changed[0]:
        cache[id(fn.node)] = fn
        return fn
    clone = _FoldGetattr().visit(clone)
    ast.fix_missing_locations(clone)
    for x in ast.walk(clone):
        if isinstance(x, (ast.stmt, ast.expr)) and not hasattr(x, 'lineno'):
            x.lineno = x.end_lineno = getattr(fn.node, 'lineno', 0)
            x.col_offset = x.end_col_offset = 0
    for par in ast.walk(clone):
        for ch in ast.iter_child_nodes(par):
            ch._parent = par
    clone._parent = getattr(fn.node, '_parent', None)
    res = Func(fn.module, fn.qualname, clone, fn.cls)
    cache[id(fn.node)] = res
    return res


def _resolved_dump(ctx, e, at, depth=0):
    """astx.dump of e with local names replaced by the (call-free) expression they are uniquely bound to."""
    import copy
    if at is None or depth > 3:
        return astx.dump(e)
    m = {}
    for x in astx.walk(e):
        if isinstance(x, ast.Name) and isinstance(x.ctx, ast.Load) and x.id not in m:
            v = ctx.rd.value(at, x.id)
            if v is not None and astx.path(v) is not None and not any(isinstance(y, ast.Call) for y in ast.walk(v)) \
                    and not isinstance(v, ast.Name):
                m[x.id] = v
    if not m:
        return astx.dump(e)
    return astx.dump(_ExprSubst(m).visit(copy.deepcopy(e)))


def _check_context_manager(repo, fn, out, problem_roots):
    """PAIR clause for a @contextmanager generator: everything set before the yield is restored after it."""
    fn = _unroll_const_loops(repo, fn)
    ctx = Ctx(repo, fn)
    g = ctx.g
    ys = [n for n in g.nodes if n.kind == 'stmt' and isinstance(n.ast, ast.Expr) and
          isinstance(n.ast.value, ast.Yield)]
    ys = [n for n in ys if not n.tag or True]
    if len({id(n.ast) for n in ys}) != 1:
        raise AnalysisError(f'{fn.ident}: expected exactly one yield')
    y = ys[0]
    after = g.reach([m for m, _ in g.succ[y]])
    before = {n for n in g.nodes if n not in after and g.path([n], [y]) is not None and n is not y}
    effects = {}    # path -> [nodes]
    saves = {}      # local name -> (node, {None/index: saved path})
    for n in sorted(before, key=lambda n: n.id):
        for p, _ in _state_stores(n, ctx):
            effects.setdefault(p, []).append(n)
        for nm, d in _local_saves(n, ctx).items():
            saves[nm] = (n, d)
    if not effects:
        raise AnalysisError(f'{fn.ident}: no state store before the yield')
    succs = [m for m, _ in g.succ[y]]
    for p, enodes in effects.items():
        restores = []
        for n in after:
            for p2, v in _state_stores(n, ctx):
                if p2 == p:
                    restores.append((n, v))
        if not restores:
            out.bad(fn, enodes[0].ast, f'`{p}` is set before the yield and never restored', key=f'no-restore:{p}')
            continue
        rn = [n for n, _ in restores]
        w = g.must_pass(g.normal_succ(y), [g.exit], rn, labels=cfgm.noexc)
        if w is None:
            # exceptional continuation: a restore placed in a `finally` / catch-all handler of a try around the
            # yield runs whenever the body raises (an exception inside the restore code itself is not the
            # obligation); any other placement must be on every CFG path of the raising continuation
            in_finally = False
            for r in rn:
                for t in astx.ancestors(r.ast):
                    if isinstance(t, ast.Try) and astx.in_body(y.ast, t, 'body'):
                        if astx.in_body(r.ast, t, 'finalbody'):
                            in_finally = True
                        for h in t.handlers:
                            if any(r.ast is x for st_ in h.body for x in astx.walk(st_, True)) and \
                                    (h.type is None or astx.path(h.type) == 'BaseException'):
                                in_finally = True
            if not in_finally:
                w = g.must_pass([m for m, lab in g.succ[y] if lab == 'exc'], [g.exit, g.raise_exit], rn)
        if w is not None:
            exc = w[-1] is g.raise_exit
            out.bad(fn, enodes[0].ast, f'`{p}` is not restored when the with-body '
                    f'{"raises" if exc else "ends"}: {g.fmt_path(w)}', key=f'no-restore:{p}')
            continue
        ok = True
        for r, v in restores:
            ref = None      # (local name, index or None)
            if isinstance(v, ast.Name):
                ref = (v.id, None)
            elif isinstance(v, tuple) and v[0] == 'elem':
                ref = (v[1], v[2])
            elif isinstance(v, ast.Subscript) and isinstance(v.value, ast.Name) and \
                    isinstance(v.slice, ast.Constant) and isinstance(v.slice.value, int):
                ref = (v.value.id, v.slice.value)
            if ref is not None:
                nm, idx = ref
                ds = ctx.rd.defs(r, nm)
                sv = saves.get(nm)
                if sv is None or ds != {sv[0]} or idx not in sv[1] or sv[1][idx] is None:
                    out.unsure(fn, r.ast, f'restore value `{nm}` is not a unique snapshot taken before the yield')
                    ok = False
                    continue
                snode, spath = sv[0], sv[1][idx]
                if spath != p:
                    out.bad(fn, r.ast, f'`{p}` is restored from the snapshot of `{spath}`', key=f'cross-restore:{p}')
                    ok = False
                    continue
                # snapshot must precede every overwrite of p
                late = [e for e in enodes if g.path([e], [snode]) is not None]
                if late:
                    out.bad(fn, snode.ast, f'snapshot of `{p}` is taken after it was overwritten '
                            f'(`{astx.src(late[0].ast)}`): the temporary value is "restored"', key=f'late-snapshot:{p}')
                    ok = False
            elif isinstance(v, ast.Constant):
                found, init = _initial_constant(repo, p)
                if not found:
                    out.unsure(fn, r.ast, f'initial value of `{p}` not found in Problem')
                    ok = False
                elif init != v.value or type(init) is not type(v.value):
                    out.bad(fn, r.ast, f'`{p}` is reset to {v.value!r} but its idle value is {init!r}',
                            key=f'wrong-neutral:{p}')
                    ok = False
            else:
                out.unsure(fn, r.ast, f'restore value of `{p}` is neither a snapshot nor a constant')
                ok = False
        if ok:
            out.ok(fn, restores[0][0].ast, f'`{p}` restored on normal and exceptional exit')


@rule('C31.ctx', floor=6)
def ctx_pair(repo, out):
    """_compute_total_coloring_context and _TotalJacInfo._totjac_context restore every key they set, also when the body raises, from their own snapshot or to the idle constant."""
    _check_context_manager(repo, repo.func(COLOR, '_compute_total_coloring_context'), out, None)
    _check_context_manager(repo, repo.func(TJ, '_TotalJacInfo._totjac_context'), out, None)


# --------------------------------------------------------------------------- C31.flags
def _flag_nodes(ctx, suffix, key=None):
    """Assign nodes whose (normalised) target is <...>.<suffix> or <...>.<suffix>[key] -> [(node, value)]."""
    res = []
    for n in ctx.g.nodes:
        ss = _state_store(n, ctx)
        if not ss:
            continue
        p, v = ss
        want = f'.{suffix}' if key is None else f".{suffix}[{key!r}]"
        if p.endswith(want):
            res.append((n, v))
    return res


def _is_const(v, val):
    return isinstance(v, ast.Constant) and v.value is val


def _pair_all_paths(fn, ctx, out, sets, resets, what, key, work=()):
    """Every normal path from an arming store to the exit passes a reset; an exception raised by one of
    the *work* calls executed while armed passes a reset as well."""
    g = ctx.g
    if not sets:
        raise AnalysisError(f'{fn.ident}: no assignment arming {what}')
    if not resets:
        out.bad(fn, sets[0].ast, f'{what} is armed and never reset', key=key)
        return
    ok = True
    for s in sets:
        w = g.must_pass(g.normal_succ(s), [g.exit], resets, labels=cfgm.noexc)
        if w is not None:
            out.bad(fn, s.ast, f'{what} stays armed when the guarded code completes: {g.fmt_path(w)}', key=key)
            ok = False
            continue
        armed = g.reach(g.normal_succ(s), avoid=resets, labels=cfgm.noexc)
        wk = [n for n in armed if any(astx.callee_attr(c) in work for c in n.calls())]
        if work and not wk:
            out.bad(fn, s.ast, f'{what} is armed but none of {sorted(work)} runs while it is set '
                    '(reset happens before the work)', key=key)
            ok = False
            continue
        for n in wk:
            ex = [m for m, lab in g.succ[n] if lab == 'exc']
            w = g.must_pass(ex, [g.exit, g.raise_exit], resets)
            if w is not None:
                out.bad(fn, s.ast, f'{what} stays armed when `{astx.src(n.ast)[:60]}` raises: '
                        f'{g.fmt_path(w)}', key=key)
                ok = False
                break
    if ok:
        out.ok(fn, sets[0].ast, f'{what} is reset on every normal path and when the guarded work raises')


@rule('C31.flags', floor=8)
def flags(repo, out):
    """_tot_jac, recording stack, seed_vars / parallel_deriv_color and the checking flag are reset on every path out of the totals / check code."""
    # 1. model._tot_jac = self ... = None  (normal and exceptional)
    for qn in ('_TotalJacInfo.compute_totals', '_TotalJacInfo._compute_totals_approx'):
        fn = repo.func(TJ, qn)
        ctx = Ctx(repo, fn)
        fl = _flag_nodes(ctx, '_tot_jac')
        sets = [n for n, v in fl if not _is_const(v, None)]
        resets = [n for n, v in fl if _is_const(v, None)]
        _pair_all_paths(fn, ctx, out, sets, resets, 'model._tot_jac', 'tot-jac-reset', work=('_linearize',))

    # 2. recording stack push/pop balance
    for qn in ('_TotalJacInfo.compute_totals', '_TotalJacInfo.record_derivatives'):
        fn = repo.func(TJ, qn)
        ctx = Ctx(repo, fn)
        g = ctx.g

        def on_rec(c):
            r = astx.receiver(c)
            return r is not None and isinstance(r, ast.Attribute) and r.attr == '_recording_iter'
        pushes = [n for n in g.calling('push') if any(astx.callee_attr(c) == 'push' and on_rec(c) for c in n.calls())]
        pops = [n for n in g.calling('pop') if any(astx.callee_attr(c) == 'pop' and on_rec(c) for c in n.calls())]
        if not pushes:
            raise AnalysisError(f'{fn.ident}: no _recording_iter.push')
        bad = False
        for p_ in pushes:
            w = g.must_pass(g.normal_succ(p_), [g.exit, g.raise_exit], pops)
            if w is not None:
                out.bad(fn, p_.ast, 'recording stack is pushed but not popped when the computation '
                        f'{"raises" if w[-1] is g.raise_exit else "returns"}: {g.fmt_path(w)}', key='rec-stack')
                bad = True
        for q in pops:
            again = g.reach([m for m, _ in g.succ[q]]) & set(pops)
            again.discard(q)
            if again:
                out.bad(fn, q.ast, 'recording stack can be popped twice for one push', key='rec-stack')
                bad = True
                break
        if not bad:
            out.ok(fn, pushes[0].ast, 'one pop for the push on every path (normal, return, exception)')

    # 3. per-solve problem metadata (seed_vars, parallel_deriv_color) reset inside the solve loop
    m = repo.module(TJ)
    armed = {}
    for f in m.funcs.values():
        if 'contextmanager' in f.decorators():
            continue
        for st in astx.walk_stmts(f.node.body):
            if isinstance(st, ast.Assign) and len(st.targets) == 1 and isinstance(st.targets[0], ast.Subscript):
                t = st.targets[0]
                k = astx.const_str(t.slice)
                if k and isinstance(t.value, ast.Attribute) and t.value.attr == '_problem_meta' and \
                        not _is_const(st.value, None):
                    armed.setdefault(k, (f, st))
    fn = repo.func(TJ, '_TotalJacInfo.compute_totals')
    ctx = Ctx(repo, fn)
    g = ctx.g
    solves = g.calling('_solve_linear')
    if not solves:
        raise AnalysisError(f'{fn.ident}: no _solve_linear call')
    loops = [a for a in astx.ancestors(solves[0].ast) if isinstance(a, (ast.For, ast.While))]
    if not loops:
        raise AnalysisError(f'{fn.ident}: _solve_linear not in a loop')
    loop = loops[0]
    hdr = g.nodes_of(loop)[0]
    body_entry = [x for x, lab in g.succ[hdr] if lab == 'true']
    if not armed:
        raise AnalysisError('no per-solve _problem_meta key is armed in total_jac.py')
    for k, (f, st) in sorted(armed.items()):
        resets = [n for n, v in _flag_nodes(ctx, '_problem_meta', k) if _is_const(v, None)
                  and g.inside(n, loop, 'body')]
        if not resets:
            out.bad(f, st, f"_problem_meta[{k!r}] is set here but never reset to None in the solve loop of "
                    'compute_totals: it leaks into later solves / run_model', key=f'meta-reset:{k}')
            continue
        w = g.path(body_entry, [hdr], avoid=resets, labels=cfgm.noexc)
        if w is not None:
            out.bad(fn, loop, f"a solve iteration can finish with _problem_meta[{k!r}] still set: "
                    f'{g.fmt_path(w)}', key=f'meta-reset:{k}')
            continue
        early = set()
        for r in resets:
            early |= g.reach(g.normal_succ(r), avoid=[hdr], labels=cfgm.noexc) & set(solves)
        if early:
            out.bad(fn, resets[0].ast, f"_problem_meta[{k!r}] is cleared before the linear solve that needs it",
                    key=f'meta-reset:{k}')
            continue
        out.ok(fn, resets[0].ast, f"_problem_meta[{k!r}] reset to None after every solve")

    # 4. checking flag
    for rel, qn, suffix in ((PROB, 'Problem.check_totals', '_metadata'),
                            (COMP, 'Component.check_partials', '_problem_meta')):
        fn = repo.func(rel, qn)
        ctx = Ctx(repo, fn)
        fl = _flag_nodes(ctx, suffix, 'checking')
        sets = [n for n, v in fl if _is_const(v, True)]
        resets = [n for n, v in fl if _is_const(v, False)]
        other = [n for n, v in fl if not (_is_const(v, True) or _is_const(v, False))]
        if other:
            out.unsure(fn, other[0].ast, "'checking' assigned a non-literal")
            continue
        _pair_all_paths(fn, ctx, out, sets, resets, "the 'checking' flag", 'checking-reset',
                        work=('compute_totals', 'run_apply_linear'))


# --------------------------------------------------------------------------- C31.check_partials
SCALE_CTX = ('_unscaled_context', '_scaled_context_all')


def _scale_state(node):
    """Tuple of scaling context managers lexically enclosing an AST node (outermost first)."""
    res = []
    for a in astx.ancestors(node):
        if isinstance(a, (ast.With, ast.AsyncWith)):
            for it in a.items:
                if isinstance(it.context_expr, ast.Call) and astx.callee_attr(it.context_expr) in SCALE_CTX:
                    res.append(astx.dump(it.context_expr))
    return tuple(reversed(res))


def _snapshot_of(v):
    """(vector attr, is_copy) if expression v is a snapshot of self.<nonlinear vector>, else None."""
    is_copy = False
    e = v
    # np.array(x) / np.copy(x) / x.copy() / deepcopy(x)
    while True:
        if isinstance(e, ast.Call) and astx.callee_attr(e) == 'copy' and astx.receiver(e) is not None \
                and not e.args and astx.path(astx.receiver(e)) not in ('np', 'numpy', 'copy'):
            is_copy = True
            e = astx.receiver(e)
            continue
        if isinstance(e, ast.Call) and astx.callee_attr(e) in ('array', 'copy', 'deepcopy') and len(e.args) >= 1:
            cp = astx.kwarg(e, 'copy')
            if cp is None or not (isinstance(cp, ast.Constant) and cp.value is False):
                is_copy = True
            e = e.args[0]
            continue
        break
    if isinstance(e, ast.Call) and astx.callee_attr(e) == 'asarray' and astx.receiver(e) is not None:
        r = astx.receiver(e)
        if isinstance(r, ast.Attribute) and r.attr in NL_ATTRS and astx.path(r.value) == 'self':
            cp = astx.arg(e, 0, 'copy')
            if isinstance(cp, ast.Constant) and cp.value is True:
                is_copy = True
            elif cp is not None and not isinstance(cp, ast.Constant):
                return None
            return r.attr, is_copy
    if isinstance(e, ast.Call) and astx.callee_attr(e) == '_copy_vars':
        return None
    return None


def _is_self_nl_set_val(c):
    r = astx.receiver(c)
    return astx.callee_attr(c) == 'set_val' and isinstance(r, ast.Attribute) and r.attr in NL_ATTRS and \
        astx.path(r.value) == 'self'


def _writeback_sites(repo, fn, ctx, out):
    """Whole-vector writes `self.<nonlinear vec>.set_val(x)` in fn, directly or through a private helper
    method of the same class whose body is a straight line of such writes of its own parameters
    (the helper is inlined at the call site).  Yields (cfg node, reported call, attr, value expr, idxs)."""
    g = ctx.g
    for n in g.nodes:
        if n.kind in ('entry', 'exit', 'raise', 'join'):
            continue
        if n.tag and any(m is not n for m in g.nodes_of(n.ast) if m.id < n.id):
            continue        # finally copy of a node already reported
        for c in n.calls():
            if _is_self_nl_set_val(c):
                yield n, c, astx.receiver(c).attr, astx.arg(c, 0, 'val'), astx.arg(c, 1, 'idxs')
                continue
            if astx.path(astx.receiver(c)) != 'self' or fn.cls is None:
                continue
            h = repo.lookup(fn.rel, fn.cls.name, astx.callee_attr(c))
            if h is None or h.node is fn.node:
                continue
            inner = [x for x in astx.calls(h.node) if _is_self_nl_set_val(x)]
            if not inner:
                continue
            params = [a.arg for a in h.node.args.args][1:]
            top = [st.value for st in astx.strip_doc(h.node.body)
                   if isinstance(st, ast.Expr) and isinstance(st.value, ast.Call)]
            simple = all(isinstance(st, (ast.Expr, ast.Pass)) for st in astx.strip_doc(h.node.body)) and \
                all(x in top for x in inner) and not h.node.args.vararg and not h.node.args.kwarg and \
                not any(isinstance(a, ast.Starred) for a in c.args) and not any(k.arg is None for k in c.keywords)
            if not simple:
                out.unsure(fn, c, f'helper {h.qualname} writes a nonlinear vector but is not a straight-line '
                           'write-back of its parameters')
                continue
            actual = {}
            for i, a in enumerate(c.args):
                if i < len(params):
                    actual[params[i]] = a
            for k in c.keywords:
                actual[k.arg] = k.value
            for x in inner:
                v = astx.arg(x, 0, 'val')
                if isinstance(v, ast.Name) and v.id in actual:
                    yield n, c, astx.receiver(x).attr, actual[v.id], astx.arg(x, 1, 'idxs')
                else:
                    out.unsure(fn, c, f'helper {h.qualname} writes self.{astx.receiver(x).attr} from something other '
                               'than one of its parameters')


@rule('C31.check_partials', floor=3)
def check_partials(repo, out):
    """Component.check_partials: each nonlinear vector is written back from a copy of itself taken in the same scaling state, and the outputs write-back follows every unscaled round trip."""
    fn = repo.func(COMP, 'Component.check_partials')
    ctx = Ctx(repo, fn)
    g = ctx.g
    restores = {}   # attr -> [nodes]
    wired_ok = {}
    for n, c, attr, val, idx in _writeback_sites(repo, fn, ctx, out):
        if True:
            if idx is not None or not isinstance(val, ast.Name):
                out.unsure(fn, c, f'write to self.{attr} is not a whole-vector write-back of a snapshot')
                continue
            ds = ctx.rd.defs(n, val.id)
            if not ds or g.entry in ds:
                out.bad(fn, c, f'no snapshot reaches the write-back of self.{attr} (`{val.id}` undefined here)',
                        key=f'restore-{attr}')
                continue
            good = True
            for d in ds:
                snap = _snapshot_of(d.ast.value) if d.kind == 'stmt' and isinstance(d.ast, ast.Assign) else None
                if snap is None:
                    out.unsure(fn, c, f'`{val.id}` is not recognised as a snapshot of a vector')
                    good = False
                    break
                sattr, is_copy = snap
                if sattr != attr:
                    out.bad(fn, c, f'self.{attr} is overwritten with the snapshot of self.{sattr}',
                            key=f'restore-{attr}')
                    good = False
                    break
                if not is_copy:
                    out.bad(fn, d.ast, f'snapshot `{val.id}` is a live view of self.{attr} (no copy): writing it '
                            'back is a no-op, the perturbed values stay', key=f'snapshot-{attr}')
                    good = False
                    break
                if _scale_state(d.ast) != _scale_state(c):
                    out.bad(fn, c, f'self.{attr} is written back in a different scaling state than the one its '
                            'snapshot was taken in (snapshot/restore not under the same _unscaled_context): '
                            'values are off by ref/ref0', key=f'restore-{attr}')
                    good = False
                    break
            if good:
                restores.setdefault(attr, []).append(n)
                out.ok(fn, c, f'self.{attr} written back from its own copied snapshot in the same scaling state')
    # outputs: every unscaled round trip of self._outputs is followed by the write-back
    dirty = []
    for n in g.nodes:
        if n.kind == 'with':
            for it in n.ast.items:
                ce = it.context_expr
                if isinstance(ce, ast.Call) and astx.callee_attr(ce) == '_unscaled_context' and \
                        any(isinstance(x, ast.Attribute) and x.attr == '_outputs' for x in astx.walk(ce)):
                    dirty.append(n)
    if not dirty:
        raise AnalysisError(f'{fn.ident}: no _unscaled_context(outputs=[self._outputs]) found')
    rs = restores.get('_outputs', [])
    w = None
    for d in dirty:
        w = g.must_pass(g.normal_succ(d), [g.exit], rs, labels=cfgm.noexc)
        if w is not None:
            break
    if w is not None:
        out.bad(fn, dirty[0].ast, 'self._outputs goes through an unscale/rescale round trip and is not written '
                f'back from its snapshot afterwards: {g.fmt_path(w)}', key='restore-_outputs-missing')
    elif rs:
        out.ok(fn, dirty[0].ast, 'outputs write-back follows every unscaled round trip')


# --------------------------------------------------------------------------- C31.check_totals
# attributes Group.approx_totals writes that check_totals deliberately does not put back
APPROX_NOT_RESTORED = {'_has_approx': 'capability flag set by every approx_totals call; never cleared '
                                      'anywhere, does not change derivative values'}
COPYING = ('copy', 'deepcopy', 'dict')


def _model_attr(ctx, e, at):
    """attr if expression e (normalised) is self.model.<attr>, else None."""
    if not isinstance(e, ast.Attribute):
        return None
    p = ctx.norm_path(e, at)
    if p and p.startswith('self.model.') and p.count('.') == 2 and '[' not in p and '(' not in p:
        return e.attr
    return None


class _Subst(ast.NodeTransformer):
    def __init__(self, mapping, rename):
        self.mapping, self.rename = mapping, rename

    def visit_Name(self, n):
        if n.id in self.mapping:
            import copy
            return copy.deepcopy(self.mapping[n.id])
        if n.id in self.rename:
            return ast.copy_location(ast.Name(id=self.rename[n.id], ctx=n.ctx), n)
        return n


def _pure_arg(e):
    return isinstance(e, ast.Constant) or (astx.path(e) is not None and not any(isinstance(x, ast.Call) for x in ast.walk(e)))


def _inline_simple_helpers(repo, fn):
    """Func whose body has calls of *simple* helpers inlined (one level).

    A simple helper is a module-level function of the same module, or a method reached through
    `self.<m>(...)`, whose body is a docstring plus straight-line Assign/AugAssign/Expr statements and
    at most one trailing `return <expr>`; it is called as a statement (`h(a, b)`) or as the whole right
    hand side of an assignment (`x = h(a)`) with side-effect-free arguments (names, attribute paths,
    constants).  Parameters are substituted by the arguments, helper locals are renamed apart.
    Returns the original Func when nothing was inlined.
    """
    import copy
    from ..core import Func
    cache = repo.__dict__.setdefault('_c31_inl', {})
    if id(fn.node) in cache:
        return cache[id(fn.node)]
    counter = [0]

    def helper_of(call):
        f = call.func
        h, skip = None, 0
        if isinstance(f, ast.Name):
            h = fn.module.funcs.get(f.id)
        elif isinstance(f, ast.Attribute) and astx.path(f.value) == 'self' and fn.cls is not None:
            h = repo.lookup(fn.rel, fn.cls.name, f.attr)
            skip = 1
        if h is None or h.node is fn.node or h.node.decorator_list:
            return None
        a = h.node.args
        if a.vararg or a.kwarg or a.kwonlyargs or a.posonlyargs or any(isinstance(x, ast.Starred) for x in call.args) \
                or any(k.arg is None for k in call.keywords):
            return None
        params = [x.arg for x in a.args][skip:]
        body = astx.strip_doc(h.node.body)
        ret = None
        if body and isinstance(body[-1], ast.Return):
            ret, body = body[-1].value, body[:-1]
        if not all(isinstance(st, (ast.Assign, ast.AugAssign, ast.Expr, ast.Pass)) for st in body):
            return None
        if any(isinstance(x, (ast.Yield, ast.YieldFrom, ast.Await, ast.Lambda, ast.NamedExpr))
               for st in h.node.body for x in ast.walk(st)):
            return None
        actual = {}
        for i, x in enumerate(call.args):
            if i >= len(params):
                return None
            actual[params[i]] = x
        for k in call.keywords:
            if k.arg not in params or k.arg in actual:
                return None
            actual[k.arg] = k.value
        defaults = dict(zip(params[len(params) - len(a.defaults):], a.defaults)) if a.defaults else {}
        for p_ in params:
            if p_ not in actual:
                if p_ in defaults:
                    actual[p_] = defaults[p_]
                else:
                    return None
        if not all(_pure_arg(x) for x in actual.values()):
            return None
        # a parameter that is re-assigned inside the helper cannot be substituted
        assigned = {x.id for st in body for t in (astx.assigned_targets(st) if isinstance(st, (ast.Assign, ast.AugAssign)) else [])
                    for x in ast.walk(t) if isinstance(x, ast.Name) and isinstance(x.ctx, ast.Store)}
        if assigned & set(params):
            return None
        if skip:
            actual['self'] = ast.Name(id='self', ctx=ast.Load())
        counter[0] += 1
        rename = {nm: f'_inl{counter[0]}_{nm}' for nm in assigned}
        sub = _Subst(actual, rename)
        new_body = [sub.visit(copy.deepcopy(st)) for st in body]
        new_ret = sub.visit(copy.deepcopy(ret)) if ret is not None else None
        return new_body, new_ret

    changed = [False]

    def do_block(stmts):
        out_ = []
        for st in stmts:
            call = None
            if isinstance(st, ast.Expr) and isinstance(st.value, ast.Call):
                call = st.value
            elif isinstance(st, ast.Assign) and isinstance(st.value, ast.Call):
                call = st.value
            r = helper_of(call) if call is not None else None
            if r is not None:
                body, ret = r
                if isinstance(st, ast.Assign):
                    if ret is None:
                        r = None
                    else:
                        tail = ast.Assign(targets=st.targets, value=ret)
                        body = body + [ast.copy_location(tail, st)]
                elif ret is not None:
                    body = body + [ast.copy_location(ast.Expr(value=ret), st)]
            if r is not None:
                changed[0] = True
                for b in body:
                    ast.fix_missing_locations(ast.copy_location(b, b if hasattr(b, 'lineno') else st))
                out_.extend(body)
                continue
            for fld in ('body', 'orelse', 'finalbody'):
                sub_ = getattr(st, fld, None)
                if isinstance(sub_, list) and sub_ and isinstance(sub_[0], ast.stmt) and \
                        not isinstance(st, (ast.FunctionDef, ast.AsyncFunctionDef, ast.ClassDef)):
                    setattr(st, fld, do_block(sub_))
            if isinstance(st, ast.Try):
                for h_ in st.handlers:
                    h_.body = do_block(h_.body)
            out_.append(st)
        return out_

    node = copy.deepcopy(fn.node) if False else None
    # cheap pre-check: is there any candidate call at all?
    cand = False
    for st in astx.walk_stmts(fn.node.body):
        c = st.value if isinstance(st, (ast.Expr, ast.Assign)) and isinstance(getattr(st, 'value', None), ast.Call) else None
        if c is not None and helper_of(c) is not None:
            cand = True
            break
    if not cand:
        cache[id(fn.node)] = fn
        return fn
    counter[0] = 0
    # deep copy without the parent links
    src_node = fn.node
    saved_parent = getattr(src_node, '_parent', None)
    clone = ast.parse(ast.unparse(src_node)).body[0]
    # keep original line numbers where possible: unparse loses them, so map by statement order
    orig = list(astx.walk_stmts(src_node.body))
    new = list(astx.walk_stmts(clone.body))
    if len(orig) == len(new):
        for o, n_ in zip(orig, new):
            for x in ast.walk(n_):
                if hasattr(x, 'lineno'):
                    x.lineno = getattr(o, 'lineno', x.lineno)
                    x.end_lineno = getattr(o, 'end_lineno', x.lineno)
    helper_fn = fn
    # helpers are looked up on the ORIGINAL module; inline into the clone
    clone.body = do_block(clone.body)
    for par in ast.walk(clone):
        for ch in ast.iter_child_nodes(par):
            ch._parent = par
    clone._parent = saved_parent
    res = Func(fn.module, fn.qualname, clone, fn.cls)
    cache[id(fn.node)] = res
    return res


def _snap_key(ctx, v, at, saves, depth=0):
    """Key (local name, tuple index or None) of the pre-FD snapshot that expression v denotes at node `at`.

    Follows renamings (`b = a`), tuple packing (`t = (x, y)`), unpacking (`p, q = t`) and constant
    indexing (`t[1]`).  Returns None if v is not (uniquely) such a snapshot.
    """
    if depth > 6:
        return None
    if isinstance(v, ast.Subscript) and isinstance(v.value, ast.Name) and isinstance(v.slice, ast.Constant) \
            and isinstance(v.slice.value, int):
        base = _snap_key(ctx, v.value, at, saves, depth + 1)
        if base is not None and base[1] is None and (base[0], v.slice.value) in saves:
            return (base[0], v.slice.value)
        return None
    if not isinstance(v, ast.Name):
        return None
    ds = ctx.rd.defs(at, v.id)
    if len(ds) != 1:
        return None
    d = next(iter(ds))
    if d.kind != 'stmt' or not isinstance(d.ast, ast.Assign) or len(d.ast.targets) != 1:
        return None
    t, val = d.ast.targets[0], d.ast.value
    if isinstance(t, ast.Name):
        k = (v.id, None)
        if k in saves and saves[k][0] is d:
            return k
        if any(kk[0] == v.id and saves[kk][0] is d for kk in saves):
            return (v.id, None)         # the packed tuple itself
        if isinstance(val, (ast.Name, ast.Subscript)):
            return _snap_key(ctx, val, d, saves, depth + 1)
        return None
    if isinstance(t, (ast.Tuple, ast.List)):
        idx = next((i for i, e in enumerate(t.elts) if isinstance(e, ast.Name) and e.id == v.id), None)
        if idx is None:
            return None
        if isinstance(val, (ast.Tuple, ast.List)) and len(val.elts) == len(t.elts):
            k = (v.id, None)
            if k in saves and saves[k][0] is d:
                return k
            return _snap_key(ctx, val.elts[idx], d, saves, depth + 1)
        if isinstance(val, ast.Name):
            base = _snap_key(ctx, val, d, saves, depth + 1)
            if base is not None and base[1] is None and (base[0], idx) in saves:
                return (base[0], idx)
    return None


def _check_totals_facts(repo):
    fn = _inline_simple_helpers(repo, repo.func(PROB, 'Problem.check_totals'))
    ctx = Ctx(repo, fn)
    g = ctx.g
    fd = g.calling('approx_totals')
    if not fd:
        raise AnalysisError(f'{fn.ident}: FD pass (approx_totals call) not found')
    loops = [a for a in astx.ancestors(fd[0].ast) if isinstance(a, (ast.For, ast.While))]
    if not loops:
        raise AnalysisError(f'{fn.ident}: approx_totals is not called in the step loop')
    loop = loops[-1]
    hdr = g.nodes_of(loop)[0]
    body = set(g.body_nodes(loop))
    after = g.reach([m for m, lab in g.succ[hdr] if lab == 'false'], labels=cfgm.noexc)
    saves, restores, effects = {}, [], list(fd)
    def snap(v, n):
        src, copied = v, False
        if isinstance(v, ast.Call) and astx.callee_attr(v) in COPYING:
            if astx.receiver(v) is not None and not v.args:
                src, copied = astx.receiver(v), True
            elif len(v.args) == 1:
                src, copied = v.args[0], True
        a = _model_attr(ctx, src, n)
        return (a, copied) if a else None
    for n in g.nodes:
        if n.kind != 'stmt' or not isinstance(n.ast, ast.Assign) or len(n.ast.targets) != 1:
            continue
        t, v = n.ast.targets[0], n.ast.value
        pairs = []      # (key, value expr)
        if isinstance(t, ast.Name):
            if isinstance(v, (ast.Tuple, ast.List)):
                pairs = [((t.id, i), e) for i, e in enumerate(v.elts)]
            else:
                pairs = [((t.id, None), v)]
        elif isinstance(t, (ast.Tuple, ast.List)) and isinstance(v, (ast.Tuple, ast.List)) and \
                len(t.elts) == len(v.elts) and all(isinstance(e, ast.Name) for e in t.elts):
            pairs = [((te.id, None), ve) for te, ve in zip(t.elts, v.elts)]
        if pairs:
            for key, e in pairs:
                sp = snap(e, n)
                if sp and n not in after:
                    saves[key] = (n, sp[0], sp[1])
            continue
        tl = t.elts if isinstance(t, (ast.Tuple, ast.List)) else [t]
        vl = v.elts if isinstance(t, (ast.Tuple, ast.List)) and isinstance(v, (ast.Tuple, ast.List)) and \
            len(v.elts) == len(tl) else None
        for i, te in enumerate(tl):
            a = _model_attr(ctx, te, n)
            if a:
                if n in body:
                    effects.append(n)
                elif n in after:
                    val = vl[i] if vl is not None else (v if len(tl) == 1 else
                                                         ast.Subscript(value=v, slice=ast.Constant(value=i), ctx=ast.Load()))
                    restores.append((n, a, val))
    return fn, ctx, loop, hdr, saves, restores, effects


@rule('C31.check_totals', floor=7)
def check_totals(repo, out):
    """Problem.check_totals: the model attributes snapshotted before the FD pass are exactly those put back after it, each from its own snapshot (copied where the FD pass mutates in place), and everything approx_totals overwrites is among them."""
    fn, ctx, loop, hdr, saves, restores, effects = _check_totals_facts(repo)
    g = ctx.g
    saved_attrs = {a: (n, key, cp) for key, (n, a, cp) in saves.items()}
    restored_attrs = {}
    for n, a, val in restores:
        restored_attrs.setdefault(a, []).append((n, val))
    # attributes mutated in place by the approximation set-up need a copied snapshot
    inplace, rebound = set(), set()
    f2 = repo.func(GROUP, 'Group._setup_approx_derivs')
    for st in astx.walk_stmts(f2.node.body):
        for t in astx.assigned_targets(st) if isinstance(st, (ast.Assign, ast.AugAssign)) else []:
            if isinstance(t, ast.Subscript) and isinstance(t.value, ast.Attribute) and \
                    astx.path(t.value.value) == 'self':
                inplace.add(t.value.attr)
            elif isinstance(t, ast.Attribute) and astx.path(t.value) == 'self':
                rebound.add(t.attr)
    inplace -= rebound      # a freshly bound dict is filled, the old object is untouched
    # what the FD pass overwrites directly or through Group.approx_totals
    written = {a for n in effects if n.kind == 'stmt' and isinstance(n.ast, ast.Assign)
               for a in [_model_attr(ctx, n.ast.targets[0], n)] if a}
    f3 = repo.func(GROUP, 'Group.approx_totals')
    for st in astx.walk_stmts(f3.node.body):
        if isinstance(st, ast.Assign):
            for t in astx.assigned_targets(st):
                if isinstance(t, ast.Attribute) and astx.path(t.value) == 'self':
                    written.add(t.attr)
    for a in sorted(written):
        if a in APPROX_NOT_RESTORED:
            continue
        if a not in restored_attrs:
            out.bad(fn, loop, f'the FD pass overwrites model.{a} (directly or in Group.approx_totals) and '
                    'check_totals never puts it back', key=f'unrestored:{a}')
    for a, (sn, skey, cp) in sorted(saved_attrs.items()):
        if a not in restored_attrs:
            used = any(isinstance(x, ast.Name) and x.id == skey[0] and isinstance(x.ctx, ast.Load)
                       for x in astx.walk(fn.node))
            # a snapshot that is only read (e.g. `approx` passed on) is not a restore obligation
            if a in written or not used:
                out.bad(fn, sn.ast, f'model.{a} is snapshotted before the FD pass but never restored',
                        key=f'unrestored:{a}')
            continue
        late = [e for e in effects if g.path([e], [sn]) is not None]
        if late:
            out.bad(fn, sn.ast, f'snapshot of model.{a} is taken after the FD pass started '
                    f'(`{astx.src(late[0].ast)[:60]}`)', key=f'late-snapshot:{a}')
            continue
        if a in inplace and not cp:
            out.bad(fn, sn.ast, f'model.{a} is mutated in place by Group._setup_approx_derivs, so its snapshot '
                    'must be a copy; a reference snapshot restores the modified dict', key=f'snapshot-copy:{a}')
            continue
    def guard_is_snapshot_of(e, par, a):
        """Name e tested by the If `par` is the snapshot of model.<a>."""
        pn = g.nodes_of(par)
        return isinstance(e, ast.Name) and a in saved_attrs and bool(pn) and \
            _snap_key(ctx, e, pn[0], saves) == saved_attrs[a][1]

    for a, nodes in sorted(restored_attrs.items()):
        for n, v in nodes:
            if isinstance(v, ast.Constant):
                # accepted only under a guard that makes the constant equal to the snapshot
                sn = saved_attrs.get(a)
                par = n.ast._parent
                okc = False
                if sn is not None and isinstance(par, ast.If) and n.ast in par.body:
                    t = par.test
                    if isinstance(t, ast.UnaryOp) and isinstance(t.op, ast.Not) and \
                            guard_is_snapshot_of(t.operand, par, a) and v.value is False:
                        okc = True
                    if guard_is_snapshot_of(t, par, a) and v.value is True:
                        okc = True
                elif sn is not None and isinstance(par, ast.If) and n.ast in par.orelse:
                    t = par.test
                    if guard_is_snapshot_of(t, par, a) and v.value is False:
                        okc = True
                    if isinstance(t, ast.UnaryOp) and isinstance(t.op, ast.Not) and \
                            guard_is_snapshot_of(t.operand, par, a) and v.value is True:
                        okc = True
                if okc:
                    out.ok(fn, n.ast, f'model.{a} reset to {v.value!r} under a guard that implies the snapshot '
                           f'was {v.value!r}')
                elif sn is None:
                    out.bad(fn, n.ast, f'model.{a} is overwritten with a constant without a snapshot', key=f'no-snapshot:{a}')
                else:
                    out.bad(fn, n.ast, f'model.{a} is reset to the constant {v.value!r} although its pre-FD value '
                            f'(`{sn[1][0]}`) may differ on this path', key=f'const-restore:{a}')
            elif isinstance(v, (ast.Name, ast.Subscript)):
                key = _snap_key(ctx, v, n, saves)
                sv = saves.get(key) if key is not None else None
                if sv is None:
                    out.unsure(fn, n.ast, f'`{astx.src(v)}` is not a unique pre-FD snapshot')
                elif sv[1] != a:
                    out.bad(fn, n.ast, f'model.{a} is restored from the snapshot of model.{sv[1]}',
                            key=f'cross-restore:{a}')
                elif a in saved_attrs and not (a in inplace and not sv[2]) and \
                        not [e for e in effects if g.path([e], [sv[0]]) is not None]:
                    out.ok(fn, n.ast, f'model.{a} restored from its own pre-FD snapshot')
            else:
                out.unsure(fn, n.ast, f'restore value of model.{a} not recognised')
        if a not in saved_attrs:
            out.bad(fn, nodes[0][0].ast, f'model.{a} is "restored" but was never snapshotted before the FD pass',
                    key=f'no-snapshot:{a}')
    out.count('saved', len(saved_attrs))
    out.count('restored', len(restored_attrs))


@rule('C31.check_totals_guard', floor=1)
def check_totals_guard(repo, out):
    """Problem.check_totals: whenever the FD pass (approx_totals with the check's options) ran, the restore of the model's approximation state runs too."""
    fn, ctx, loop, hdr, saves, restores, effects = _check_totals_facts(repo)
    g = ctx.g
    if not restores:
        out.bad(fn, loop, 'FD pass is never undone', key='restore-skipped')
        return
    rnodes = [n for n, *_ in restores]
    start = [m for m, lab in g.succ[hdr] if lab == 'false']
    # tests that decide whether the FD effects happen at all
    def guards(n):
        return [(a, n.ast in getattr(a, 'body', []) or astx.in_body(n.ast, a, 'body'))
                for a in astx.ancestors(n.ast) if isinstance(a, ast.If)]
    eff_guards = [astx.dump(a.test) + ('+' if pos else '-') for e in effects for a, pos in guards(e)]
    # walk the post-loop region avoiding restores; an If whose condition also guards *all* effects may be skipped
    from collections import deque
    dq = deque(start)
    seen = set(start)
    par = {}
    leak = None
    while dq:
        n = dq.popleft()
        if n is g.exit:
            leak = n
            break
        if n in rnodes:
            continue
        for m2, lab in g.succ[n]:
            if lab == 'exc' or m2 in seen:
                continue
            seen.add(m2)
            par[m2] = n
            dq.append(m2)
    if leak is None:
        out.ok(fn, restores[0][0].ast, 'every normal path after the FD pass restores the approximation state')
        return
    p = []
    n = leak
    while n in par:
        p.append(n)
        n = par[n]
    p.append(n)
    p = p[::-1]
    tests = [x for x in p if x.kind == 'test']
    culprit = None
    for t in tests:
        if any(astx.in_body(r.ast, t.ast, 'body') or astx.in_body(r.ast, t.ast, 'orelse') for r in rnodes):
            culprit = t
            break
    cond = astx.src(culprit.ast.test) if culprit is not None else '?'
    skip_when = cond
    if culprit is not None:
        nxt = p[p.index(culprit) + 1]
        lab = next((l for m2, l in g.succ[culprit] if m2 is nxt), None)
        t = culprit.ast.test
        neg = lab == 'false'
        while isinstance(t, ast.UnaryOp) and isinstance(t.op, ast.Not):
            t, neg = t.operand, not neg
        skip_when = ('not ' if neg else '') + astx.src(t)
        tk = _snap_key(ctx, t, culprit, saves) if isinstance(t, ast.Name) else None
        if tk is not None and tk in saves and saves[tk][1] == '_owns_approx_jac' and not neg:
            skip_when = 'approx'
    if culprit is not None and effects and all(
            any(a is not None and astx.same(a.test, culprit.ast.test) for a, _ in guards(e)) for e in effects):
        out.ok(fn, culprit.ast, 'FD pass and restore are guarded by the same condition')
        return
    out.bad(fn, culprit.ast if culprit is not None else loop,
            f'the FD pass (model._approx_schemes = {{}}; model.approx_totals(<check options>)) runs '
            f'unconditionally but the restore is skipped when `{skip_when}` holds (test `{cond}`): a model that already uses '
            'approx_totals keeps the check\'s method/step/form (_owns_approx_jac_meta, _approx_schemes) '
            'after check_totals returns, so later compute_totals calls return different derivatives',
            key=f'restore-skipped-when:{skip_when}')


# --------------------------------------------------------------------------- C31.perturb
PERTURB_CALLERS = [(SYS, 'System.compute_sparsity'), (EXPL, 'ExplicitComponent.compute_fd_sparsity'),
                   (IMPL, 'ImplicitComponent.compute_fd_sparsity'), (JAXU, '_compute_sparsity')]


def _listcomp_snapshot(v):
    """(iterated name, is_copy) for `[vec.asarray(copy=True) for vec in <name>]`."""
    if isinstance(v, ast.ListComp) and len(v.generators) == 1 and isinstance(v.generators[0].iter, ast.Name) \
            and isinstance(v.generators[0].target, ast.Name) and not v.generators[0].ifs:
        e = v.elt
        var = v.generators[0].target.id
        cp = False
        if isinstance(e, ast.Call) and astx.callee_attr(e) == 'copy' and astx.receiver(e) is not None and not e.args:
            cp, e = True, astx.receiver(e)
        if isinstance(e, ast.Call) and astx.callee_attr(e) == 'asarray' and astx.path(astx.receiver(e)) == var:
            c = astx.arg(e, 0, 'copy')
            if isinstance(c, ast.Constant) and c.value is True:
                cp = True
            return v.generators[0].iter.id, cp
    return None


@rule('C31.perturb', floor=6)
def perturb(repo, out):
    """System._perturbation_iter writes every perturbed/saved vector back from its own copy after the last iteration; every caller hands it both _inputs and _outputs."""
    fn = repo.func(SYS, 'System._perturbation_iter')
    ctx = Ctx(repo, fn)
    g = ctx.g
    params = [a.arg for a in fn.node.args.args]
    snaps = {}      # snapshot list name -> (vector list param, is_copy, node)
    for n in g.nodes:
        if n.kind == 'stmt' and isinstance(n.ast, ast.Assign) and len(n.ast.targets) == 1 and \
                isinstance(n.ast.targets[0], ast.Name):
            s = _listcomp_snapshot(n.ast.value)
            if s and s[0] in params:
                snaps[n.ast.targets[0].id] = (s[0], s[1], n)
    ys = [n for n in g.nodes if n.kind == 'stmt' and isinstance(n.ast, ast.Expr) and isinstance(n.ast.value, ast.Yield)]
    if not ys or not snaps:
        raise AnalysisError(f'{fn.ident}: yield or snapshots not found')
    yl = [a for a in astx.ancestors(ys[0].ast) if isinstance(a, (ast.For, ast.While))]
    if not yl:
        raise AnalysisError(f'{fn.ident}: yield not in a loop')
    mainloop = yl[-1]
    mh = g.nodes_of(mainloop)[0]
    ysucc = [m for y in ys for m in g.normal_succ(y)]
    after = g.reach(ysucc, labels=cfgm.noexc)
    restored = {}
    for n in after:
        if n.kind != 'iter':
            continue
        lp = n.ast
        it = lp.iter
        if not (isinstance(it, ast.Call) and astx.call_name(it) == 'zip' and len(it.args) == 2 and
                all(isinstance(a, ast.Name) for a in it.args) and isinstance(lp.target, ast.Tuple) and
                len(lp.target.elts) == 2 and all(isinstance(e, ast.Name) for e in lp.target.elts)):
            continue
        names = [a.id for a in it.args]
        tv = [e.id for e in lp.target.elts]
        for st in lp.body:
            for c in astx.calls(st):
                if astx.callee_attr(c) == 'set_val' and isinstance(astx.receiver(c), ast.Name) and \
                        len(c.args) == 1 and isinstance(c.args[0], ast.Name) and not c.keywords:
                    r, v = astx.receiver(c).id, c.args[0].id
                    if r in tv and v in tv and r != v:
                        veclist, snaplist = names[tv.index(r)], names[tv.index(v)]
                        restored.setdefault(veclist, []).append((snaplist, n, c))
    for p_ in ('perturb_vecs', 'save_vecs'):
        if p_ not in params:
            raise AnalysisError(f'{fn.ident}: parameter {p_} vanished')
        mine = [k for k, (src, cp, nd) in snaps.items() if src == p_]
        rs = restored.get(p_, [])
        if not rs:
            out.bad(fn, mainloop, f'vectors in {p_} are never written back after they were perturbed',
                    key=f'perturb-restore:{p_}')
            continue
        good = True
        for snaplist, n, c in rs:
            if snaplist not in snaps:
                out.unsure(fn, c, f'`{snaplist}` is not a recognised snapshot list')
                good = False
            elif snaps[snaplist][0] != p_:
                out.bad(fn, n.ast, f'vectors of {p_} are written back from the snapshots of {snaps[snaplist][0]}',
                        key=f'perturb-restore:{p_}')
                good = False
            elif not snaps[snaplist][1]:
                out.bad(fn, snaps[snaplist][2].ast, f'snapshots of {p_} are live views (asarray without copy): '
                        'writing them back restores nothing', key=f'perturb-copy:{p_}')
                good = False
            elif ctx.rd.defs(n, snaplist) != {snaps[snaplist][2]}:
                out.bad(fn, n.ast, f'`{snaplist}` is reassigned between snapshot and write-back', key=f'perturb-restore:{p_}')
                good = False
        if good:
            w = g.must_pass(ysucc, [g.exit], [n for _, n, _ in rs], labels=cfgm.noexc)
            if w is not None:
                out.bad(fn, mainloop, f'write-back of {p_} can be skipped after the last perturbation: '
                        f'{g.fmt_path(w)}', key=f'perturb-restore:{p_}')
            else:
                out.ok(fn, rs[0][2], f'{p_} written back from their own copies after the last perturbation')
    # callers
    for rel, qn in PERTURB_CALLERS:
        f = repo.func(rel, qn)
        c2 = Ctx(repo, f)
        for n in c2.g.calling('_perturbation_iter'):
            for c in n.calls():
                if astx.callee_attr(c) != '_perturbation_iter':
                    continue
                a1 = astx.arg(c, 2, 'perturb_vecs')
                a2 = astx.arg(c, 3, 'save_vecs')
                cover = []      # one set per reaching-definition combination
                unknown = False

                def elems(e):
                    if isinstance(e, ast.Tuple) or isinstance(e, ast.List):
                        return [{x.attr for x in e.elts if isinstance(x, ast.Attribute) and
                                 astx.path(x.value) == 'self'}] if all(isinstance(x, ast.Attribute) for x in e.elts) else None
                    if isinstance(e, ast.Name):
                        res = []
                        for d in c2.rd.defs(n, e.id):
                            if d.kind == 'stmt' and isinstance(d.ast, ast.Assign) and isinstance(d.ast.value, (ast.Tuple, ast.List)):
                                r = elems(d.ast.value)
                                if r is None:
                                    return None
                                res.append((d, r[0]))
                            else:
                                return None
                        return res
                    return None
                e1, e2 = (elems(a1) if a1 is not None else None), (elems(a2) if a2 is not None else None)
                if e1 is None or e2 is None:
                    out.unsure(f, c, 'vector tuples handed to _perturbation_iter not resolved')
                    continue
                if isinstance(a1, ast.Name) and isinstance(a2, ast.Name):
                    # pair definitions that live in the same branch
                    pairs = []
                    for d1, s1 in e1:
                        for d2, s2 in e2:
                            if d1.ast._parent is d2.ast._parent and \
                                    any(d1.ast in getattr(d1.ast._parent, fld, []) and d2.ast in getattr(d1.ast._parent, fld, [])
                                        for fld in ('body', 'orelse')):
                                pairs.append(s1 | s2)
                    cover = pairs or [s1 | s2 for _, s1 in e1 for _, s2 in e2]
                else:
                    l1 = e1 if not isinstance(a1, ast.Name) else [s for _, s in e1]
                    l2 = e2 if not isinstance(a2, ast.Name) else [s for _, s in e2]
                    cover = [s1 | s2 for s1 in l1 for s2 in l2]
                miss = [sorted({'_inputs', '_outputs'} - s) for s in cover if not {'_inputs', '_outputs'} <= s]
                if miss:
                    out.bad(f, c, f'self.{miss[0][0]} is neither perturbed-and-restored nor saved by '
                            '_perturbation_iter although the sparsity sweep re-runs the system: it keeps the '
                            'values of the last random point', key='perturb-cover')
                else:
                    out.ok(f, c, '_inputs and _outputs are both covered by perturb_vecs + save_vecs')


# --------------------------------------------------------------------------- C31.apply_nl
def _lin_add(a, b, s=1):
    r = dict(a)
    for k, v in b.items():
        r[k] = r.get(k, 0) + s * v
    return {k: v for k, v in r.items() if v != 0}


@rule('C31.apply_nl', floor=1)
def apply_nl(repo, out):
    """ExplicitComponent._apply_nonlinear (run by check_partials and the sparsity sweeps after their write-backs) has zero net effect on the outputs vector: symbolic evaluation of its update sequence."""
    fn = repo.func(EXPL, 'ExplicitComponent._apply_nonlinear')
    ctx = Ctx(repo, fn)
    g = ctx.g
    state = {'_outputs': {'o0': 1}, '_residuals': {'r0': 1}}
    unknown = []

    def vec_of(e, st):
        n = g.nodes_of(st)
        if not n:
            return None
        o = ctx.origins(e, n[0])
        if len(o) == 1:
            k, h = next(iter(o))
            if k == 'nl' and h == 'direct':
                # which nonlinear vector?
                if isinstance(e, ast.Attribute):
                    return e.attr
                if isinstance(e, ast.Name):
                    attrs, todo, seen = set(), [(n[0], e.id)], set()
                    while todo:
                        at, nm = todo.pop()
                        for d in ctx.rd.defs(at, nm):
                            if d in seen:
                                continue
                            seen.add(d)
                            if d.kind == 'stmt' and isinstance(d.ast, ast.AugAssign):
                                todo.append((d, nm))
                            elif d.kind == 'stmt' and isinstance(d.ast, ast.Assign) and \
                                    isinstance(d.ast.value, ast.Attribute):
                                attrs.add(d.ast.value.attr)
                            elif d.kind == 'stmt' and isinstance(d.ast, ast.Assign) and \
                                    isinstance(d.ast.value, ast.Name):
                                todo.append((d, d.ast.value.id))
                            else:
                                attrs.add(None)
                    if len(attrs) == 1:
                        return attrs.pop()
        return None

    def mentions_vec(st):
        for x in astx.walk(st):
            if isinstance(x, (ast.Name, ast.Attribute)) and vec_of(x, st) in state:
                return True
        return False

    def run(body):
        for st in body:
            if isinstance(st, (ast.With, ast.AsyncWith)):
                run(st.body)
                continue
            if isinstance(st, ast.Assign) and all(isinstance(t, ast.Name) for t in st.targets):
                continue
            if isinstance(st, ast.AugAssign):
                tv = vec_of(st.target, st)
                if tv in state:
                    if isinstance(st.op, ast.Mult) and isinstance(astx.canon(st.value), ast.Constant) and \
                            isinstance(astx.canon(st.value).value, (int, float)):
                        c = astx.canon(st.value).value
                        state[tv] = {k: v * c for k, v in state[tv].items() if v * c != 0}
                        continue
                    sv = vec_of(st.value, st)
                    if sv in state and isinstance(st.op, (ast.Add, ast.Sub)):
                        state[tv] = _lin_add(state[tv], state[sv], 1 if isinstance(st.op, ast.Add) else -1)
                        continue
                    unknown.append(st)
                    continue
                if not mentions_vec(st):
                    continue
                unknown.append(st)
                continue
            if isinstance(st, ast.Expr) and isinstance(st.value, ast.Call):
                c = st.value
                nm = astx.callee_attr(c)
                if nm == 'set_vec' and len(c.args) == 1:
                    tv, sv = vec_of(astx.receiver(c), st), vec_of(c.args[0], st)
                    if tv in state and sv in state:
                        state[tv] = dict(state[sv])
                        continue
                if nm in ('_compute_wrapper', 'compute') and astx.path(astx.receiver(c)) == 'self':
                    state['_outputs'] = {'f': 1}
                    continue
                if not mentions_vec(st):
                    continue
            elif not mentions_vec(st):
                continue
            unknown.append(st)
    run(astx.strip_doc(fn.node.body))
    if unknown:
        out.unsure(fn, unknown[0], 'statement on outputs/residuals outside the recognised update forms')
        return
    if 'f' not in str(state) and state['_residuals'] == {'r0': 1}:
        raise AnalysisError(f'{fn.ident}: compute call not found')
    if state['_outputs'] == {'o0': 1}:
        want_r = {'f': 1, 'o0': -1}
        if state['_residuals'] != want_r:
            out.bad(fn, fn.node, f'residuals end as {state["_residuals"]} instead of f(inputs) - outputs',
                    key='apply-nl-resid')
        else:
            out.ok(fn, fn.node, 'symbolically: outputs_end = outputs_start, residuals_end = f - outputs_start')
    else:
        out.bad(fn, fn.node, f'outputs are not put back after compute(): symbolically outputs end as '
                f'{state["_outputs"]} (o0 = starting outputs, f = compute result); check_partials and the '
                'sparsity sweeps call this after their write-backs, so the model outputs are left changed',
                key='apply-nl-outputs')


# --------------------------------------------------------------------------- C31.meta_copy
@rule('C31.meta_copy', floor=4)
def meta_copy(repo, out):
    """Group._active_desvars/_active_responses hand _TotalJacInfo copies of the driver's metadata dicts (it writes indices/size/jac_slice/remote into them)."""
    for qn, param in (('Group._active_desvars', 'designvars'), ('Group._active_responses', 'responses')):
        fn = repo.func(GROUP, qn)
        ctx = Ctx(repo, fn)
        g = ctx.g
        n_ok = 0
        for n in g.nodes:
            if n.kind != 'stmt' or not isinstance(n.ast, ast.Assign):
                continue
            for t in n.ast.targets:
                if not isinstance(t, ast.Subscript):
                    continue
                v = n.ast.value
                # value derived from the loop variable over <param>.items()?
                loops = [a for a in astx.ancestors(n.ast) if isinstance(a, ast.For)]
                src = None
                for lp in loops:
                    it = lp.iter
                    if isinstance(it, ast.Call) and astx.callee_attr(it) in ('items', 'values') and \
                            isinstance(astx.receiver(it), ast.Name):
                        base = astx.receiver(it).id
                        ds = ctx.rd.defs(g.nodes_of(lp)[0], base)
                        if base == param:
                            tg = lp.target
                            names = [x.id for x in astx.walk(tg) if isinstance(x, ast.Name)]
                            src = names[-1] if names else None
                if src is None:
                    continue
                if isinstance(v, ast.Name) and v.id == src:
                    out.bad(fn, n.ast, f"the driver's own metadata dict `{src}` is handed out without a copy: "
                            "_TotalJacInfo writes 'indices'/'size'/'jac_slice'/'remote' into it, which changes the "
                            'design variable / response for every later call', key='meta-alias')
                elif isinstance(v, ast.Call) and ((astx.callee_attr(v) in ('copy', 'deepcopy') and
                                                   (astx.path(astx.receiver(v)) == src or
                                                    (v.args and astx.path(v.args[0]) == src))) or
                                                  (astx.call_name(v) == 'dict' and v.args and astx.path(v.args[0]) == src)):
                    out.ok(fn, n.ast, f'`{src}` copied before it is handed to the total jacobian')
                    n_ok += 1
                elif isinstance(v, ast.Dict) and any(k is None and astx.path(x) == src for k, x in zip(v.keys, v.values)):
                    out.ok(fn, n.ast, f'`{src}` copied ({{**meta}})')
                    n_ok += 1
                elif astx.mentions(v, src):
                    out.unsure(fn, n.ast, f'value derived from `{src}` not recognised as copy or alias')


# --------------------------------------------------------------------------- C31.jvp_return
@rule('C31.jvp_return', floor=1)
def jvp_return(repo, out):
    """Problem.compute_jacvec_product returns copies, not live views of the linear vectors (a later solve would silently rewrite an earlier result)."""
    fn = repo.func(PROB, 'Problem.compute_jacvec_product')
    ctx = Ctx(repo, fn)
    g = ctx.g
    rets = [n for n in g.nodes if n.kind == 'stmt' and isinstance(n.ast, ast.Return) and n.ast.value is not None]
    if not rets:
        raise AnalysisError(f'{fn.ident}: no return value')
    for n in rets:
        v = n.ast.value
        at_of = {}
        if isinstance(v, ast.Name):
            # dict built up statement by statement: `res = {}` ... `res[k] = value` ... `return res`
            d0 = ctx.rd.value(n, v.id)
            stores = [(m, m.ast.value) for m in g.nodes if m.kind == 'stmt' and isinstance(m.ast, ast.Assign)
                      and any(isinstance(t, ast.Subscript) and isinstance(t.value, ast.Name) and t.value.id == v.id
                              for t in m.ast.targets)]
            if isinstance(d0, ast.Dict) or (isinstance(d0, ast.Call) and astx.call_name(d0) == 'dict' and
                                            not d0.args and not d0.keywords):
                vals = (list(d0.values) if isinstance(d0, ast.Dict) else []) + [e for _, e in stores]
                at_of = {id(e): m for m, e in stores}
                if not vals:
                    out.unsure(fn, n.ast, 'returned dict is never filled')
                    continue
            elif isinstance(d0, ast.DictComp):
                vals = [d0.value]
            else:
                out.unsure(fn, n.ast, 'returned name is not a dict built in this function')
                continue
        elif isinstance(v, ast.DictComp):
            vals = [v.value]
        elif isinstance(v, ast.Dict):
            vals = list(v.values)
        else:
            out.unsure(fn, n.ast, 'return value is not a dict display/comprehension')
            continue
        for e in vals:
            o = ctx.origins(e, at_of.get(id(e), n))
            kinds = {k for k, _ in o}
            if kinds & set(VEC):
                out.bad(fn, n.ast, f'returned value `{astx.src(e)}` is a live view of a model vector: the result of '
                        'this call changes when the next linear solve overwrites the vector', key='jvp-returns-view')
            elif kinds == {'copy'}:
                out.ok(fn, n.ast, 'returned arrays are copies')
            else:
                out.unsure(fn, n.ast, f'cannot tell whether `{astx.src(e)}` aliases a vector')


# --------------------------------------------------------------------------- C31.coloring_run
RUN_CALLS = ('run_model', 'run_solve_nonlinear', '_solve_nonlinear', 'run_driver')
# how the run_model flag travels from get_total_coloring to the place that executes the model
COLORING_CHAIN = [(COLOR, 'dynamic_total_coloring', 'compute_total_coloring'),
                  (COLOR, 'compute_total_coloring', '_get_total_jac_sparsity')]
COLORING_RUNNERS = [(COLOR, 'compute_total_coloring'), (COLOR, '_get_total_jac_sparsity')]


class _NoEval(Exception):
    def __init__(self, node):
        self.node = node


def _eval_counter(e, c):
    """Evaluate an expression over self._run_counter = c (ints, comparisons, boolean connectives)."""
    if isinstance(e, ast.Constant) and isinstance(e.value, (int, bool)):
        return e.value
    if isinstance(e, ast.Attribute) and e.attr == '_run_counter':
        return c
    if isinstance(e, ast.UnaryOp):
        v = _eval_counter(e.operand, c)
        if isinstance(e.op, ast.Not):
            return not v
        if isinstance(e.op, ast.USub):
            return -v
    if isinstance(e, ast.BinOp) and isinstance(e.op, (ast.Add, ast.Sub)):
        a, b = _eval_counter(e.left, c), _eval_counter(e.right, c)
        return a + b if isinstance(e.op, ast.Add) else a - b
    if isinstance(e, ast.BoolOp):
        vals = [_eval_counter(v, c) for v in e.values]
        return all(vals) if isinstance(e.op, ast.And) else any(vals)
    if isinstance(e, ast.Compare):
        left = _eval_counter(e.left, c)
        for op, r in zip(e.ops, e.comparators):
            right = _eval_counter(r, c)
            fn = {ast.Lt: lambda a, b: a < b, ast.LtE: lambda a, b: a <= b, ast.Gt: lambda a, b: a > b,
                  ast.GtE: lambda a, b: a >= b, ast.Eq: lambda a, b: a == b, ast.NotEq: lambda a, b: a != b}.get(type(op))
            if fn is None:
                raise _NoEval(e)
            if not fn(left, right):
                return False
            left = right
        return True
    raise _NoEval(e)


def _param_truthy_guarded(ctx, node, pname):
    """True if CFG node is only reachable through the true edge of a test that is exactly parameter pname."""
    g = ctx.g
    tests = [t for t in g.nodes if t.kind == 'test' and isinstance(t.ast, ast.If) and
             isinstance(t.ast.test, ast.Name) and t.ast.test.id == pname and
             ctx.rd.defs(t, pname) == {g.entry}]
    # remove the true edges of those tests: if node is still reachable, it is not guarded
    from collections import deque
    dq, seen = deque([g.entry]), {g.entry}
    while dq:
        n = dq.popleft()
        if n is node:
            return False
        for m2, lab in g.succ[n]:
            if n in tests and lab == 'true':
                continue
            if m2 not in seen:
                seen.add(m2)
                dq.append(m2)
    return bool(tests)


@rule('C31.coloring_run', floor=6)
def coloring_run(repo, out):
    """A dynamic total coloring triggered by a derivative query runs the model only if it has never been run: the default of get_total_coloring's run flag is true at most for the initial run counter, and the flag alone gates every run_model on the coloring path."""
    # 1. initial value and monotonicity of the run counter
    init = repo.func(PROB, 'Problem.__init__')
    inits = [st for st in astx.walk_stmts(init.node.body) if isinstance(st, ast.Assign) and
             any(astx.path(t) == 'self._run_counter' for t in st.targets)]
    if len(inits) != 1 or not isinstance(astx.canon(inits[0].value), ast.Constant) or \
            not isinstance(astx.canon(inits[0].value).value, int):
        raise AnalysisError('initial value of Problem._run_counter not found')
    c0 = astx.canon(inits[0].value).value
    m = repo.module(PROB)
    for f in m.funcs.values():
        for st in astx.walk_stmts(f.node.body):
            if isinstance(st, (ast.Assign, ast.AugAssign)):
                for t in astx.assigned_targets(st):
                    if isinstance(t, ast.Attribute) and t.attr == '_run_counter' and st is not inits[0]:
                        if not (isinstance(st, ast.AugAssign) and isinstance(st.op, ast.Add) and
                                isinstance(st.value, ast.Constant) and st.value.value == 1):
                            out.unsure(f, st, '_run_counter written other than by `+= 1`: "never run" is no longer '
                                       'counter == initial value')
                            return
    out.ok(init, inits[0], f'_run_counter starts at {c0} and only ever grows by 1 per run')

    # 2. default of the run flag in get_total_coloring
    fn = repo.func(PROB, 'Problem.get_total_coloring')
    ctx = Ctx(repo, fn)
    g = ctx.g
    calls = [(n, c) for n in g.calling('dynamic_total_coloring') for c in n.calls()
             if astx.callee_attr(c) == 'dynamic_total_coloring']
    if not calls:
        raise AnalysisError(f'{fn.ident}: dynamic_total_coloring call not found')
    for n, c in calls:
        flag = astx.arg(c, 1, 'run_model')
        if flag is None:
            out.bad(fn, c, 'dynamic_total_coloring is called without run_model: its default (True) re-runs the model '
                    'on every query that needs a coloring', key='coloring-run-default')
            continue
        exprs = [(flag, n)]
        defaults = []
        seen = set()
        bad_shape = None
        while exprs:
            e, at = exprs.pop()
            if id(e) in seen:
                continue
            seen.add(id(e))
            if isinstance(e, ast.Name):
                ds = ctx.rd.defs(at, e.id)
                for d in ds:
                    if d is g.entry:
                        continue        # explicit caller-supplied flag: out of scope
                    if d.kind == 'stmt' and isinstance(d.ast, ast.Assign) and len(d.ast.targets) == 1 and \
                            isinstance(d.ast.targets[0], ast.Name):
                        exprs.append((d.ast.value, d))
                    else:
                        bad_shape = d.ast
            elif isinstance(e, ast.IfExp):
                exprs.append((e.body, at))
                exprs.append((e.orelse, at))
            elif isinstance(e, ast.BoolOp) and isinstance(e.op, ast.Or) and len(e.values) == 2 and \
                    isinstance(e.values[0], ast.Name) and ctx.rd.defs(at, e.values[0].id) == {g.entry}:
                exprs.append((e.values[1], at))
            else:
                defaults.append(e)
        if bad_shape is not None or not defaults:
            out.unsure(fn, c, 'default of the run flag not recognised')
            continue
        for e in defaults:
            try:
                vals = [bool(_eval_counter(e, c0 + k)) for k in range(3)]
            except _NoEval as u:
                out.unsure(fn, e, f'run-flag default contains an atom other than the run counter: {astx.src(u.node)}')
                continue
            if vals[1] or vals[2]:
                k = 1 if vals[1] else 2
                out.bad(fn, e, f'the default run flag `{astx.src(e)}` is still true after {k} run(s) '
                        f'(_run_counter = {c0 + k}, initial {c0}): a derivative query that has to compute a dynamic '
                        'coloring (compute_totals / check_totals -> _TotalJacInfo.__init__ -> get_total_coloring) '
                        're-runs an already executed model, so set_val + compute_totals silently recomputes outputs',
                        key='coloring-run-default')
            else:
                out.ok(fn, e, f'default run flag is {vals} for counter {c0}, {c0 + 1}, {c0 + 2}: true only before the first run')

    # 3. the flag is handed down unchanged
    for rel, qn, callee in COLORING_CHAIN:
        f = repo.func(rel, qn)
        cx = Ctx(repo, f)
        found = False
        for n in cx.g.calling(callee):
            for c in n.calls():
                if astx.callee_attr(c) != callee:
                    continue
                found = True
                v = astx.kwarg(c, 'run_model')
                if isinstance(v, ast.Name) and v.id == 'run_model' and cx.rd.defs(n, 'run_model') == {cx.g.entry}:
                    out.ok(f, c, 'run_model flag passed through unchanged')
                elif v is None and callee == '_get_total_jac_sparsity':
                    out.ok(f, c, 'run_model not passed (callee default False)')
                elif isinstance(v, ast.Constant) and v.value is False:
                    out.ok(f, c, 'run_model=False')
                elif isinstance(v, ast.Constant) or v is None:
                    out.bad(f, c, f'{callee} is asked to run the model regardless of the caller\'s run_model flag',
                            key='coloring-run-chain')
                else:
                    out.unsure(f, c, 'run_model argument is not the unchanged parameter')
        if not found:
            raise AnalysisError(f'{f.ident}: call of {callee} not found')

    # 4. every model execution on the coloring path is gated by the flag alone
    for rel, qn in COLORING_RUNNERS + [(COLOR, 'dynamic_total_coloring'), (PROB, 'Problem.get_total_coloring')]:
        f = repo.func(rel, qn)
        cx = Ctx(repo, f)
        for n in cx.g.nodes:
            if n.kind in ('entry', 'exit', 'raise', 'join'):
                continue
            for c in n.calls():
                if astx.callee_attr(c) in RUN_CALLS:
                    if _param_truthy_guarded(cx, n, 'run_model'):
                        out.ok(f, c, 'model execution only under `if run_model:`')
                    else:
                        out.bad(f, c, f'{astx.callee_attr(c)}() on the total-coloring path is not gated by the '
                                'run_model flag alone: a read-only derivative query can re-execute the model',
                                key='coloring-run-ungated')


# --------------------------------------------------------------------------- C31.scale_ctx
SCALE_INV = {'scale_to_norm': 'scale_to_phys', 'scale_to_phys': 'scale_to_norm'}
SCALE_CTX_FUNCS = [(SYS, 'System._scaled_context_all'), (SYS, 'System._unscaled_context')]


def _generator_parts(repo, fn, it):
    """If `it` is `self.<m>()` and <m> is a generator that only chains iterables (`yield from E`, or
    `for v in E: yield v`) under plain `if` guards, return [(dump(E), guard dumps)], else None."""
    if not (isinstance(it, ast.Call) and not it.args and not it.keywords and astx.path(astx.receiver(it)) == 'self'
            and fn.cls is not None):
        return None
    h = repo.lookup(fn.rel, fn.cls.name, astx.callee_attr(it))
    if h is None:
        return None
    parts = []

    def run(body, guards):
        for st in body:
            if isinstance(st, ast.If):
                t = astx.dump(st.test)
                if not run(st.body, guards + [t + '+']) or not run(st.orelse, guards + [t + '-']):
                    return False
            elif isinstance(st, ast.Expr) and isinstance(st.value, ast.YieldFrom):
                parts.append(('each:' + astx.dump(st.value.value), tuple(guards)))
            elif isinstance(st, ast.For) and isinstance(st.target, ast.Name) and len(st.body) == 1 and \
                    isinstance(st.body[0], ast.Expr) and isinstance(st.body[0].value, ast.Yield) and \
                    isinstance(st.body[0].value.value, ast.Name) and st.body[0].value.value.id == st.target.id \
                    and not st.orelse:
                parts.append(('each:' + astx.dump(st.iter), tuple(guards)))
            elif isinstance(st, ast.Pass):
                continue
            else:
                return False
        return True
    if not run(astx.strip_doc(h.node.body), []) or not parts:
        return None
    return parts


def _scale_sites(g, region, repo=None, fn=None, cx=None):
    """Scaling operations in a CFG region: [(op, what-is-scaled dump, guards, args dump, anchor ast)]."""
    res, seen = [], set()
    for n in region:
        if n.kind in ('entry', 'exit', 'raise', 'join'):
            continue
        for c in n.calls():
            op = astx.callee_attr(c)
            if op not in SCALE_INV or astx.receiver(c) is None or id(c) in seen:
                continue
            seen.add(id(c))
            recv = astx.receiver(c)
            what = astx.dump(recv)
            st = astx.stmt_of(c)
            for a in astx.ancestors(c):
                if isinstance(a, ast.For) and isinstance(a.target, ast.Name) and isinstance(recv, ast.Name) and \
                        a.target.id == recv.id:
                    an = g.nodes_of(a)
                    what = 'each:' + (_resolved_dump(cx, a.iter, an[0]) if cx is not None and an else astx.dump(a.iter))
                    st = a
                    break
            guards, anchor = [], st
            for a in astx.ancestors(st):
                if isinstance(a, ast.If):
                    pos = astx.in_body(st, a, 'body')
                    t = a.test
                    while isinstance(t, ast.UnaryOp) and isinstance(t.op, ast.Not):
                        t, pos = t.operand, not pos
                    guards.append(astx.dump(t) + ('+' if pos else '-'))
                    anchor = a
                elif isinstance(a, (ast.For, ast.While)):
                    anchor = a
            args = astx.dump(ast.Tuple(elts=list(c.args) + [k.value for k in c.keywords], ctx=ast.Load()))
            parts = None
            if repo is not None and isinstance(st, ast.For) and what.startswith('each:'):
                parts = _generator_parts(repo, fn, st.iter)
            if parts:
                # loop over a private chaining generator: one site per chained iterable, with its guard
                for w2, g2 in parts:
                    res.append((op, w2, tuple(sorted(guards + list(g2))), args, anchor, c))
            else:
                res.append((op, what, tuple(sorted(guards)), args, anchor, c))
    return res


class _FoldConst(ast.NodeTransformer):
    """Substitute parameter names by constants and fold `if <const>` / `if not <const>` / conditional expressions."""

    def __init__(self, consts, rename):
        self.consts, self.rename = consts, rename

    def visit_Name(self, n):
        if n.id in self.consts and isinstance(n.ctx, ast.Load):
            return ast.copy_location(ast.Constant(value=self.consts[n.id]), n)
        if n.id in self.rename:
            return ast.copy_location(ast.Name(id=self.rename[n.id], ctx=n.ctx), n)
        return n

    @staticmethod
    def _truth(t):
        if isinstance(t, ast.Constant):
            return bool(t.value)
        if isinstance(t, ast.UnaryOp) and isinstance(t.op, ast.Not):
            v = _FoldConst._truth(t.operand)
            return None if v is None else not v
        if isinstance(t, ast.Compare) and len(t.ops) == 1 and isinstance(t.left, ast.Constant) and \
                isinstance(t.comparators[0], ast.Constant) and isinstance(t.ops[0], (ast.Is, ast.IsNot, ast.Eq, ast.NotEq)):
            eq = t.left.value == t.comparators[0].value and type(t.left.value) is type(t.comparators[0].value)
            return eq if isinstance(t.ops[0], (ast.Is, ast.Eq)) else not eq
        return None

    def visit_If(self, n):
        self.generic_visit(n)
        v = self._truth(n.test)
        if v is None:
            return n
        keep = n.body if v else n.orelse
        return keep or [ast.copy_location(ast.Pass(), n)]

    def visit_IfExp(self, n):
        self.generic_visit(n)
        v = self._truth(n.test)
        return n if v is None else (n.body if v else n.orelse)


def _inline_const_helpers(repo, fn, thorough_checks=True):
    """(Func, problem): fn with statement calls `self.<helper>(<constants>)` replaced by the helper body
    specialised to those constants.  problem is a message when such a call exists but the helper may not be
    inlined soundly (overridden in a subclass, or used outside @contextmanager functions)."""
    import copy
    from ..core import Func
    if fn.cls is None:
        return fn, None

    def const_call(st):
        if isinstance(st, ast.Expr) and isinstance(st.value, ast.Call):
            c = st.value
            if astx.path(astx.receiver(c)) == 'self' and (c.args or c.keywords) and \
                    all(isinstance(a, ast.Constant) for a in c.args) and \
                    all(k.arg is not None and isinstance(k.value, ast.Constant) for k in c.keywords):
                return c
        return None
    cands = [const_call(st) for st in astx.walk_stmts(fn.node.body)]
    cands = [c for c in cands if c is not None]
    if not cands:
        return fn, None
    helpers = {}
    for c in cands:
        h = repo.lookup(fn.rel, fn.cls.name, astx.callee_attr(c))
        if h is None or h.node is fn.node or h.node.decorator_list:
            continue
        a = h.node.args
        if a.vararg or a.kwarg or a.kwonlyargs or a.posonlyargs:
            continue
        if any(isinstance(x, (ast.Return, ast.Yield, ast.YieldFrom, ast.Await)) and
               (not isinstance(x, ast.Return) or x.value is not None) for x in astx.walk(h.node)):
            continue
        if not any(astx.callee_attr(x) in SCALE_INV for x in astx.calls(h.node)):
            continue
        helpers[astx.callee_attr(c)] = h
    if not helpers:
        return fn, None
    # soundness side conditions
    for nm, h in helpers.items():
        if repo.overriders(h.rel, h.cls.name, nm):
            return fn, f'helper {nm} is overridden in a subclass: the inlined body is not what runs'
        for rel in repo.shipped():
            if nm not in repo.source(rel):
                continue
            for f in repo.module(rel).funcs.values():
                if f.node is h.node:
                    continue
                for x in astx.calls(f.node):
                    if astx.callee_attr(x) == nm and 'contextmanager' not in f.decorators():
                        return fn, f'helper {nm} is also called from {f.ident} (not a context manager)'
    clone = ast.parse(ast.unparse(fn.node)).body[0]
    orig, new = list(astx.walk_stmts(fn.node.body)), list(astx.walk_stmts(clone.body))
    if len(orig) == len(new):
        for o, n_ in zip(orig, new):
            for x in ast.walk(n_):
                if hasattr(x, 'lineno'):
                    x.lineno = getattr(o, 'lineno', x.lineno)
                    x.end_lineno = getattr(o, 'end_lineno', x.lineno)
    counter = [0]

    def expand(st):
        c = const_call(st)
        h = helpers.get(astx.callee_attr(c)) if c is not None else None
        if h is None:
            return None
        params = [x.arg for x in h.node.args.args][1:]
        consts = {}
        for i, a_ in enumerate(c.args):
            if i >= len(params):
                return None
            consts[params[i]] = a_.value
        for k in c.keywords:
            if k.arg not in params or k.arg in consts:
                return None
            consts[k.arg] = k.value.value
        d = h.node.args.defaults
        for p_, dv in zip(params[len(params) - len(d):], d):
            if p_ not in consts:
                if not isinstance(dv, ast.Constant):
                    return None
                consts[p_] = dv.value
        if set(params) - set(consts):
            return None
        body = astx.strip_doc(h.node.body)
        stored = {x.id for b in body for x in ast.walk(b) if isinstance(x, ast.Name) and isinstance(x.ctx, ast.Store)}
        if stored & set(params):
            return None
        counter[0] += 1
        rename = {nm: f'_inl{counter[0]}_{nm}' for nm in stored}
        res = []
        for b in body:
            r = _FoldConst(consts, rename).visit(ast.parse(ast.unparse(b)).body[0])
            rs = r if isinstance(r, list) else [r]
            for x in rs:
                for y in ast.walk(x):
                    if hasattr(y, 'lineno'):
                        y.lineno = y.end_lineno = getattr(b, 'lineno', 0)
                ast.fix_missing_locations(x)
            res.extend(rs)
        return res or [ast.Pass()]

    def do_block(stmts):
        out_ = []
        for st in stmts:
            r = expand(st)
            if r is not None:
                out_.extend(r)
                continue
            for fld in ('body', 'orelse', 'finalbody'):
                sub_ = getattr(st, fld, None)
                if isinstance(sub_, list) and sub_ and isinstance(sub_[0], ast.stmt) and \
                        not isinstance(st, (ast.FunctionDef, ast.AsyncFunctionDef, ast.ClassDef)):
                    setattr(st, fld, do_block(sub_))
            if isinstance(st, ast.Try):
                for h_ in st.handlers:
                    h_.body = do_block(h_.body)
            out_.append(st)
        return out_
    clone.body = do_block(clone.body)
    ast.fix_missing_locations(clone)
    for par in ast.walk(clone):
        for ch in ast.iter_child_nodes(par):
            ch._parent = par
    clone._parent = getattr(fn.node, '_parent', None)
    return Func(fn.module, fn.qualname, clone, fn.cls), None


@rule('C31.scale_ctx', floor=4)
def scale_ctx(repo, out):
    """The scaling context managers used by every derivative query undo each scale operation (same vectors, same guard, inverse operation) on the normal AND the exceptional exit of the with-body: a query that raises leaves the vectors as it found them."""
    for rel, qn in SCALE_CTX_FUNCS:
        fn0 = repo.func(rel, qn)
        fn, problem = _inline_const_helpers(repo, fn0)
        if problem:
            out.unsure(fn0, fn0.node, problem)
            continue
        fn = _unroll_const_loops(repo, fn)
        ctx = Ctx(repo, fn)
        g = ctx.g
        ys = [n for n in g.nodes if n.kind == 'stmt' and isinstance(n.ast, ast.Expr) and
              isinstance(n.ast.value, ast.Yield)]
        if len({id(n.ast) for n in ys}) != 1:
            raise AnalysisError(f'{fn.ident}: expected exactly one yield')
        y = ys[0]
        succs = [m for m, _ in g.succ[y]]
        after = g.reach(succs)
        before = {n for n in g.nodes if n not in after and n is not y and g.path([n], [y]) is not None}
        pre, post = _scale_sites(g, before, repo, fn, ctx), _scale_sites(g, after, repo, fn, ctx)
        if not pre:
            raise AnalysisError(f'{fn.ident}: no scaling operation before the yield')
        used = set()
        for op, what, guards, args, anchor, call in pre:
            match = [p for p in post if p[0] == SCALE_INV[op] and p[1] == what and p[3] == args]
            if not match:
                out.bad(fn, call, f'`{astx.src(call)}` before the yield has no inverse ({SCALE_INV[op]} of the same '
                        'vectors) after it: the vectors stay in the temporary scaling state', key=f'scale-undo:{op}:{what[:60]}')
                continue
            same_guard = [p for p in match if p[2] == guards]
            if not same_guard:
                out.bad(fn, match[0][5], f'the inverse of `{astx.src(call)}` runs under a different condition than the '
                        'operation it undoes', key=f'scale-undo:{op}:{what[:60]}')
                continue
            anchors = [n for p in same_guard for n in g.nodes_of(p[4])]
            used.update(id(p[5]) for p in same_guard)
            w = g.must_pass(g.normal_succ(y), [g.exit], anchors, labels=cfgm.noexc)
            if w is not None:
                out.bad(fn, call, f'`{astx.src(call)}` is not undone when the with-body ends: {g.fmt_path(w)}',
                        key=f'scale-undo:{op}:{what[:60]}')
                continue
            # exceptional exit: the inverse lives in a `finally` (or a catch-all handler) of a try around the
            # yield, or -- any other shape -- every CFG path of the raising continuation passes it
            exc_ok = False
            for p in same_guard:
                for t in astx.ancestors(p[4]):
                    if isinstance(t, ast.Try) and astx.in_body(y.ast, t, 'body'):
                        if astx.in_body(p[4], t, 'finalbody') or p[4] in t.finalbody:
                            exc_ok = True
                        for h in t.handlers:
                            if (p[4] in h.body or any(p[4] is x for st in h.body for x in astx.walk(st, True))) and \
                                    (h.type is None or astx.path(h.type) == 'BaseException'):
                                exc_ok = True
            if not exc_ok:
                ex = [m2 for m2, lab in g.succ[y] if lab == 'exc']
                w = g.must_pass(ex, [g.exit, g.raise_exit], anchors)
                if w is not None:
                    out.bad(fn, call, f'`{astx.src(call)}` is not undone when the with-body raises (the inverse is '
                            'not in a try/finally around the yield): a derivative query that fails leaves the model '
                            f'vectors in the wrong scaling state: {g.fmt_path(w)}', key=f'scale-undo:{op}:{what[:60]}')
                    continue
            out.ok(fn, call, f'undone by {SCALE_INV[op]} under the same guard on normal and exceptional exit')
        for p in post:
            if id(p[5]) not in used and not any(q[0] == SCALE_INV[p[0]] and q[1] == p[1] for q in pre):
                out.bad(fn, p[5], f'`{astx.src(p[5])}` after the yield undoes nothing that was done before it',
                        key=f'scale-unbalanced:{p[0]}:{p[1][:60]}')


# --------------------------------------------------------------------------- C31.query_caches
@rule('C31.query_caches', floor=2)
def query_caches(repo, out):
    """Every total-derivative query invalidates the model's memoised jacobian of/wrt lists before it re-targets the model's approximation of/wrt: no result depends on an earlier query's (of, wrt)."""
    # 1. the memo really depends on the per-query state, and the clearing method clears all of it
    sysm = repo.module(SYS)
    clr = repo.func(SYS, 'System._clear_jac_caches')
    cleared = {t.attr for st in astx.walk_stmts(clr.node.body) if isinstance(st, ast.Assign)
               for t in st.targets if isinstance(t, ast.Attribute) and astx.path(t.value) == 'self'}
    memo = set()
    for qn in ('System._get_jac_ofs', 'System._get_jac_wrts'):
        f = repo.func(SYS, qn)
        for x in astx.walk(f.node):
            if isinstance(x, ast.Attribute) and astx.path(x.value) == 'self' and x.attr.endswith('_cache'):
                memo.add(x.attr)
    if not memo:
        raise AnalysisError('memo attributes of _get_jac_ofs/_get_jac_wrts not found')
    dep = any(astx.mentions(repo.func(GROUP, q).node, '_owns_approx_of', '_owns_approx_wrt')
              for q in ('Group._jac_of_iter', 'Group._jac_wrt_iter'))
    if not dep:
        raise AnalysisError('Group._jac_of_iter/_jac_wrt_iter no longer depend on _owns_approx_of/_wrt')
    miss = sorted(memo - cleared)
    if miss:
        out.bad(clr, clr.node, f'_clear_jac_caches does not reset {miss}: the memoised of/wrt list of an earlier query '
                'survives', key='cache-clear-incomplete')
    else:
        out.ok(clr, clr.node, f'_clear_jac_caches resets every memo read by _get_jac_ofs/_get_jac_wrts: {sorted(memo)}')
    # 2. unconditional invalidation before the query re-targets the approximation
    fn = repo.func(TJ, '_TotalJacInfo.__init__')
    ctx = Ctx(repo, fn)
    g = ctx.g
    retarget = g.calling('_initialize_model_approx')
    if not retarget:
        raise AnalysisError(f'{fn.ident}: _initialize_model_approx call not found')

    def clears_model(n):
        for c in n.calls():
            if astx.callee_attr(c) == '_clear_jac_caches':
                p = ctx.norm_path(astx.receiver(c), n) or ''
                if p.endswith('.model') or p == 'model':
                    return True
        return False
    clears = g.where(clears_model)
    for r in retarget:
        if not clears:
            out.bad(fn, r.ast, 'the query re-targets model._owns_approx_of/_wrt but never calls '
                    'model._clear_jac_caches(): the memoised of/wrt lists of the previous query are reused',
                    key='cache-not-cleared')
            continue
        w = g.dominated_by(r, clears, labels=cfgm.noexc)
        if w is not None:
            out.bad(fn, clears[0].ast, 'model._clear_jac_caches() is skipped on some path to '
                    '_initialize_model_approx: an approximated total (approx_totals model, FD half of check_totals) '
                    f'then reuses the of/wrt lists memoised by an earlier query with different of/wrt: {g.fmt_path(w)}',
                    key='cache-not-cleared')
        else:
            out.ok(fn, clears[0].ast, 'memoised of/wrt lists are invalidated on every path before the approximation '
                   'is re-targeted')


# --------------------------------------------------------------------------- self-test
_CTX_OLD = ("    try:\n        yield\n    finally:\n        problem._metadata['coloring_randgen'] = None\n"
            "        problem._computing_coloring = False\n"
            "        problem._metadata['randomize_subjacs'] = saved_rand_subjacs\n"
            "        problem._metadata['randomize_seeds'] = saved_rand_seeds\n")
_LIN_OLD = ("                        try:\n                            ln_solver = model._linear_solver\n"
            "                            with model._scaled_context_all():\n"
            "                                model._linearize(sub_do_ln=ln_solver._linearize_children())\n"
            "                            ln_solver._linearize()\n                        finally:\n"
            "                            model._tot_jac = None\n")
_CHK_OLD = ("        self._metadata['checking'] = True\n        try:\n            Jcalc = total_info.compute_totals()\n"
            "        finally:\n            self._metadata['checking'] = False\n")

selftest(
    'C31',
    # ---- effect
    Mutant('effect-zero-outputs', TJ, '            model._dinputs.set_val(0.0)\n            model._doutputs.set_val(0.0)',
           '            model._dinputs.set_val(0.0)\n            model._outputs.set_val(0.0)', 'C31.effect'),
    Mutant('effect-jvp-nonlinear-vec', PROB, "rvec = self.model._vectors[rkind]['linear']",
           "rvec = self.model._vectors[rkind]['nonlinear']", 'C31.effect'),
    Mutant('effect-input-vec-table', TJ, "self.input_vec = {'fwd': model._dresiduals, 'rev': model._doutputs}",
           "self.input_vec = {'fwd': model._residuals, 'rev': model._doutputs}", 'C31.effect'),
    Mutant('effect-save-into-outputs', TJ, "        self.lin_sol_cache[key][:] = self.output_vec[mode].asarray()",
           "        self.model._outputs.asarray()[:] = self.lin_sol_cache[key]", 'C31.effect'),
    Mutant('effect-alias-view', TJ, "        deriv_val = self.output_vec[mode].asarray()\n\n        if not self.get_remote:",
           "        deriv_val = self.model._outputs.asarray()\n        deriv_val *= -1.0\n\n        if not self.get_remote:",
           'C31.effect'),
    Mutant('effect-rerun-model', PROB, "        total_info = _TotalJacInfo(self, of, wrt, return_format, approx=self.model._owns_approx_jac,",
           "        self.run_model()\n        total_info = _TotalJacInfo(self, of, wrt, return_format, approx=self.model._owns_approx_jac,",
           'C31.effect'),
    Mutant('effect-list-outputs-unscale', SYS, "            to_remove = []\n            print_options = np.get_printoptions()",
           "            to_remove = []\n            self._outputs.scale_to_phys()\n            print_options = np.get_printoptions()",
           'C31.effect'),
    # ---- ctx
    Mutant('ctx-coloring-no-finally', COLOR, _CTX_OLD,
           "    yield\n    problem._metadata['coloring_randgen'] = None\n    problem._computing_coloring = False\n"
           "    problem._metadata['randomize_subjacs'] = saved_rand_subjacs\n"
           "    problem._metadata['randomize_seeds'] = saved_rand_seeds\n", 'C31.ctx'),
    Mutant('ctx-coloring-swapped-saves', COLOR,
           "        problem._metadata['randomize_subjacs'] = saved_rand_subjacs\n        problem._metadata['randomize_seeds'] = saved_rand_seeds\n",
           "        problem._metadata['randomize_subjacs'] = saved_rand_seeds\n        problem._metadata['randomize_seeds'] = saved_rand_subjacs\n",
           'C31.ctx'),
    Mutant('ctx-coloring-late-save', COLOR,
           "    saved_rand_subjacs = problem._metadata['randomize_subjacs']\n    saved_rand_seeds = problem._metadata['randomize_seeds']\n\n"
           "    if coloring_info is not None:\n        problem._metadata['randomize_subjacs'] = coloring_info.randomize_subjacs\n"
           "        problem._metadata['randomize_seeds'] = coloring_info.randomize_seeds\n",
           "    saved_rand_seeds = problem._metadata['randomize_seeds']\n\n"
           "    if coloring_info is not None:\n        problem._metadata['randomize_subjacs'] = coloring_info.randomize_subjacs\n"
           "        problem._metadata['randomize_seeds'] = coloring_info.randomize_seeds\n"
           "    saved_rand_subjacs = problem._metadata['randomize_subjacs']\n", 'C31.ctx'),
    Mutant('ctx-coloring-randgen-kept', COLOR, "    finally:\n        problem._metadata['coloring_randgen'] = None\n",
           "    finally:\n", 'C31.ctx'),
    Mutant('ctx-coloring-flag-true', COLOR, "    finally:\n        problem._metadata['coloring_randgen'] = None\n        problem._computing_coloring = False\n",
           "    finally:\n        problem._metadata['coloring_randgen'] = None\n        problem._computing_coloring = True\n", 'C31.ctx'),
    Mutant('ctx-totjac-mode-kept', TJ, "            self.model._problem_meta['relevance'] = old_relevance\n            self.model._problem_meta['mode'] = old_mode\n",
           "            self.model._problem_meta['relevance'] = old_relevance\n", 'C31.ctx'),
    Mutant('ctx-totjac-save-after-set', TJ,
           "        old_mode = self.model._problem_meta['mode']\n        self.model._problem_meta['relevance'] = self.relevance\n        self.model._problem_meta['mode'] = self.mode\n",
           "        self.model._problem_meta['relevance'] = self.relevance\n        self.model._problem_meta['mode'] = self.mode\n        old_mode = self.model._problem_meta['mode']\n",
           'C31.ctx'),
    # ---- flags
    Mutant('flags-totjac-not-in-finally', TJ, _LIN_OLD,
           "                        ln_solver = model._linear_solver\n"
           "                        with model._scaled_context_all():\n"
           "                            model._linearize(sub_do_ln=ln_solver._linearize_children())\n"
           "                        ln_solver._linearize()\n"
           "                        model._tot_jac = None\n", 'C31.flags'),
    Mutant('flags-approx-totjac-kept', TJ, "            finally:\n                model._tot_jac = None\n\n            totals = self.J_dict",
           "            finally:\n                pass\n\n            totals = self.J_dict", 'C31.flags'),
    Mutant('flags-rec-pop-missing', TJ, "            finally:\n                self.model._recording_iter.pop()\n\n        try:\n            debug_print",
           "            finally:\n                pass\n\n        try:\n            debug_print", 'C31.flags'),
    Mutant('flags-rec-double-pop', TJ, "        finally:\n            self.model._recording_iter.pop()\n\n    def _setup(self, system):",
           "        finally:\n            self.model._recording_iter.pop()\n        self.model._recording_iter.pop()\n\n    def _setup(self, system):",
           'C31.flags'),
    Mutant('flags-seed-vars-kept', TJ, "                            self.model._problem_meta['parallel_deriv_color'] = None\n                            self.model._problem_meta['seed_vars'] = None\n",
           "                            self.model._problem_meta['parallel_deriv_color'] = None\n", 'C31.flags'),
    Mutant('flags-pdc-reset-before-solve', TJ, "                            _, cache_key = input_setter(inds, itermeta, mode)\n",
           "                            _, cache_key = input_setter(inds, itermeta, mode)\n"
           "                            self.model._problem_meta['parallel_deriv_color'] = None\n", 'C31.flags',
           also=[(TJ, "                            # reset any Problem level data for the current iteration\n"
                      "                            self.model._problem_meta['parallel_deriv_color'] = None\n",
                  "                            # reset any Problem level data for the current iteration\n")]),
    Mutant('flags-checking-no-finally', PROB, _CHK_OLD,
           "        self._metadata['checking'] = True\n        Jcalc = total_info.compute_totals()\n"
           "        self._metadata['checking'] = False\n", 'C31.flags'),
    Mutant('flags-checking-partials-kept', COMP, "                                finally:\n                                    probmeta['checking'] = False\n",
           "                                finally:\n                                    pass\n", 'C31.flags'),
)

_RESTORE_CT = ("        model._jacobian = old_jac\n        model._owns_approx_jac = approx\n"
               "        model._owns_approx_of = approx_of\n        model._owns_approx_wrt = approx_wrt\n"
               "        model._owns_approx_jac_meta = approx_jac_meta\n        model._subjacs_info = old_subjacs\n"
               "        model._approx_schemes = old_schemes\n")
_RESTORE_CT_PREFIX = ("        if not approx:\n" + _RESTORE_CT.replace('        model', '            model')
                      .replace('model._owns_approx_jac = approx\n', 'model._owns_approx_jac = False\n'))
_CT_SAVES = ("        approx = model._owns_approx_jac\n        approx_of = model._owns_approx_of\n"
             "        approx_wrt = model._owns_approx_wrt\n        approx_jac_meta = model._owns_approx_jac_meta\n"
             "        old_jac = model._jacobian\n        old_subjacs = model._subjacs_info.copy()\n"
             "        old_schemes = model._approx_schemes\n")
_CT_ANCHOR = "def _fix_check_data(data):\n"
_CT_HELPERS = ("def _c31_save(model):\n    return (model._owns_approx_jac, model._owns_approx_of, model._owns_approx_wrt,\n"
               "            model._owns_approx_jac_meta, model._jacobian, model._subjacs_info.copy(),\n"
               "            model._approx_schemes)\n\n\n"
               "def _c31_restore(model, saved):\n    a, a_of, a_wrt, a_meta, jac, subjacs, schemes = saved\n"
               "    model._jacobian = jac\n    model._owns_approx_jac = a\n    model._owns_approx_of = a_of\n"
               "    model._owns_approx_wrt = a_wrt\n    model._owns_approx_jac_meta = a_meta\n"
               "    model._subjacs_info = subjacs\n    model._approx_schemes = schemes\n\n\n")
_SC_PRE = ("        if self._has_output_scaling:\n            for vec in self._vectors['output'].values():\n"
           "                vec.scale_to_norm()\n        if self._has_resid_scaling:\n"
           "            for vec in self._vectors['residual'].values():\n                vec.scale_to_norm()\n")
_SC_POST = ("            if self._has_output_scaling:\n                for vec in self._vectors['output'].values():\n"
            "                    vec.scale_to_phys()\n            if self._has_resid_scaling:\n"
            "                for vec in self._vectors['residual'].values():\n                    vec.scale_to_phys()\n")
_SC_GEN = ("    def _c31_scaled_vecs(self):\n        if self._has_output_scaling:\n"
           "            yield from self._vectors['output'].values()\n        if self._has_resid_scaling:\n"
           "            for v in self._vectors['residual'].values():\n                yield v\n\n")
_SC_FLAGH = ("    def _c31_rescale(self, to_norm):\n        if self._has_output_scaling:\n"
             "            for ov in self._vectors['output'].values():\n                if to_norm:\n"
             "                    ov.scale_to_norm()\n                else:\n                    ov.scale_to_phys()\n"
             "        if self._has_resid_scaling:\n            for rv in self._vectors['residual'].values():\n"
             "                if not to_norm:\n                    rv.scale_to_phys()\n                else:\n"
             "                    rv.scale_to_norm()\n\n")
_B4_PRE_OLD = ("    saved_rand_subjacs = problem._metadata['randomize_subjacs']\n    saved_rand_seeds = problem._metadata['randomize_seeds']\n\n"
               "    if coloring_info is not None:\n        problem._metadata['randomize_subjacs'] = coloring_info.randomize_subjacs\n"
               "        problem._metadata['randomize_seeds'] = coloring_info.randomize_seeds\n")
_B4_PRE_NEW = ("    rkeys = ('randomize_subjacs', 'randomize_seeds')\n    pm = problem._metadata\n"
               "    saved = tuple(pm[k] for k in rkeys)\n\n    if coloring_info is not None:\n"
               "        for k in rkeys:\n            pm[k] = getattr(coloring_info, k)\n")
_B4_POST_OLD = ("        problem._metadata['randomize_subjacs'] = saved_rand_subjacs\n"
                "        problem._metadata['randomize_seeds'] = saved_rand_seeds\n")
_B4_POST_NEW = "        pm = problem._metadata\n        for k, val in zip(rkeys, saved):\n            pm[k] = val\n"
_B4_SC_PRE = ("        kinds = (('_has_output_scaling', 'output'), ('_has_resid_scaling', 'residual'))\n"
              "        for flag, kind in kinds:\n            if getattr(self, flag):\n"
              "                for vec in self._vectors[kind].values():\n                    vec.scale_to_norm()\n")
_B4_SC_POST = ("            for flag, kind in kinds:\n                if not getattr(self, flag):\n                    continue\n"
               "                kvecs = self._vectors[kind]\n                for vec in kvecs.values():\n"
               "                    vec.scale_to_phys()\n")
_PI_RESTORE = ("        for vec, save_array in zip(perturb_vecs, save_perturb_arrays):\n            vec.set_val(save_array)\n"
               "        for vec, save_array in zip(save_vecs, save_arrays):\n            vec.set_val(save_array)\n")

selftest(
    'C31',
    # ---- check_partials
    Mutant('cp-swapped-caches', COMP, "                self._inputs.set_val(input_cache)\n                self._outputs.set_val(output_cache)\n",
           "                self._inputs.set_val(output_cache)\n                self._outputs.set_val(input_cache)\n", 'C31.check_partials'),
    Mutant('cp-restore-inside-unscaled', COMP, "                self._inputs.set_val(input_cache)\n                self._outputs.set_val(output_cache)\n",
           "                    self._inputs.set_val(input_cache)\n                    self._outputs.set_val(output_cache)\n", 'C31.check_partials'),
    Mutant('cp-snapshot-no-copy', COMP, "        output_cache = self._outputs.asarray(copy=True)\n",
           "        output_cache = self._outputs.asarray()\n", 'C31.check_partials'),
    Mutant('cp-drop-outputs-restore', COMP, "                self._inputs.set_val(input_cache)\n                self._outputs.set_val(output_cache)\n",
           "                self._inputs.set_val(input_cache)\n", 'C31.check_partials'),
    Mutant('cp-restore-before-roundtrip', COMP,
           "                jac_key = 'J_' + mode\n", "                jac_key = 'J_' + mode\n                self._outputs.set_val(output_cache)\n",
           'C31.check_partials',
           also=[(COMP, "                self._inputs.set_val(input_cache)\n                self._outputs.set_val(output_cache)\n",
                  "                self._inputs.set_val(input_cache)\n")]),
    Mutant('cp-snapshot-inside-unscaled', COMP, "        output_cache = self._outputs.asarray(copy=True)\n",
           "        with self._unscaled_context(outputs=[self._outputs]):\n            output_cache = self._outputs.asarray(copy=True)\n",
           'C31.check_partials'),
    # ---- check_totals
    Mutant('ct-cross-wired', PROB, "        model._owns_approx_of = approx_of\n        model._owns_approx_wrt = approx_wrt\n",
           "        model._owns_approx_of = approx_wrt\n        model._owns_approx_wrt = approx_of\n", 'C31.check_totals'),
    Mutant('ct-drop-jac-meta-restore', PROB, "        model._owns_approx_jac_meta = approx_jac_meta\n", "", 'C31.check_totals'),
    Mutant('ct-drop-schemes-restore', PROB, "        model._approx_schemes = old_schemes\n", "", 'C31.check_totals'),
    Mutant('ct-subjacs-no-copy', PROB, "old_subjacs = model._subjacs_info.copy()", "old_subjacs = model._subjacs_info", 'C31.check_totals'),
    Mutant('ct-late-snapshot', PROB, "        old_schemes = model._approx_schemes\n", "", 'C31.check_totals',
           also=[(PROB, "            model._approx_schemes = {}\n", "            model._approx_schemes = {}\n            old_schemes = model._approx_schemes\n")]),
    Mutant('ct-approx-flag-false', PROB, "        model._owns_approx_jac = approx\n", "        model._owns_approx_jac = False\n", 'C31.check_totals'),
    Mutant('ct-approx-flag-true', PROB, "        model._owns_approx_jac = approx\n", "        model._owns_approx_jac = True\n", 'C31.check_totals'),
    # the pre-fix shape (finding F13): restore skipped for models that already use approx_totals
    Mutant('ct-prefix-restore-only-if-not-approx', PROB, _RESTORE_CT, _RESTORE_CT_PREFIX, 'C31.check_totals_guard'),
    Mutant('ct-restore-only-multi-step', PROB, _RESTORE_CT,
           "        if len(Jfds) > 1:\n" + _RESTORE_CT.replace('        model', '            model'), 'C31.check_totals_guard'),
    Mutant('ct-early-return-before-restore', PROB, "        # restore the model's own approximation settings after the check is complete.\n",
           "        if out_stream is None and not Jfds:\n            return {}\n", 'C31.check_totals_guard'),
    # ---- perturb
    Mutant('pi-snapshot-no-copy', SYS, "save_arrays = [vec.asarray(copy=True) for vec in save_vecs]",
           "save_arrays = [vec.asarray() for vec in save_vecs]", 'C31.perturb'),
    Mutant('pi-cross-lists', SYS, "for vec, save_array in zip(save_vecs, save_arrays):", "for vec, save_array in zip(save_vecs, save_perturb_arrays):",
           'C31.perturb'),
    Mutant('pi-drop-perturbed-restore', SYS, _PI_RESTORE,
           "        for vec, save_array in zip(save_vecs, save_arrays):\n            vec.set_val(save_array)\n", 'C31.perturb'),
    Mutant('pi-expl-caller-no-outputs', EXPL, "(self._inputs,), (self._outputs, self._residuals)):", "(self._inputs,), (self._residuals,)):",
           'C31.perturb'),
    Mutant('pi-group-caller-no-outputs', SYS, "            pvecs = (self._inputs, self._outputs)\n            save_vecs = (self._residuals,)\n",
           "            pvecs = (self._inputs,)\n            save_vecs = (self._residuals,)\n", 'C31.perturb'),
    # ---- apply_nl
    Mutant('anl-plus', EXPL, "            outputs -= residuals\n", "            outputs += residuals\n", 'C31.apply_nl'),
    Mutant('anl-drop-putback', EXPL, "            residuals += outputs\n            outputs -= residuals\n", "            residuals += outputs\n", 'C31.apply_nl'),
    Mutant('anl-no-negate', EXPL, "            residuals *= -1.0\n            self._compute_wrapper()", "            self._compute_wrapper()", 'C31.apply_nl'),
    # ---- meta_copy
    Mutant('mc-alias-desvar', GROUP, "                    active_dvs[name] = meta.copy()\n", "                    active_dvs[name] = meta\n", 'C31.meta_copy'),
    Mutant('mc-alias-response', GROUP, "                    active_resps[name] = meta.copy()\n", "                    active_resps[name] = meta\n", 'C31.meta_copy'),
    Mutant('jvp-return-view', PROB, "return {n: lvec[resolver.source(n)].copy() for n in lnames}",
           "return {n: lvec[resolver.source(n)] for n in lnames}", 'C31.jvp_return'),
    Mutant('jvp-return-asarray-slice', PROB, "return {n: lvec[resolver.source(n)].copy() for n in lnames}",
           "return {n: lvec.asarray()[slice(*lvec.get_range(resolver.source(n)))] for n in lnames}", 'C31.jvp_return'),
    Twin('twin-jvp-return-nparray', PROB, "return {n: lvec[resolver.source(n)].copy() for n in lnames}",
         "return {n: np.array(lvec[resolver.source(n)]) for n in lnames}"),
    Twin('twin-ct-guarded-constant', PROB, "        model._owns_approx_jac = approx\n",
         "        if approx:\n            model._owns_approx_jac = True\n        else:\n            model._owns_approx_jac = False\n"),
    # ---- coloring_run
    Mutant('cr-seed-le-zero', PROB, "else self._run_counter < 0", "else self._run_counter <= 0", 'C31.coloring_run'),
    Mutant('cr-always', PROB, "else self._run_counter < 0", "else True", 'C31.coloring_run'),
    Mutant('cr-ne-zero', PROB, "else self._run_counter < 0", "else self._run_counter != 0", 'C31.coloring_run'),
    Mutant('cr-chain-true', COLOR, "orders=orders, setup=False, run_model=run_model, fname=fname,",
           "orders=orders, setup=False, run_model=True, fname=fname,", 'C31.coloring_run'),
    Mutant('cr-ungated-run', COLOR, "        if run_model:\n            prob.run_model(reset_iter_counts=False)\n",
           "        prob.run_model(reset_iter_counts=False)\n", 'C31.coloring_run'),
    Mutant('cr-gate-or-setup', COLOR, "        if run_model:\n            prob.run_model(reset_iter_counts=False)\n",
           "        if run_model or num_full_jacs > 1:\n            prob.run_model(reset_iter_counts=False)\n", 'C31.coloring_run'),
    Twin('twin-cr-eq-initial', PROB, "else self._run_counter < 0", "else self._run_counter == -1"),
    Twin('twin-cr-flipped-plus-one', PROB, "else self._run_counter < 0", "else 0 >= self._run_counter + 1"),
    Twin('twin-cr-if-statement', PROB, "                    do_run = run_model if run_model is not None else self._run_counter < 0\n",
         "                    never_run = not (self._run_counter >= 0)\n                    do_run = run_model if run_model is not None else never_run\n"),
    # ---- shapes accepted in the robustness round (helper extraction, tuple snapshot, alias of _metadata)
    Twin('twin-cp-helper-writeback', COMP, "                self._inputs.set_val(input_cache)\n                self._outputs.set_val(output_cache)\n",
         "                self._put_back(input_cache, output_cache)\n",
         also=[(COMP, "    def _nocs_warning(self):\n",
                "    def _put_back(self, ins, outs):\n        self._inputs.set_val(ins)\n        self._outputs.set_val(outs)\n\n"
                "    def _nocs_warning(self):\n")]),
    Mutant('cp-helper-swapped-args', COMP, "                self._inputs.set_val(input_cache)\n                self._outputs.set_val(output_cache)\n",
           "                self._put_back(output_cache, input_cache)\n", 'C31.check_partials',
           also=[(COMP, "    def _nocs_warning(self):\n",
                  "    def _put_back(self, ins, outs):\n        self._inputs.set_val(ins)\n        self._outputs.set_val(outs)\n\n"
                  "    def _nocs_warning(self):\n")]),
    Mutant('cp-helper-inside-unscaled', COMP, "                self._inputs.set_val(input_cache)\n                self._outputs.set_val(output_cache)\n",
           "                    self._put_back(input_cache, output_cache)\n", 'C31.check_partials',
           also=[(COMP, "    def _nocs_warning(self):\n",
                  "    def _put_back(self, ins, outs):\n        self._inputs.set_val(ins)\n        self._outputs.set_val(outs)\n\n"
                  "    def _nocs_warning(self):\n")]),
    Twin('twin-ctx-tuple-snapshot-alias', COLOR,
         "    saved_rand_subjacs = problem._metadata['randomize_subjacs']\n    saved_rand_seeds = problem._metadata['randomize_seeds']\n",
         "    pm = problem._metadata\n    saved = (pm['randomize_subjacs'], pm['randomize_seeds'])\n",
         also=[(COLOR, "        problem._metadata['randomize_subjacs'] = saved_rand_subjacs\n        problem._metadata['randomize_seeds'] = saved_rand_seeds\n",
                "        pm = problem._metadata\n        pm['randomize_subjacs'], pm['randomize_seeds'] = saved\n")]),
    Mutant('ctx-tuple-restore-swapped', COLOR,
           "    saved_rand_subjacs = problem._metadata['randomize_subjacs']\n    saved_rand_seeds = problem._metadata['randomize_seeds']\n",
           "    pm = problem._metadata\n    saved = (pm['randomize_subjacs'], pm['randomize_seeds'])\n", 'C31.ctx',
           also=[(COLOR, "        problem._metadata['randomize_subjacs'] = saved_rand_subjacs\n        problem._metadata['randomize_seeds'] = saved_rand_seeds\n",
                  "        pm = problem._metadata\n        pm['randomize_seeds'], pm['randomize_subjacs'] = saved\n")]),
    Twin('twin-ctx-unpack-two-saves', COLOR,
         "    saved_rand_subjacs = problem._metadata['randomize_subjacs']\n    saved_rand_seeds = problem._metadata['randomize_seeds']\n",
         "    saved_rand_subjacs, saved_rand_seeds = problem._metadata['randomize_subjacs'], problem._metadata['randomize_seeds']\n"),
    # ---- round-2 seeds and their clauses
    Mutant('ct-seed-snapshot-inside-step-loop', PROB,
           "        approx = model._owns_approx_jac\n        approx_of = model._owns_approx_of\n"
           "        approx_wrt = model._owns_approx_wrt\n        approx_jac_meta = model._owns_approx_jac_meta\n", "",
           'C31.check_totals',
           also=[(PROB, "        for step in steps:\n            # Approximate FD\n",
                  "        for step in steps:\n            approx = model._owns_approx_jac\n            approx_of = model._owns_approx_of\n"
                  "            approx_wrt = model._owns_approx_wrt\n            approx_jac_meta = model._owns_approx_jac_meta\n"
                  "            # Approximate FD\n")]),
    Mutant('qc-seed-conditional-clear', TJ, "        model._clear_jac_caches()\n",
           "        if driver and driver._total_jac_linear is not None:\n            model._clear_jac_caches()\n", 'C31.query_caches'),
    Mutant('qc-clear-after-retarget', TJ, "        model._clear_jac_caches()\n", "", 'C31.query_caches',
           also=[(TJ, "        self.modes = modes\n", "        self.modes = modes\n        model._clear_jac_caches()\n")]),
    Mutant('qc-clear-incomplete', SYS, "        self._jac_ofs_cache = None\n        self._jac_wrts_cache = {}\n\n    def _jac_of_iter",
           "        self._jac_ofs_cache = None\n\n    def _jac_of_iter", 'C31.query_caches'),
    Twin('twin-qc-clear-via-alias', TJ, "        model._clear_jac_caches()\n",
         "        mdl = problem.model\n        mdl._clear_jac_caches()\n"),
    Twin('twin-qc-clear-moved-down', TJ, "        model._clear_jac_caches()\n\n        self.comm = model.comm\n",
         "        self.comm = model.comm\n        model._clear_jac_caches()\n"),
    Mutant('sc-seed-scaled-all-no-finally', SYS,
           "        try:\n\n            yield\n\n        finally:\n\n            if self._has_output_scaling:\n"
           "                for vec in self._vectors['output'].values():\n                    vec.scale_to_phys()\n"
           "            if self._has_resid_scaling:\n                for vec in self._vectors['residual'].values():\n"
           "                    vec.scale_to_phys()\n",
           "        yield\n\n        if self._has_output_scaling:\n"
           "            for vec in self._vectors['output'].values():\n                vec.scale_to_phys()\n"
           "        if self._has_resid_scaling:\n            for vec in self._vectors['residual'].values():\n"
           "                vec.scale_to_phys()\n", 'C31.scale_ctx'),
    Mutant('sc-unscaled-resid-not-undone', SYS,
           "            if self._has_resid_scaling:\n                for vec in residuals:\n                    vec.scale_to_norm()\n", "",
           'C31.scale_ctx'),
    Mutant('sc-unscaled-wrong-guard', SYS,
           "            if self._has_resid_scaling:\n                for vec in residuals:\n                    vec.scale_to_norm()\n",
           "            if self._has_output_scaling:\n                for vec in residuals:\n                    vec.scale_to_norm()\n",
           'C31.scale_ctx'),
    Mutant('sc-scaled-all-same-op', SYS,
           "                for vec in self._vectors['residual'].values():\n                    vec.scale_to_phys()\n",
           "                for vec in self._vectors['residual'].values():\n                    vec.scale_to_norm()\n", 'C31.scale_ctx'),
    Mutant('sc-scaled-all-wrong-vectors', SYS,
           "            if self._has_resid_scaling:\n                for vec in self._vectors['residual'].values():\n                    vec.scale_to_phys()\n",
           "            if self._has_resid_scaling:\n                for vec in self._vectors['output'].values():\n                    vec.scale_to_phys()\n",
           'C31.scale_ctx'),
    Twin('twin-sc-restore-order-swapped', SYS,
         "            if self._has_output_scaling:\n                for vec in outputs:\n                    vec.scale_to_norm()\n\n"
         "            if self._has_resid_scaling:\n                for vec in residuals:\n                    vec.scale_to_norm()\n",
         "            if self._has_resid_scaling:\n                for vec in residuals:\n                    vec.scale_to_norm()\n\n"
         "            if self._has_output_scaling:\n                for vec in outputs:\n                    vec.scale_to_norm()\n"),
    Twin('twin-sc-except-reraise', SYS,
         "        try:\n\n            yield\n\n        finally:\n\n            if self._has_output_scaling:\n                for vec in outputs:\n"
         "                    vec.scale_to_norm()\n\n            if self._has_resid_scaling:\n                for vec in residuals:\n"
         "                    vec.scale_to_norm()\n",
         "        try:\n            yield\n        except BaseException:\n            if self._has_output_scaling:\n                for vec in outputs:\n"
         "                    vec.scale_to_norm()\n            if self._has_resid_scaling:\n                for vec in residuals:\n"
         "                    vec.scale_to_norm()\n            raise\n"
         "        if self._has_output_scaling:\n            for vec in outputs:\n                vec.scale_to_norm()\n"
         "        if self._has_resid_scaling:\n            for vec in residuals:\n                vec.scale_to_norm()\n"),
    # ---- shapes accepted in the second robustness round
    Twin('twin-ct-helpers-tuple-state', PROB, _CT_SAVES, "        saved_state = _c31_save(model)\n",
         also=[(PROB, _RESTORE_CT, "        _c31_restore(model, saved_state)\n"), (PROB, _CT_ANCHOR, _CT_HELPERS + _CT_ANCHOR)]),
    Mutant('ct-helpers-unpack-order-swapped', PROB, _CT_SAVES, "        saved_state = _c31_save(model)\n", 'C31.check_totals',
           also=[(PROB, _RESTORE_CT, "        _c31_restore(model, saved_state)\n"),
                 (PROB, _CT_ANCHOR, _CT_HELPERS.replace("    a, a_of, a_wrt,", "    a, a_wrt, a_of,") + _CT_ANCHOR)]),
    Mutant('ct-helpers-subjacs-not-copied', PROB, _CT_SAVES, "        saved_state = _c31_save(model)\n", 'C31.check_totals',
           also=[(PROB, _RESTORE_CT, "        _c31_restore(model, saved_state)\n"),
                 (PROB, _CT_ANCHOR, _CT_HELPERS.replace("model._subjacs_info.copy()", "model._subjacs_info") + _CT_ANCHOR)]),
    Mutant('ct-helpers-save-inside-loop', PROB, _CT_SAVES, "", 'C31.check_totals',
           also=[(PROB, "        for step in steps:\n            # Approximate FD\n",
                  "        for step in steps:\n            saved_state = _c31_save(model)\n            # Approximate FD\n"),
                 (PROB, _RESTORE_CT, "        _c31_restore(model, saved_state)\n"), (PROB, _CT_ANCHOR, _CT_HELPERS + _CT_ANCHOR)]),
    Mutant('ct-helpers-restore-skipped', PROB, _CT_SAVES, "        saved_state = _c31_save(model)\n", 'C31.check_totals_guard',
           also=[(PROB, _RESTORE_CT, "        if not saved_state[0]:\n            _c31_restore(model, saved_state)\n"),
                 (PROB, _CT_ANCHOR, _CT_HELPERS + _CT_ANCHOR)]),
    Twin('twin-jvp-vectors-alias-loop-result', PROB, "        rvec = self.model._vectors[rkind]['linear']\n        lvec = self.model._vectors[lkind]['linear']\n",
         "        vecs = self.model._vectors\n        rvec = vecs[rkind]['linear']\n        lvec = vecs[lkind]['linear']\n",
         also=[(PROB, "        return {n: lvec[resolver.source(n)].copy() for n in lnames}\n",
                "        result = {}\n        for n in lnames:\n            result[n] = lvec[resolver.source(n)].copy()\n        return result\n")]),
    Mutant('effect-vectors-alias-nonlinear', PROB, "        rvec = self.model._vectors[rkind]['linear']\n",
           "        vecs = self.model._vectors\n        rvec = vecs[rkind]['nonlinear']\n", 'C31.effect'),
    Mutant('jvp-loop-result-view', PROB, "        return {n: lvec[resolver.source(n)].copy() for n in lnames}\n",
           "        result = {}\n        for n in lnames:\n            result[n] = lvec[resolver.source(n)]\n        return result\n",
           'C31.jvp_return'),
    Twin('twin-sc-chaining-generator', SYS, _SC_PRE, "        for vec in self._c31_scaled_vecs():\n            vec.scale_to_norm()\n",
         also=[(SYS, _SC_POST, "            for vec in self._c31_scaled_vecs():\n                vec.scale_to_phys()\n"),
               (SYS, "    @contextmanager\n    def _matvec_context(", _SC_GEN + "    @contextmanager\n    def _matvec_context(")]),
    Mutant('sc-generator-no-finally', SYS, _SC_PRE, "        for vec in self._c31_scaled_vecs():\n            vec.scale_to_norm()\n", 'C31.scale_ctx',
           also=[(SYS, "        try:\n\n            yield\n\n        finally:\n\n" + _SC_POST,
                  "        yield\n        for vec in self._c31_scaled_vecs():\n            vec.scale_to_phys()\n"),
                 (SYS, "    @contextmanager\n    def _matvec_context(", _SC_GEN + "    @contextmanager\n    def _matvec_context(")]),
    Mutant('sc-generator-half-restore', SYS, _SC_PRE, "        for vec in self._c31_scaled_vecs():\n            vec.scale_to_norm()\n", 'C31.scale_ctx',
           also=[(SYS, _SC_POST, "            if self._has_output_scaling:\n                for vec in self._vectors['output'].values():\n"
                                 "                    vec.scale_to_phys()\n"),
                 (SYS, "    @contextmanager\n    def _matvec_context(", _SC_GEN + "    @contextmanager\n    def _matvec_context(")]),
    # ---- helper called with constant arguments (flag selects the direction)
    Twin('twin-sc-const-flag-helper', SYS, _SC_PRE, "        self._c31_rescale(to_norm=True)\n",
         also=[(SYS, _SC_POST, "            self._c31_rescale(False)\n"),
               (SYS, "    @contextmanager\n    def _matvec_context(", _SC_FLAGH + "    @contextmanager\n    def _matvec_context(")]),
    Mutant('sc-const-flag-helper-asymmetric', SYS, _SC_PRE, "        self._c31_rescale(to_norm=True)\n", 'C31.scale_ctx',
           also=[(SYS, _SC_POST, "            self._c31_rescale(False)\n"),
                 (SYS, "    @contextmanager\n    def _matvec_context(",
                  _SC_FLAGH.replace("                if not to_norm:\n                    rv.scale_to_phys()\n                else:\n"
                                    "                    rv.scale_to_norm()\n",
                                    "                if to_norm:\n                    rv.scale_to_norm()\n")
                  + "    @contextmanager\n    def _matvec_context(")]),
    Mutant('sc-const-flag-helper-same-flag', SYS, _SC_PRE, "        self._c31_rescale(to_norm=True)\n", 'C31.scale_ctx',
           also=[(SYS, _SC_POST, "            self._c31_rescale(True)\n"),
                 (SYS, "    @contextmanager\n    def _matvec_context(", _SC_FLAGH + "    @contextmanager\n    def _matvec_context(")]),
    # ---- third robustness round: stores written as dict.update(...)
    Twin('twin-ctx-update-and-tuple', COLOR,
         "        problem._metadata['randomize_subjacs'] = coloring_info.randomize_subjacs\n"
         "        problem._metadata['randomize_seeds'] = coloring_info.randomize_seeds\n",
         "        problem._metadata.update(randomize_subjacs=coloring_info.randomize_subjacs,\n"
         "                                 randomize_seeds=coloring_info.randomize_seeds)\n"),
    Twin('twin-ctx-restore-by-update', COLOR,
         "        problem._metadata['randomize_subjacs'] = saved_rand_subjacs\n        problem._metadata['randomize_seeds'] = saved_rand_seeds\n",
         "        problem._metadata.update({'randomize_subjacs': saved_rand_subjacs, 'randomize_seeds': saved_rand_seeds})\n"),
    Mutant('ctx-update-extra-key-not-restored', COLOR,
           "        problem._metadata['randomize_subjacs'] = coloring_info.randomize_subjacs\n"
           "        problem._metadata['randomize_seeds'] = coloring_info.randomize_seeds\n",
           "        problem._metadata.update(randomize_subjacs=coloring_info.randomize_subjacs,\n"
           "                                 randomize_seeds=coloring_info.randomize_seeds, singular_jac_behavior='ignore')\n",
           'C31.ctx'),
    Mutant('ctx-update-restore-swapped', COLOR,
           "        problem._metadata['randomize_subjacs'] = saved_rand_subjacs\n        problem._metadata['randomize_seeds'] = saved_rand_seeds\n",
           "        problem._metadata.update(randomize_subjacs=saved_rand_seeds, randomize_seeds=saved_rand_subjacs)\n", 'C31.ctx'),
    # ---- fourth robustness round: data-driven loops over literal tables
    Twin('twin-ctx-table-driven', COLOR, _B4_PRE_OLD, _B4_PRE_NEW, also=[(COLOR, _B4_POST_OLD, _B4_POST_NEW)]),
    Mutant('ctx-table-driven-restore-misaligned', COLOR, _B4_PRE_OLD, _B4_PRE_NEW, 'C31.ctx',
           also=[(COLOR, _B4_POST_OLD, "        pm = problem._metadata\n        for k, val in zip(('randomize_seeds', 'randomize_subjacs'), saved):\n"
                                       "            pm[k] = val\n")]),
    Mutant('ctx-table-driven-restore-partial', COLOR, _B4_PRE_OLD, _B4_PRE_NEW, 'C31.ctx',
           also=[(COLOR, _B4_POST_OLD, "        pm = problem._metadata\n        for k, val in zip(('randomize_subjacs',), saved):\n"
                                       "            pm[k] = val\n")]),
    Twin('twin-sc-table-driven', SYS, _SC_PRE, _B4_SC_PRE, also=[(SYS, _SC_POST, _B4_SC_POST)]),
    Mutant('sc-table-driven-wrong-kind', SYS, _SC_PRE, _B4_SC_PRE, 'C31.scale_ctx',
           also=[(SYS, _SC_POST, _B4_SC_POST.replace("kvecs = self._vectors[kind]", "kvecs = self._vectors['output']"))]),
    Mutant('sc-table-driven-inverted-skip', SYS, _SC_PRE, _B4_SC_PRE, 'C31.scale_ctx',
           also=[(SYS, _SC_POST, _B4_SC_POST.replace("if not getattr(self, flag):", "if getattr(self, flag):"))]),
    # ---- twins
    Twin('twin-zero-vecs-alias', TJ, "        self.model._doutputs.set_val(0.0)\n        self.model._dresiduals.set_val(0.0)\n",
         "        mdl = self.model\n        mdl._doutputs.set_val(0.0)\n        dres = mdl._dresiduals\n        dres.set_val(0.0)\n"),
    Twin('twin-jvp-imul', PROB, "        data = rvec.asarray()\n        data *= -1.\n", "        rvec.imul(-1.)\n"),
    Twin('twin-jvp-inline-view', PROB, "        data = rvec.asarray()\n        data *= -1.\n", "        rvec.asarray()[:] *= -1.\n"),
    Twin('twin-coloring-reordered-renamed', COLOR, _CTX_OLD,
         "    try:\n        yield\n    finally:\n        problem._metadata['randomize_seeds'] = saved_rand_seeds\n"
         "        problem._computing_coloring = False\n        meta = problem._metadata\n"
         "        meta['randomize_subjacs'] = saved_rand_subjacs\n        meta['coloring_randgen'] = None\n"),
    Twin('twin-totjac-swap-order', TJ, "            self.model._problem_meta['relevance'] = old_relevance\n            self.model._problem_meta['mode'] = old_mode\n",
         "            self.model._problem_meta['mode'] = old_mode\n            self.model._problem_meta['relevance'] = old_relevance\n"),
    Twin('twin-checking-try-wider', PROB, _CHK_OLD,
         "        try:\n            self._metadata['checking'] = True\n            Jcalc = total_info.compute_totals()\n"
         "        finally:\n            self._metadata['checking'] = False\n"),
    Twin('twin-cp-renamed-npcopy', COMP, "        output_cache = self._outputs.asarray(copy=True)\n",
         "        saved_outs = np.array(self._outputs.asarray())\n",
         also=[(COMP, "                self._outputs.set_val(output_cache)\n", "                self._outputs.set_val(saved_outs)\n")]),
    Twin('twin-cp-restore-order', COMP, "                self._inputs.set_val(input_cache)\n                self._outputs.set_val(output_cache)\n",
         "                self._outputs.set_val(output_cache)\n                self._inputs.set_val(input_cache)\n"),
    Twin('twin-ct-renamed-reordered', PROB, "        model._jacobian = old_jac\n        model._owns_approx_jac = approx\n",
         "        model._owns_approx_jac = approx\n        model._jacobian = saved_jac\n",
         also=[(PROB, "        old_jac = model._jacobian\n", "        saved_jac = model._jacobian\n")]),
    Twin('twin-ct-dict-copy', PROB, "old_subjacs = model._subjacs_info.copy()", "old_subjacs = dict(model._subjacs_info)"),
    Twin('twin-pi-renamed', SYS, "        for vec, save_array in zip(save_vecs, save_arrays):\n            vec.set_val(save_array)\n",
         "        for arr, v in zip(save_arrays, save_vecs):\n            v.set_val(arr)\n"),
    Twin('twin-pi-restore-each-iteration', SYS, "            yield i\n\n", "            yield i\n\n" + _PI_RESTORE.replace('        for', '            for').replace('            vec.set', '                vec.set'),
         also=[(SYS, "        # restore original Vectors\n" + _PI_RESTORE, "")]),
    Twin('twin-anl-int-const', EXPL, "            residuals *= -1.0\n", "            residuals *= -1\n"),
    Twin('twin-mc-dict', GROUP, "                    active_resps[name] = meta.copy()\n", "                    active_resps[name] = dict(meta)\n"),
)
