"""Loader and symbol index over /repo's current sources (never imports OpenMDAO)."""
import ast
import hashlib
import os

REPO_ROOT = os.environ.get('OMSTATIC_REPO', '/repo')

import builtins as _b
_BUILTIN_NAMES = frozenset(dir(_b))

EXCLUDED_DIRS = ('tests', 'test_suite', 'docs', 'devtools', 'code_review', 'visualization')


class AnalysisError(Exception):
    """The analysis cannot decide (vanished anchor, unrecognised construct, parse error)."""


class Func:
    """A function or method found in a module."""

    def __init__(self, module, qualname, node, cls):
        self.module = module
        self.qualname = qualname
        self.node = node
        self.cls = cls  # ast.ClassDef or None

    @property
    def rel(self):
        return self.module.rel

    @property
    def name(self):
        return self.node.name

    @property
    def ident(self):
        return f'{self.module.rel}:{self.qualname}'

    def decorators(self):
        out = []
        for d in self.node.decorator_list:
            if isinstance(d, ast.Call):
                d = d.func
            if isinstance(d, ast.Attribute):
                out.append(d.attr)
            elif isinstance(d, ast.Name):
                out.append(d.id)
        return out

    def __repr__(self):
        return f'<Func {self.ident}>'


class Module:
    def __init__(self, rel, source):
        self.rel = rel
        self.source = source
        try:
            self.tree = ast.parse(source, filename=rel)
        except SyntaxError as e:
            raise AnalysisError(f'syntax error in {rel}: {e}')
        self.funcs = {}
        self.classes = {}
        self.imports = {}  # local name -> (module dotted, original name or None)
        self._index()

    def _index(self):
        for node in ast.walk(self.tree):
            for ch in ast.iter_child_nodes(node):
                ch._parent = node
        self.tree._parent = None

        def visit(body, prefix, cls):
            for st in body:
                if isinstance(st, (ast.FunctionDef, ast.AsyncFunctionDef)):
                    qn = prefix + st.name
                    # first definition wins for conditional duplicates unless later is at same level
                    self.funcs[qn] = Func(self, qn, st, cls)
                    visit(st.body, qn + '.<locals>.', None)
                elif isinstance(st, ast.ClassDef):
                    qn = prefix + st.name
                    self.classes[qn] = st
                    visit(st.body, qn + '.', st)
                elif isinstance(st, (ast.If, ast.Try, ast.With, ast.For, ast.While)):
                    for fld in ('body', 'orelse', 'finalbody'):
                        visit(getattr(st, fld, []) or [], prefix, cls)
                    if isinstance(st, ast.Try):
                        for h in st.handlers:
                            visit(h.body, prefix, cls)
        visit(self.tree.body, '', None)
        for st in ast.walk(self.tree):
            if isinstance(st, ast.ImportFrom) and st.module:
                for a in st.names:
                    self.imports[a.asname or a.name] = (st.module, a.name)
            elif isinstance(st, ast.Import):
                for a in st.names:
                    self.imports[a.asname or a.name.split('.')[0]] = (a.name, None)

    def line(self, lineno):
        lines = self.source.splitlines()
        return lines[lineno - 1] if 0 < lineno <= len(lines) else ''


class Repo:
    """Parsed view of the repository; ``overrides`` maps rel path -> replacement source (mutants)."""

    def __init__(self, root=None, overrides=None, base=None):
        self.root = root or REPO_ROOT
        self.overrides = dict(overrides or {})
        self.base = base  # an unmodified Repo whose parsed modules are shared for non-overridden files
        self._mods = {}
        self.consulted = {}
        self._shipped = None
        self._class_index = None
        self.cache = {}   # free slot for rule modules (per-function analysis contexts etc.)

    # ---------------------------------------------------------------- loading
    def exists(self, rel):
        return rel in self.overrides or os.path.isfile(os.path.join(self.root, rel))

    def source(self, rel):
        if rel in self.overrides:
            return self.overrides[rel]
        p = os.path.join(self.root, rel)
        if not os.path.isfile(p):
            raise AnalysisError(f'anchor file vanished: {rel}')
        with open(p, encoding='utf-8') as f:
            return f.read()

    def module(self, rel):
        m = self._mods.get(rel)
        if m is None and self.base is not None and rel not in self.overrides:
            m = self._mods[rel] = self.base.module(rel)
            self.consulted[rel] = self.base.consulted[rel]
        if m is None:
            s = self.source(rel)
            m = self._mods[rel] = Module(rel, s)
            self.consulted[rel] = hashlib.sha256(s.encode()).hexdigest()[:16]
        return m

    def cfg(self, fn):
        """Memoised statement CFG of a Func."""
        from . import cfg as _cfg
        k = ('cfg', fn.rel, fn.qualname, id(fn.node))
        if k not in self.cache:
            self.cache[k] = _cfg.build(fn)
        return self.cache[k]

    def rdefs(self, fn):
        """Memoised reaching definitions of a Func."""
        from . import cfg as _cfg
        k = ('rd', fn.rel, fn.qualname, id(fn.node))
        if k not in self.cache:
            self.cache[k] = _cfg.ReachingDefs(self.cfg(fn))
        return self.cache[k]

    def func(self, rel, qualname):
        f = self.module(rel).funcs.get(qualname)
        if f is None:
            raise AnalysisError(f'anchor function vanished: {rel}:{qualname}')
        return f

    def try_func(self, rel, qualname):
        if not self.exists(rel):
            return None
        return self.module(rel).funcs.get(qualname)

    def cls(self, rel, name):
        c = self.module(rel).classes.get(name)
        if c is None:
            raise AnalysisError(f'anchor class vanished: {rel}:{name}')
        return c

    def shipped(self):
        """Relative paths of all shipped (non-test) openmdao modules."""
        if self._shipped is None:
            out = []
            base = os.path.join(self.root, 'openmdao')
            for dp, dns, fns in os.walk(base):
                dns[:] = sorted(d for d in dns if d not in EXCLUDED_DIRS and not d.startswith('.')
                                and d != '__pycache__')
                for fn in sorted(fns):
                    if fn.endswith('.py'):
                        out.append(os.path.relpath(os.path.join(dp, fn), self.root))
            for rel in self.overrides:
                if rel not in out and rel.endswith('.py'):
                    out.append(rel)
            self._shipped = out
        return self._shipped

    def digest(self):
        h = hashlib.sha256()
        for rel in sorted(self.consulted):
            h.update(rel.encode())
            h.update(self.consulted[rel].encode())
        return h.hexdigest()[:16]

    # ---------------------------------------------------------------- classes
    def class_index(self):
        """name -> [(rel, ClassDef)] over all shipped modules (top-level and nested classes)."""
        if self._class_index is None:
            idx = {}
            for rel in self.shipped():
                try:
                    m = self.module(rel)
                except AnalysisError:
                    continue
                for qn, c in m.classes.items():
                    idx.setdefault(qn.split('.')[-1], []).append((rel, qn))
            self._class_index = idx
        return self._class_index

    @staticmethod
    def _mod_to_rel(dotted):
        return dotted.replace('.', '/') + '.py'

    def resolve_class(self, rel, expr):
        """Resolve a base-class expression in module *rel* to (rel, qualname) or None."""
        m = self.module(rel)
        if isinstance(expr, ast.Name):
            nm = expr.id
            if nm in _BUILTIN_NAMES:
                return None
            if nm in m.classes:
                return (rel, nm)
            imp = m.imports.get(nm)
            if imp and imp[1]:
                r2 = self._mod_to_rel(imp[0])
                if self.exists(r2) and imp[1] in self.module(r2).classes:
                    return (r2, imp[1])
                # re-exported through a package __init__
                r3 = imp[0].replace('.', '/') + '/__init__.py'
                if self.exists(r3):
                    m3 = self.module(r3)
                    imp3 = m3.imports.get(imp[1])
                    if imp3 and imp3[1]:
                        r4 = self._mod_to_rel(imp3[0])
                        if self.exists(r4) and imp3[1] in self.module(r4).classes:
                            return (r4, imp3[1])
            cands = self.class_index().get(nm, [])
            if len(cands) == 1:
                return cands[0]
            return None
        if isinstance(expr, ast.Attribute):
            cands = self.class_index().get(expr.attr, [])
            if len(cands) == 1:
                return cands[0]
        return None

    def bases(self, rel, qn):
        c = self.module(rel).classes[qn]
        out = []
        for b in c.bases:
            r = self.resolve_class(rel, b)
            if r is not None:
                out.append(r)
        return out

    def mro(self, rel, qn):
        """Linearised ancestor list (depth-first left-to-right, duplicates removed keeping last)."""
        seen = []

        def rec(r, q):
            key = (r, q)
            if key in seen:
                seen.remove(key)
            seen.append(key)
            for b in self.bases(r, q):
                rec(*b)
        rec(rel, qn)
        return seen

    def lookup(self, rel, qn, method):
        """First definer of *method* in the MRO of class (rel, qn); returns Func or None."""
        for r, q in self.mro(rel, qn):
            f = self.module(r).funcs.get(f'{q}.{method}')
            if f is not None:
                return f
        return None

    def subclasses(self, rel, qn):
        """All shipped classes that have (rel, qn) in their MRO (including itself)."""
        out = []
        for nm, lst in self.class_index().items():
            for r, q in lst:
                try:
                    if (rel, qn) in self.mro(r, q):
                        out.append((r, q))
                except (KeyError, RecursionError):
                    continue
        return sorted(set(out))

    def overriders(self, rel, qn, method):
        """Subclasses (excluding the class itself) that define *method* themselves."""
        out = []
        for r, q in self.subclasses(rel, qn):
            if (r, q) == (rel, qn):
                continue
            f = self.module(r).funcs.get(f'{q}.{method}')
            if f is not None:
                out.append(f)
        return out

    def all_funcs(self, rels=None):
        for rel in (rels or self.shipped()):
            m = self.module(rel)
            for f in m.funcs.values():
                yield f
