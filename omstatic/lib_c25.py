"""Symbolic model of the numeric fragment used by the KS aggregation code (property C25).

Nothing of OpenMDAO is imported or run.  The AST of the anchor functions is interpreted over

* an *algebraic normal form* (``Poly``): Laurent polynomials with rational coefficients over atoms
  ``sym`` (inputs), ``exp(p)``, ``log(p)``, ``inv(p)``, axis reductions ``red(max|min|sum, p, axis)``,
  the sub-gradient selector ``dext`` of a max/min and opaque calls; products of exponentials are merged,
  sums are pulled through row-constant factors, so algebraically equal expressions written differently
  get the same key;
* a *shape tag* per value (full array / reduced without keepdims / reduced with keepdims / scalar /
  flattened in C or F order) with numpy's broadcasting alignment, so that a reduction over the wrong axis
  or a dropped ``[:, np.newaxis]`` is recognised as such.

On top of the normal form: exact symbolic differentiation (``total``) with respect to the aggregated
array or a scalar, and a float evaluator of normal forms (``ev_poly``; numpy is used only as a
calculator on the *model*) that provides concrete counterexamples.  Anything outside the fragment raises
``Unknown`` (-> undecided, never a violation).
"""
import ast
from fractions import Fraction

import numpy as np

from . import astx


class Unknown(Exception):
    """Construct outside the modelled fragment."""

    def __init__(self, node, why):
        super().__init__(why)
        self.node, self.why = node, why


class Defect(Exception):
    """A recognised construct that is definitely wrong (axis / broadcasting)."""

    def __init__(self, node, key, why):
        super().__init__(why)
        self.node, self.key, self.why = node, key, why


# ============================================================================ normal form
def _rk(ap):
    return repr(ap[0])


class Poly:
    """Sum of monomials: {((atom, power), ...): Fraction}."""

    __slots__ = ('t', '_key')

    def __init__(self, t=None):
        self.t = {m: c for m, c in (t or {}).items() if c != 0}
        self._key = None

    @staticmethod
    def const(c):
        return Poly({(): Fraction(c)})

    @staticmethod
    def atom(a, p=1):
        if p == 0:
            return Poly.const(1)
        return Poly({_mono_norm({a: p}): Fraction(1)})

    @staticmethod
    def from_key(k):
        return Poly(dict(k))

    def key(self):
        if self._key is None:
            self._key = tuple(sorted(self.t.items(), key=repr))
        return self._key

    def is_zero(self):
        return not self.t

    def is_const(self):
        return all(m == () for m in self.t)

    def const_value(self):
        return self.t.get((), Fraction(0)) if self.is_const() else None

    def __eq__(self, other):
        return isinstance(other, Poly) and self.key() == other.key()

    def __hash__(self):
        return hash(self.key())

    def __add__(self, o):
        d = dict(self.t)
        for m, c in o.t.items():
            d[m] = d.get(m, 0) + c
        return Poly(d)

    def __neg__(self):
        return Poly({m: -c for m, c in self.t.items()})

    def __sub__(self, o):
        return self + (-o)

    def __mul__(self, o):
        d = {}
        for m1, c1 in self.t.items():
            for m2, c2 in o.t.items():
                dd = {}
                for a, p in m1 + m2:
                    dd[a] = dd.get(a, 0) + p
                m = _mono_norm(dd)
                d[m] = d.get(m, 0) + c1 * c2
        return Poly(d)

    def scale(self, c):
        return Poly({m: v * Fraction(c) for m, v in self.t.items()})

    def single(self):
        """(coeff, mono) if this is a single monomial else None."""
        if len(self.t) == 1:
            (m, c), = self.t.items()
            return c, m
        return None

    def __repr__(self):
        return show(self)


def _mono_norm(d):
    """Canonical monomial of {atom: power}; all exponential factors are merged into one."""
    exps = [(a, p) for a, p in d.items() if a[0] == 'exp' and p != 0]
    if len(exps) > 1 or any(p != 1 for _, p in exps):
        tot = Poly()
        for a, p in exps:
            tot = tot + Poly.from_key(a[1]).scale(p)
            del d[a]
        if not tot.is_zero():
            na = ('exp', tot.key())
            d[na] = d.get(na, 0) + 1
    return tuple(sorted(((a, p) for a, p in d.items() if p != 0), key=_rk))


def inv(p, node=None):
    s = p.single()
    if s is not None:
        c, m = s
        return Poly({_mono_norm({a: -k for a, k in m}): 1 / c})
    if p.is_zero():
        raise Unknown(node, 'division by a zero expression')
    return Poly.atom(('inv', p.key()))


def mk_exp(p):
    if p.is_zero():
        return Poly.const(1)
    return Poly.atom(('exp', p.key()))


def mk_bin(op, a, b):
    """Elementwise maximum / minimum of two normal forms (commutative, idempotent, constants folded)."""
    if a == b:
        return a
    ca, cb = a.const_value(), b.const_value()
    if ca is not None and cb is not None:
        return Poly.const(max(ca, cb) if op == 'maximum' else min(ca, cb))
    ka, kb = sorted((a.key(), b.key()), key=repr)
    return Poly.atom(('bin', op, ka, kb))


def mk_where(cond, a, b):
    if a == b:
        return a
    return Poly.atom(('where', cond, a.key(), b.key()))


def _sub_polys(t):
    """Component normal forms of a composite (bin / where) atom."""
    if t[0] == 'bin':
        return [Poly.from_key(t[2]), Poly.from_key(t[3])]
    if t[0] == 'where':
        return [Poly.from_key(t[1][1]), Poly.from_key(t[1][2]), Poly.from_key(t[2]), Poly.from_key(t[3])]
    return []


def mk_log(p):
    s = p.single()
    if s is not None:
        c, m = s
        if c == 1 and m == ():
            return Poly()
        if c == 1 and len(m) == 1 and m[0][0][0] == 'exp' and m[0][1] == 1:
            return Poly.from_key(m[0][0][1])
    return Poly.atom(('log', p.key()))


_ORDER = {'S': 0, 'R': 1, 'E': 2}


def akind(a):
    """'E' varies along the aggregated axis, 'R' one value per row, 'S' scalar."""
    t = a[0]
    if t == 'sym':
        return a[2]
    if t in ('exp', 'log', 'inv'):
        return kind(Poly.from_key(a[1]))
    if t == 'red':
        return 'R'
    if t == 'dext':
        return 'E'
    if t == 'n':
        return 'S'
    if t == 'call':
        return a[4]
    if t in ('bin', 'where'):
        k = 'S'
        for q in _sub_polys(a):
            kq = kind(q)
            if _ORDER[kq] > _ORDER[k]:
                k = kq
        return k
    raise Unknown(None, f'unknown atom {a!r}')


def kind(p):
    k = 'S'
    for m in p.t:
        for a, _ in m:
            ka = akind(a)
            if _ORDER[ka] > _ORDER[k]:
                k = ka
    return k


def reduce_sum(p, axis):
    """Sum along the aggregated axis, linear, row-constant factors pulled out."""
    out = Poly()
    for m, c in p.t.items():
        e = tuple(ap for ap in m if akind(ap[0]) == 'E')
        r = tuple(ap for ap in m if akind(ap[0]) != 'E')
        if e:
            a = ('red', 'sum', Poly({e: Fraction(1)}).key(), axis)
        else:
            a = ('n', axis)
        out = out + Poly({r: c}) * Poly.atom(a)
    return out


def reduce_ext(op, p, axis):
    if kind(p) != 'E':
        return p
    return Poly.atom(('red', op, p.key(), axis))


def substitute(p, f):
    """Replace top-level atoms: f(atom) -> Poly or None (keep)."""
    out = Poly()
    for m, c in p.t.items():
        term = Poly.const(c)
        for a, k in m:
            r = f(a)
            base = Poly.atom(a) if r is None else r
            if k < 0:
                base, k = inv(base), -k
            for _ in range(k):
                term = term * base
        out = out + term
    return out


def is_cached(a):
    return a[0] == 'sym' and a[1].startswith('cached ')


# ---------------------------------------------------------------------------- differentiation
def _d_atom(t, a, node):
    if t == a:
        return Poly.const(1)
    if t[0] == 'exp':
        dq = partial(Poly.from_key(t[1]), a, node)
        return None if dq.is_zero() else Poly.atom(t) * dq
    if t[0] == 'log':
        q = Poly.from_key(t[1])
        dq = partial(q, a, node)
        return None if dq.is_zero() else dq * inv(q, node)
    if t[0] == 'inv':
        q = Poly.from_key(t[1])
        dq = partial(q, a, node)
        return None if dq.is_zero() else -(Poly.atom(t, 2) * dq)
    if t[0] in ('bin', 'where'):
        for q in _sub_polys(t):
            if not partial(q, a, node).is_zero():
                raise Unknown(node, 'derivative through maximum / minimum / where')
    return None


def partial(p, a, node=None):
    """d p / d a with every *other* atom held constant (reductions are opaque unless equal to a)."""
    out = Poly()
    for mono, c in p.t.items():
        for i, (t, k) in enumerate(mono):
            dt = _d_atom(t, a, node)
            if dt is None:
                continue
            rest = mono[:i] + mono[i + 1:]
            term = Poly({rest: c * k}) * Poly.atom(t, k - 1) * dt
            out = out + term
    return out


def row_atoms(p, acc=None):
    """Reduction atoms occurring in p (also inside exp/log/inv arguments, not inside other reductions)."""
    acc = [] if acc is None else acc
    for mono in p.t:
        for t, _ in mono:
            if t[0] == 'red':
                if t not in acc:
                    acc.append(t)
            elif t[0] in ('exp', 'log', 'inv'):
                row_atoms(Poly.from_key(t[1]), acc)
            elif t[0] in ('bin', 'where'):
                for q in _sub_polys(t):
                    row_atoms(q, acc)
    return acc


def total(p, v, node=None):
    """Total derivative of p with respect to the symbol v.

    v of kind 'E' (the aggregated array): p must be a per-row value; the result is the array of
    d p / d v_j (same shape as v).  v of kind 'S': ordinary derivative.
    """
    out = partial(p, v, node)
    for a in row_atoms(p):
        da = _d_red(a, v, node)
        if not da.is_zero():
            out = out + partial(p, a, node) * da
    return out


def _d_red(a, v, node):
    _, op, key, axis = a
    F = Poly.from_key(key)
    elem = akind(v) == 'E'
    if op == 'sum':
        own = partial(F, v, node)
        out = own if elem else reduce_sum(own, axis)
        for b in row_atoms(F):
            db = _d_red(b, v, node)
            if not db.is_zero():
                out = out + reduce_sum(partial(F, b, node), axis) * db
        return out
    # max / min
    if elem:
        if F == Poly.atom(v):
            return Poly.atom(('dext', op, key, axis))
        if partial(F, v, node).is_zero() and not row_atoms(F):
            return Poly()
        raise Unknown(node, f'derivative of {op} of a composite expression')
    if partial(F, v, node).is_zero() and all(_d_red(b, v, node).is_zero() for b in row_atoms(F)):
        return Poly()
    raise Unknown(node, f'derivative of {op} of an expression that depends on the scalar')


# ---------------------------------------------------------------------------- float evaluation of a normal form
def ev_poly(p, binds):
    """Evaluate with floats.  binds: sym atom -> float | ndarray (rows, width) ; reductions keep dims."""
    tot = 0.0
    for mono, c in p.t.items():
        v = float(c)
        for a, k in mono:
            x = ev_atom(a, binds)
            v = v * (x if k == 1 else np.power(x, float(k)))
        tot = tot + v
    return tot


def ev_atom(a, b):
    t = a[0]
    if a in b:
        return b[a]
    if t == 'exp':
        return np.exp(ev_poly(Poly.from_key(a[1]), b))
    if t == 'log':
        return np.log(ev_poly(Poly.from_key(a[1]), b))
    if t == 'inv':
        return 1.0 / np.asarray(ev_poly(Poly.from_key(a[1]), b), dtype=float)
    if t == 'bin':
        f = np.maximum if a[1] == 'maximum' else np.minimum
        return f(ev_poly(Poly.from_key(a[2]), b), ev_poly(Poly.from_key(a[3]), b))
    if t == 'where':
        op, kl, kr = a[1]
        l, r = ev_poly(Poly.from_key(kl), b), ev_poly(Poly.from_key(kr), b)
        c = {'<': np.less, '<=': np.less_equal, '>': np.greater, '>=': np.greater_equal}[op](l, r)
        return np.where(c, ev_poly(Poly.from_key(a[2]), b), ev_poly(Poly.from_key(a[3]), b))
    if t in ('red', 'dext'):
        _, op, key, axis = a
        x = np.asarray(ev_poly(Poly.from_key(key), b), dtype=float)
        shp = b['__shape__']
        x = np.broadcast_to(x, shp)
        ax = None if axis == 'all' else -1
        if t == 'red':
            f = {'max': np.max, 'min': np.min, 'sum': np.sum}[op]
            return f(x, axis=ax, keepdims=True)
        ext = (np.max if op == 'max' else np.min)(x, axis=ax, keepdims=True)
        hit = (x == ext).astype(float)
        return hit / np.sum(hit, axis=ax, keepdims=True)
    if t == 'n':
        shp = b['__shape__']
        return float(np.prod(shp)) if a[1] == 'all' else float(shp[-1])
    raise Unknown(None, f'cannot evaluate atom {a!r}')


# ---------------------------------------------------------------------------- pretty printer (messages only)
def show(p, depth=0):
    if p.is_zero():
        return '0'
    if depth > 4:
        return '...'
    parts = []
    for m, c in sorted(p.t.items(), key=repr):
        fs = []
        for a, k in m:
            s = show_atom(a, depth + 1)
            fs.append(s if k == 1 else f'{s}^{k}')
        cs = str(c) if c.denominator < 1000 else f'{float(c):g}'
        if not fs:
            parts.append(cs)
        elif c == 1:
            parts.append('*'.join(fs))
        elif c == -1:
            parts.append('-' + '*'.join(fs))
        else:
            parts.append(cs + '*' + '*'.join(fs))
    return ' + '.join(parts).replace('+ -', '- ')


def show_atom(a, depth=0):
    t = a[0]
    if t == 'sym':
        return a[1]
    if t in ('exp', 'log', 'inv'):
        return f'{t}({show(Poly.from_key(a[1]), depth)})'
    if t == 'red':
        return f'{a[1]}[{a[3]}]({show(Poly.from_key(a[2]), depth)})'
    if t == 'bin':
        return f'{a[1]}({show(Poly.from_key(a[2]), depth)}, {show(Poly.from_key(a[3]), depth)})'
    if t == 'where':
        return (f'where({show(Poly.from_key(a[1][1]), depth)} {a[1][0]} {show(Poly.from_key(a[1][2]), depth)}, '
                f'{show(Poly.from_key(a[2]), depth)}, {show(Poly.from_key(a[3]), depth)})')
    if t == 'dext':
        return f'd{a[1]}[{a[3]}]({show(Poly.from_key(a[2]), depth)})'
    if t == 'n':
        return f'n[{a[1]}]'
    if t == 'call':
        idx = '' if a[2] is None else f'[{a[2]}]'
        return f"{a[1]}({', '.join(show(Poly.from_key(k), depth) for k in a[3])}){idx}"
    return repr(a)


# ============================================================================ interpreter
class Num:
    """Symbolic numeric value: normal form + shape tag.

    shape: 'S' scalar | 'E' full array | 'R1' reduced along the aggregated axis, no keepdims |
    'RK' reduced, dims kept | 'A' reduced over everything (scalar) | 'ET' transposed full array |
    'FC'/'FF' full array flattened in C / Fortran order.
    """

    def __init__(self, p, shape):
        self.p, self.shape = p, shape


class Tup:
    def __init__(self, items):
        self.items = list(items)


class Obj:
    def __init__(self, tag, data=None):
        self.tag, self.data = tag, data


class Cond:
    """Elementwise comparison of two numbers (only usable as the condition of where)."""

    def __init__(self, op, l, r, shape):
        self.key, self.shape = (op, l.p.key(), r.p.key()), shape


class Const:
    """Non-numeric constant (str / None / bool)."""

    def __init__(self, v):
        self.v = v


NUMPY_MODS = ('numpy', 'jax.numpy')
_CMP = {ast.Lt: '<', ast.LtE: '<=', ast.Gt: '>', ast.GtE: '>='}


def _join(s1, s2, node):
    if s1 in ('S', 'A'):
        return s2
    if s2 in ('S', 'A'):
        return s1
    if s1 == s2:
        return s1
    pair = {s1, s2}
    if pair == {'E', 'RK'}:
        return 'E'
    if pair == {'E', 'R1'}:
        raise Defect(node, 'keepdims',
                     'a per-row reduction of shape (rows,) is combined with the (rows, width) array without '
                     'restoring the reduced axis ([:, np.newaxis] / keepdims=True): numpy aligns it with the '
                     'last axis, i.e. raises for rows != width and silently mixes rows when rows == width')
    if pair == {'RK', 'R1'}:
        raise Defect(node, 'keepdims',
                     'a (rows, 1) value is combined with a (rows,) value: numpy broadcasts this to (rows, rows)')
    raise Unknown(node, f'unmodelled broadcast of shapes {s1} and {s2}')


class Interp:
    """Symbolic interpreter of straight-line numeric code with option-valued branches."""

    def __init__(self, repo, mode='2d', valuation=None, opaque=None, jax_only=False):
        self.repo = repo
        self.mode = mode                   # '2d': arrays are (rows, width), aggregate along the last axis; 'nd': aggregate all
        self.valuation = valuation or {}   # option name -> bool
        self.opaque = opaque or {}         # qualname -> return structure ('RK' | ('E', 'RK'))
        self.jax_only = jax_only
        self.exp_args = []                 # (node, Poly) of every exponential evaluated
        self.log_args = []
        self.sinks = {}                    # ('outputs', 'KS') -> (Num, node)
        self.tested = set()                # option names read in a branch test
        self.depth = 0

    # ------------------------------------------------------------------ functions
    def call_function(self, fn, args, kwargs, node=None, self_obj=None):
        if self.depth > 6:
            raise Unknown(node, 'call depth')
        a = fn.node.args
        if a.vararg or a.kwarg or a.kwonlyargs:
            raise Unknown(fn.node, 'unmodelled signature')
        params = [x.arg for x in a.posonlyargs + a.args]
        defaults = dict(zip(params[len(params) - len(a.defaults):], a.defaults))
        env = {}
        if 'staticmethod' not in fn.decorators() and fn.cls is not None:
            if not params:
                raise Unknown(fn.node, 'method without self')
            env[params[0]] = self_obj or Obj('self', fn)
            params = params[1:]
        if len(args) > len(params):
            raise Unknown(node, 'too many arguments')
        for nm, v in zip(params, args):
            env[nm] = v
        for nm, v in kwargs.items():
            if nm not in params or nm in env:
                raise Unknown(node, f'unexpected argument {nm}')
            env[nm] = v
        for nm in params:
            if nm not in env:
                if nm not in defaults:
                    raise Unknown(node, f'missing argument {nm}')
                env[nm] = self.eval(defaults[nm], {}, fn)
        self.depth += 1
        try:
            r = self.exec_body(fn.node.body, env, fn)
        finally:
            self.depth -= 1
        return r[1] if r is not None else Const(None)

    def bind_keys(self, fn, args, kwargs, node):
        """Arguments of an opaque call in parameter order (defaults filled in)."""
        a = fn.node.args
        params = [x.arg for x in a.posonlyargs + a.args]
        if 'staticmethod' not in fn.decorators() and fn.cls is not None:
            params = params[1:]
        defaults = dict(zip(params[len(params) - len(a.defaults):], a.defaults))
        vals = dict(zip(params, args))
        if len(args) > len(params):
            raise Unknown(node, 'too many arguments')
        for nm, v in kwargs.items():
            if nm not in params or nm in vals:
                raise Unknown(node, f'unexpected argument {nm}')
            vals[nm] = v
        out = []
        for nm in params:
            v = vals.get(nm)
            if v is None:
                if nm not in defaults:
                    raise Unknown(node, f'missing argument {nm}')
                v = self.eval(defaults[nm], {}, fn)
            if not isinstance(v, Num):
                raise Unknown(node, f'non-numeric argument {nm}')
            out.append((nm, v))
        return out

    # ------------------------------------------------------------------ statements
    def exec_body(self, body, env, fn):
        for st in body:
            r = self.exec_stmt(st, env, fn)
            if r is not None:
                return r
        return None

    def exec_stmt(self, st, env, fn):
        if isinstance(st, ast.Expr):
            if isinstance(st.value, ast.Constant):
                return None
            raise Unknown(st, 'expression statement')
        if isinstance(st, ast.Pass):
            return None
        if isinstance(st, ast.Return):
            return ('return', self.eval(st.value, env, fn) if st.value is not None else Const(None))
        if isinstance(st, ast.Assign):
            v = self.eval(st.value, env, fn)
            for t in st.targets:
                self.store(t, v, env, fn, st)
            return None
        if isinstance(st, ast.AugAssign):
            if not isinstance(st.target, ast.Name):
                raise Unknown(st, 'augmented assignment to a non-local')
            cur = self.eval(ast.Name(id=st.target.id, ctx=ast.Load()), env, fn)
            env[st.target.id] = self.binop(st.op, cur, self.eval(st.value, env, fn), st)
            return None
        if isinstance(st, ast.If):
            b = self.truth(st.test, env, fn)
            return self.exec_body(st.body if b else st.orelse, env, fn)
        raise Unknown(st, f'unmodelled statement {type(st).__name__}')

    def store(self, t, v, env, fn, st):
        if isinstance(t, ast.Name):
            env[t.id] = v
            return
        if isinstance(t, (ast.Tuple, ast.List)):
            if not isinstance(v, Tup) or len(v.items) != len(t.elts):
                raise Unknown(st, 'tuple unpacking of a non-tuple / wrong arity')
            for e, x in zip(t.elts, v.items):
                self.store(e, x, env, fn, st)
            return
        if isinstance(t, ast.Subscript):
            base = self.eval(t.value, env, fn)
            if isinstance(base, Obj) and base.tag in ('outputs', 'partials'):
                k = self.eval(t.slice, env, fn)
                key = k.v if isinstance(k, Const) else tuple(x.v for x in k.items) if isinstance(k, Tup) and \
                    all(isinstance(x, Const) for x in k.items) else None
                if key is None or not isinstance(v, Num):
                    raise Unknown(st, 'unrecognised store')
                if (base.tag, key) in self.sinks:
                    raise Unknown(st, 'output written twice')
                self.sinks[(base.tag, key)] = (v, st)
                return
        raise Unknown(st, 'unrecognised assignment target')

    # ------------------------------------------------------------------ booleans
    def truth(self, e, env, fn):
        if isinstance(e, ast.UnaryOp) and isinstance(e.op, ast.Not):
            return not self.truth(e.operand, env, fn)
        if isinstance(e, ast.BoolOp):
            vals = [self.truth(x, env, fn) for x in e.values]
            return all(vals) if isinstance(e.op, ast.And) else any(vals)
        if isinstance(e, ast.Compare) and len(e.ops) == 1:
            atom = self.option_compare(e, env, fn)
            if atom is not None:
                key, negate = atom
                if key not in self.valuation:
                    raise Unknown(e, f'comparison {key} of a numeric option is not enumerated')
                self.tested.add(key)
                return self.valuation[key] != negate
        if isinstance(e, ast.Compare) and len(e.ops) == 1 and isinstance(e.ops[0], (ast.Is, ast.IsNot, ast.Eq, ast.NotEq)):
            r = self.truth(e.left, env, fn) == self.truth(e.comparators[0], env, fn)
            return r if isinstance(e.ops[0], (ast.Is, ast.Eq)) else not r
        if isinstance(e, ast.BinOp) and isinstance(e.op, ast.BitXor):
            return self.truth(e.left, env, fn) != self.truth(e.right, env, fn)
        v = self.eval(e, env, fn)
        if isinstance(v, Const) and isinstance(v.v, bool):
            return v.v
        raise Unknown(e, 'branch condition is not a boolean option')

    def option_name(self, e, env, fn):
        """Name of the option if e is options['<literal>'] (through any alias) else None."""
        if isinstance(e, ast.Subscript) and astx.const_str(e.slice) is not None:
            try:
                v = self.eval(e.value, env, fn)
            except Unknown:
                return None
            if isinstance(v, Obj) and v.tag == 'options':
                return astx.const_str(e.slice)
        return None

    def option_compare(self, e, env, fn):
        """((name, op, constant), negate) for `options[name] <op> <int literal>` (either order) else None."""
        l, r, op = e.left, e.comparators[0], type(e.ops[0])
        swap = {ast.Lt: ast.Gt, ast.Gt: ast.Lt, ast.LtE: ast.GtE, ast.GtE: ast.LtE, ast.Eq: ast.Eq, ast.NotEq: ast.NotEq}
        if op not in swap:
            return None
        if isinstance(l, ast.Constant):
            l, r, op = r, l, swap[op]
        if not (isinstance(r, ast.Constant) and isinstance(r.value, int) and not isinstance(r.value, bool)):
            return None
        nm = self.option_name(l, env, fn)
        if nm is None or nm in self.valuation:
            return None
        txt = {ast.Lt: '<', ast.Gt: '>', ast.LtE: '<=', ast.GtE: '>=', ast.Eq: '==', ast.NotEq: '=='}[op]
        return (nm, txt, r.value), op is ast.NotEq

    def cached_attribute(self, v, e, fn):
        """Value of self.<attr> when every assignment to it (outside the running method) copies an option."""
        owner = v.data
        cls = owner.cls.name if owner.cls is not None else None
        if cls is None:
            raise Unknown(e, f'attribute {e.attr}')
        found = []
        for qn, f in owner.module.funcs.items():
            if not qn.startswith(cls + '.') or '<locals>' in qn:
                continue
            for st in astx.walk_stmts(f.node.body):
                if isinstance(st, (ast.Assign, ast.AugAssign, ast.AnnAssign)) and \
                        any(astx.path(t) == f'self.{e.attr}' for t in astx.assigned_targets(st)):
                    found.append((f, st))
        live = [(f, st) for f, st in found
                if not (isinstance(st, ast.Assign) and isinstance(st.value, ast.Constant) and st.value.value is None)]
        if not live or any(f is fn or not isinstance(st, ast.Assign) for f, st in live):
            raise Unknown(e, f'attribute {e.attr}')
        names = set()
        for f, st in live:
            env = {a.arg: Obj('self', f) for a in f.node.args.args[:1]}
            for pre in astx.walk_stmts(f.node.body):   # option aliases of that method
                if isinstance(pre, ast.Assign) and astx.path(pre.value) == 'self.options':
                    for t in pre.targets:
                        if isinstance(t, ast.Name):
                            env[t.id] = Obj('options')
            nm = self.option_name(st.value, env, f)
            if nm is None:
                raise Unknown(e, f'attribute {e.attr} is assigned {astx.src(st.value)} in {f.qualname}')
            names.add((nm, f.qualname))
        if len({n for n, _ in names}) != 1:
            raise Unknown(e, f'attribute {e.attr} copies different options')
        nm = next(iter(names))[0]
        where = ', '.join(sorted(q for _, q in names))
        return Num(Poly.atom(('sym', f"cached options[{nm!r}] (self.{e.attr}, set in {where})", 'S')), 'S')

    # ------------------------------------------------------------------ expressions
    def eval(self, e, env, fn):
        if isinstance(e, ast.Constant):
            v = e.value
            if isinstance(v, bool) or v is None or isinstance(v, str):
                return Const(v)
            if isinstance(v, (int, float)):
                return Num(Poly.const(Fraction(v)), 'S')
            raise Unknown(e, 'constant')
        if isinstance(e, ast.Name):
            if e.id in env:
                return env[e.id]
            return self.global_name(e, fn)
        if isinstance(e, ast.Tuple):
            return Tup([self.eval(x, env, fn) for x in e.elts])
        if isinstance(e, ast.UnaryOp):
            if isinstance(e.op, ast.Not):
                return Const(not self.truth(e.operand, env, fn))
            v = self.eval(e.operand, env, fn)
            if not isinstance(v, Num):
                raise Unknown(e, 'unary operator on a non-number')
            if isinstance(e.op, ast.USub):
                return Num(-v.p, v.shape)
            if isinstance(e.op, ast.UAdd):
                return v
            raise Unknown(e, 'unary operator')
        if isinstance(e, ast.BinOp):
            return self.binop(e.op, self.eval(e.left, env, fn), self.eval(e.right, env, fn), e)
        if isinstance(e, ast.IfExp):
            return self.eval(e.body if self.truth(e.test, env, fn) else e.orelse, env, fn)
        if isinstance(e, ast.Compare) and len(e.ops) == 1 and type(e.ops[0]) in _CMP:
            l, r = self.eval(e.left, env, fn), self.eval(e.comparators[0], env, fn)
            if isinstance(l, Num) and isinstance(r, Num):
                return Cond(_CMP[type(e.ops[0])], l, r, _join(l.shape, r.shape, e))
            raise Unknown(e, 'comparison of non-numbers')
        if isinstance(e, ast.Attribute):
            return self.attribute(e, env, fn)
        if isinstance(e, ast.Subscript):
            return self.subscript(e, env, fn)
        if isinstance(e, ast.Call):
            return self.call(e, env, fn)
        if isinstance(e, ast.Slice):
            if e.lower is None and e.upper is None and e.step is None:
                return Const(slice(None))
            raise Unknown(e, 'slice')
        raise Unknown(e, f'unmodelled expression {type(e).__name__}')

    def global_name(self, e, fn):
        m = fn.module
        nm = e.id
        if nm in m.imports:
            mod, orig = m.imports[nm]
            if orig is None:
                return Obj('mod', mod)
            if mod in NUMPY_MODS:
                return Obj('npfunc', (mod, orig))
            raise Unknown(e, f'imported name {nm}')
        if nm in m.classes:
            return Obj('class', nm)
        if nm in m.funcs:
            return Obj('func', m.funcs[nm])
        raise Unknown(e, f'unknown name {nm}')

    def binop(self, op, a, b, node):
        if not isinstance(a, Num) or not isinstance(b, Num):
            raise Unknown(node, 'arithmetic on a non-number')
        shp = _join(a.shape, b.shape, node)
        if isinstance(op, ast.Add):
            return Num(a.p + b.p, shp)
        if isinstance(op, ast.Sub):
            return Num(a.p - b.p, shp)
        if isinstance(op, ast.Mult):
            return Num(a.p * b.p, shp)
        if isinstance(op, ast.Div):
            return Num(a.p * inv(b.p, node), shp)
        if isinstance(op, ast.Pow):
            c = b.p.const_value()
            if c is None or c.denominator != 1 or abs(c) > 8:
                raise Unknown(node, 'power with a non-integer exponent')
            k = int(c)
            base = a.p if k >= 0 else inv(a.p, node)
            r = Poly.const(1)
            for _ in range(abs(k)):
                r = r * base
            return Num(r, shp)
        raise Unknown(node, f'operator {type(op).__name__}')

    def attribute(self, e, env, fn):
        v = self.eval(e.value, env, fn)
        if isinstance(v, Obj):
            if v.tag == 'self' and e.attr == 'options':
                return Obj('options')
            if v.tag == 'mod':
                if v.data in NUMPY_MODS:
                    if e.attr == 'newaxis':
                        return Const(None)
                    return Obj('npfunc', (v.data, e.attr))
                if v.data == 'jax' and e.attr == 'numpy':
                    return Obj('mod', 'jax.numpy')
                raise Unknown(e, f'attribute of module {v.data}')
            if v.tag == 'class':
                f = fn.module.funcs.get(f'{v.data}.{e.attr}')
                if f is not None:
                    return Obj('func', f)
            if v.tag == 'self':
                c = v.data.cls.name if isinstance(v.data, type(fn)) and v.data.cls is not None else None
                if c is not None:
                    f = self.repo.lookup(v.data.rel, c, e.attr)
                    if f is not None:
                        return Obj('boundfunc', (f, v))
                    return self.cached_attribute(v, e, fn)
            raise Unknown(e, f'attribute {e.attr}')
        if isinstance(v, Num):
            if e.attr == 'T':
                if v.shape == 'E':
                    return Num(v.p, 'ET')
                if v.shape == 'ET':
                    return Num(v.p, 'E')
                if v.shape in ('S', 'A'):
                    return v
                raise Unknown(e, 'transpose of a reduced array')
            return Obj('method', (v, e.attr))
        raise Unknown(e, f'attribute {e.attr}')

    def subscript(self, e, env, fn):
        v = self.eval(e.value, env, fn)
        if isinstance(v, Obj) and v.tag == 'options':
            k = self.eval(e.slice, env, fn)
            if not (isinstance(k, Const) and isinstance(k.v, str)):
                raise Unknown(e, 'option name is not a literal')
            if k.v in self.valuation:
                self.tested.add(k.v)
                return Const(self.valuation[k.v])
            return Num(Poly.atom(('sym', f"options[{k.v!r}]", 'S')), 'S')
        if isinstance(v, Obj) and v.tag == 'inputs':
            k = self.eval(e.slice, env, fn)
            if not (isinstance(k, Const) and isinstance(k.v, str)):
                raise Unknown(e, 'input name is not a literal')
            return Num(Poly.atom(('sym', f"inputs[{k.v!r}]", 'E')), 'E')
        if isinstance(v, Tup):
            k = self.eval(e.slice, env, fn)
            if isinstance(k, Num):
                c = k.p.const_value()
                if c is not None and c.denominator == 1 and -len(v.items) <= int(c) < len(v.items):
                    return v.items[int(c)]
            raise Unknown(e, 'tuple index')
        if isinstance(v, Num):
            k = self.eval(e.slice, env, fn)
            items = k.items if isinstance(k, Tup) else [k]
            pat = []
            for x in items:
                if isinstance(x, Const) and x.v is None:
                    pat.append('new')
                elif isinstance(x, Const) and isinstance(x.v, slice):
                    pat.append(':')
                elif isinstance(x, Const) and x.v is Ellipsis:
                    pat.append(':')
                else:
                    raise Unknown(e, 'array indexing')
            if v.shape == 'R1' and pat == [':', 'new']:
                return Num(v.p, 'RK')
            if v.shape == 'R1' and pat == ['new', ':'] and self.mode == '2d':
                raise Defect(e, 'keepdims', 'the reduced axis is restored in front ([np.newaxis, :]): a (rows,) '
                             'result becomes (1, rows) and is broadcast across rows instead of along them')
            if v.shape in ('S', 'A') and all(x == 'new' for x in pat):
                return v
            raise Unknown(e, 'array indexing')
        raise Unknown(e, 'subscript')

    # ------------------------------------------------------------------ calls
    def call(self, e, env, fn):
        if any(isinstance(a, ast.Starred) for a in e.args) or any(k.arg is None for k in e.keywords):
            raise Unknown(e, 'star arguments')
        f = self.eval(e.func, env, fn)
        if not isinstance(f, Obj):
            raise Unknown(e, 'call of a non-function')
        if f.tag == 'npfunc':
            mod, name = f.data
            if self.jax_only and mod != 'jax.numpy':
                raise Unknown(e, f'{mod}.{name} inside a jax-traced function')
            args = [self.eval(a, env, fn) for a in e.args]
            kw = {k.arg: self.eval(k.value, env, fn) for k in e.keywords}
            return self.numpy(name, args, kw, e)
        if f.tag == 'method':
            recv, name = f.data
            args = [self.eval(a, env, fn) for a in e.args]
            kw = {k.arg: self.eval(k.value, env, fn) for k in e.keywords}
            return self.method(recv, name, args, kw, e)
        if f.tag in ('func', 'boundfunc'):
            callee, self_obj = (f.data, None) if f.tag == 'func' else f.data
            args = [self.eval(a, env, fn) for a in e.args]
            kw = {k.arg: self.eval(k.value, env, fn) for k in e.keywords}
            if callee.qualname in self.opaque:
                bound = self.bind_keys(callee, args, kw, e)
                keys = tuple(v.p.key() for _, v in bound)
                struct = self.opaque[callee.qualname]

                def mk(i, shape):
                    k = 'E' if shape in ('E',) else ('S' if shape in ('S', 'A') else 'R')
                    return Num(Poly.atom(('call', callee.qualname, i, keys, k)), shape)
                if isinstance(struct, tuple):
                    return Tup([mk(i, s) for i, s in enumerate(struct)])
                return mk(None, struct)
            return self.call_function(callee, args, kw, e, self_obj)
        raise Unknown(e, 'call')

    def _axis(self, args, kw, pos, node):
        ax = args[pos] if len(args) > pos else kw.get('axis')
        keep = kw.get('keepdims')
        if keep is not None and not (isinstance(keep, Const) and isinstance(keep.v, bool)):
            raise Unknown(node, 'keepdims')
        keep = bool(keep.v) if keep is not None else False
        extra = set(kw) - {'axis', 'keepdims'}
        if extra or len(args) > pos + 1:
            raise Unknown(node, f'reduction arguments {sorted(extra)}')
        if ax is None or (isinstance(ax, Const) and ax.v is None):
            return None, keep
        if isinstance(ax, Num):
            c = ax.p.const_value()
            if c is not None and c.denominator == 1:
                return int(c), keep
        raise Unknown(node, 'axis')

    def reduce(self, op, x, axis, keep, node):
        if not isinstance(x, Num):
            raise Unknown(node, 'reduction of a non-number')
        if x.shape in ('S', 'A'):
            raise Unknown(node, 'reduction of a scalar')
        if x.shape != 'E':
            raise Unknown(node, f'reduction of an array of shape {x.shape}')
        if self.mode == '2d':
            if axis in (-1, 1):
                ax = 'last'
            elif axis is None:
                raise Defect(node, 'axis', f'{op} without an axis reduces over all rows of the (rows, width) array: '
                             'rows are no longer aggregated independently (wrong for vec_size > 1)')
            elif axis in (0, -2):
                raise Defect(node, 'axis', f'{op} along axis {axis} aggregates across rows (the vec_size axis) '
                             'instead of along the constraint axis (width)')
            else:
                raise Unknown(node, f'axis {axis}')
            shape = 'RK' if keep else 'R1'
        else:
            if axis is not None:
                raise Unknown(node, 'reduction with an axis in an all-array aggregate')
            ax, shape = 'all', 'A'
        p = reduce_sum(x.p, ax) if op == 'sum' else reduce_ext(op, x.p, ax)
        return Num(p, shape)

    def numpy(self, name, args, kw, node):
        if name in ('max', 'amax', 'min', 'amin', 'sum'):
            if not args:
                raise Unknown(node, 'reduction without operand')
            axis, keep = self._axis(args, kw, 1, node)
            op = {'amax': 'max', 'amin': 'min'}.get(name, name)
            return self.reduce(op, args[0], axis, keep, node)
        if name in ('exp', 'log', 'negative', 'atleast_2d', 'asarray', 'asanyarray', 'array', 'atleast_1d', 'copy'):
            if len(args) != 1 or kw or not isinstance(args[0], Num):
                raise Unknown(node, f'{name} arguments')
            x = args[0]
            if name == 'exp':
                self.exp_args.append((node, x.p))
                return Num(mk_exp(x.p), x.shape)
            if name == 'log':
                self.log_args.append((node, x.p))
                return Num(mk_log(x.p), x.shape)
            if name == 'negative':
                return Num(-x.p, x.shape)
            if name == 'atleast_2d':
                if self.mode == '2d' and x.shape in ('E', 'RK'):
                    return x
                raise Unknown(node, 'atleast_2d of a non-2d value')
            if name == 'atleast_1d' and x.shape in ('S', 'A'):
                raise Unknown(node, 'atleast_1d of a scalar')
            return x
        if name in ('maximum', 'minimum', 'fmax', 'fmin') and len(args) == 2 and not kw and \
                all(isinstance(x, Num) for x in args):
            op = 'maximum' if name in ('maximum', 'fmax') else 'minimum'
            return Num(mk_bin(op, args[0].p, args[1].p), _join(args[0].shape, args[1].shape, node))
        if name == 'clip' and args and isinstance(args[0], Num):
            names = ('a_min', 'a_max') if ('a_min' in kw or 'a_max' in kw) else ('min', 'max')
            if set(kw) - set(names) or len(args) > 3:
                raise Unknown(node, 'clip arguments')
            lo = args[1] if len(args) > 1 else kw.get(names[0])
            hi = args[2] if len(args) > 2 else kw.get(names[1])
            r = args[0]
            for bound, op in ((lo, 'maximum'), (hi, 'minimum')):
                if bound is None or (isinstance(bound, Const) and bound.v is None):
                    continue
                if not isinstance(bound, Num):
                    raise Unknown(node, 'clip bound')
                r = Num(mk_bin(op, r.p, bound.p), _join(r.shape, bound.shape, node))
            return r
        if name == 'where' and len(args) == 3 and not kw and isinstance(args[0], Cond) and \
                isinstance(args[1], Num) and isinstance(args[2], Num):
            shp = _join(_join(args[0].shape, args[1].shape, node), args[2].shape, node)
            return Num(mk_where(args[0].key, args[1].p, args[2].p), shp)
        if name in ('add', 'subtract', 'multiply', 'divide', 'true_divide') and len(args) == 2 and not kw:
            op = {'add': ast.Add(), 'subtract': ast.Sub(), 'multiply': ast.Mult()}.get(name, ast.Div())
            return self.binop(op, args[0], args[1], node)
        if name == 'expand_dims' and isinstance(args[0] if args else None, Num):
            ax = args[1] if len(args) > 1 else kw.get('axis')
            c = ax.p.const_value() if isinstance(ax, Num) else None
            if args[0].shape == 'R1' and c is not None and int(c) in (-1, 1):
                return Num(args[0].p, 'RK')
            raise Unknown(node, 'expand_dims')
        if name in ('ravel',) and len(args) == 1 and isinstance(args[0], Num):
            return self.method(args[0], 'ravel', [], kw, node)
        raise Unknown(node, f'unmodelled numpy function {name}')

    def method(self, recv, name, args, kw, node):
        if name in ('max', 'min', 'sum'):
            axis, keep = self._axis([recv] + args, kw, 1, node)
            return self.reduce(name, recv, axis, keep, node)
        if name in ('flatten', 'ravel'):
            order = args[0] if args else kw.get('order')
            o = 'C'
            if order is not None:
                if not (isinstance(order, Const) and order.v in ('C', 'F')):
                    raise Unknown(node, 'flatten order')
                o = order.v
            return self._flat(recv, o, node)
        if name == 'reshape':
            a0 = args[0] if len(args) == 1 else None
            if isinstance(a0, Tup) and len(a0.items) == 1:
                a0 = a0.items[0]
            c = a0.p.const_value() if isinstance(a0, Num) else None
            if c == -1 and set(kw) <= {'order'}:
                order = kw.get('order')
                o = order.v if isinstance(order, Const) and order.v in ('C', 'F') else ('C' if order is None else None)
                if o is not None:
                    return self._flat(recv, o, node)
            raise Unknown(node, 'reshape')
        if name == 'copy' and not args and not kw:
            return recv
        if name in ('transpose',) and not args and not kw:
            return self.attribute_T(recv, node)
        raise Unknown(node, f'unmodelled array method {name}')

    def attribute_T(self, v, node):
        if v.shape == 'E':
            return Num(v.p, 'ET')
        if v.shape == 'ET':
            return Num(v.p, 'E')
        raise Unknown(node, 'transpose')

    def _flat(self, v, o, node):
        if v.shape == 'E':
            return Num(v.p, 'F' + o)
        if v.shape == 'ET':
            return Num(v.p, 'F' + ('F' if o == 'C' else 'C'))
        if v.shape in ('FC', 'FF', 'R1'):
            return v
        if v.shape == 'RK':
            return Num(v.p, 'R1')
        raise Unknown(node, f'flatten of a value of shape {v.shape}')


# ============================================================================ tiny integer-array evaluator (index patterns)
class IntEval:
    """Evaluate index-pattern expressions (zeros / arange / range / tile / repeat / + / *) for concrete sizes."""

    def __init__(self, fn, binds):
        self.fn = fn
        self.binds = dict(binds)   # option name -> int

    def run(self, body, env):
        """Execute the straight-line part of a body; statements that do not matter are skipped."""
        for st in body:
            if isinstance(st, ast.Assign) and len(st.targets) == 1 and isinstance(st.targets[0], ast.Name):
                try:
                    env[st.targets[0].id] = self.ev(st.value, env)
                except Unknown:
                    env[st.targets[0].id] = None
        return env

    def ev(self, e, env):
        if isinstance(e, ast.Constant) and isinstance(e.value, int) and not isinstance(e.value, bool):
            return e.value
        if isinstance(e, ast.Name):
            if e.id in env:
                if env[e.id] is None:
                    raise Unknown(e, f'{e.id} has no modelled value')
                return env[e.id]
            if e.id in ('int',):
                return 'int'
            raise Unknown(e, f'unknown name {e.id}')
        if isinstance(e, ast.Attribute) and astx.path(e) in ('self.options',):
            return 'OPTS'
        if isinstance(e, ast.Subscript):
            v = self.ev(e.value, env)
            k = astx.const_str(e.slice)
            if v == 'OPTS' and k in self.binds:
                return self.binds[k]
            raise Unknown(e, 'subscript')
        if isinstance(e, ast.Tuple):
            return tuple(self.ev(x, env) for x in e.elts)
        if isinstance(e, ast.UnaryOp) and isinstance(e.op, ast.USub):
            v = self.ev(e.operand, env)
            return -v if isinstance(v, int) else [-x for x in v]
        if isinstance(e, ast.BinOp) and isinstance(e.op, (ast.Add, ast.Mult, ast.Sub, ast.FloorDiv, ast.Mod)):
            a, b = self.ev(e.left, env), self.ev(e.right, env)
            f = {ast.Add: lambda x, y: x + y, ast.Mult: lambda x, y: x * y, ast.Sub: lambda x, y: x - y,
                 ast.FloorDiv: lambda x, y: x // y, ast.Mod: lambda x, y: x % y}[type(e.op)]
            if isinstance(a, tuple) or isinstance(b, tuple):
                raise Unknown(e, 'tuple arithmetic')
            la, lb = isinstance(a, list), isinstance(b, list)
            if isinstance(a, range) or isinstance(b, range):
                raise Unknown(e, 'arithmetic on a range object')
            if not la and not lb:
                return f(a, b)
            if la and lb:
                if len(a) == len(b):
                    return [f(x, y) for x, y in zip(a, b)]
                if len(a) == 1:
                    return [f(a[0], y) for y in b]
                if len(b) == 1:
                    return [f(x, b[0]) for x in a]
                raise Defect(e, 'pattern-length', f'index arrays of lengths {len(a)} and {len(b)} are added')
            return [f(x, b) for x in a] if la else [f(a, y) for y in b]
        if isinstance(e, ast.Call):
            nm = astx.call_name(e) or ''
            last = nm.split('.')[-1]
            args = [self.ev(a, env) for a in e.args]
            kws = {k.arg for k in e.keywords}
            if nm == 'range' and len(args) == 1 and isinstance(args[0], int):
                return range(args[0])
            if nm == 'list' and len(args) == 1:
                return list(args[0])
            if nm == 'len' and len(args) == 1 and isinstance(args[0], (list, range)):
                return len(args[0])
            if not (nm.startswith('np.') or nm.startswith('numpy.')):
                raise Unknown(e, f'call {nm}')
            if last == 'zeros' and isinstance(args[0], int) and kws <= {'dtype'}:
                return [0] * args[0]
            if last == 'ones' and isinstance(args[0], int) and kws <= {'dtype'}:
                return [1] * args[0]
            if last == 'arange' and kws <= {'dtype'} and all(isinstance(a, int) for a in args) and 1 <= len(args) <= 3:
                return list(range(*args))
            if last in ('array', 'asarray') and len(args) == 1 and isinstance(args[0], (list, range)):
                return list(args[0])
            if last == 'tile' and len(args) == 2 and isinstance(args[1], int) and isinstance(args[0], (list, range)):
                return list(args[0]) * args[1]
            if last == 'repeat' and len(args) == 2 and isinstance(args[1], int) and isinstance(args[0], (list, range)):
                return [x for x in args[0] for _ in range(args[1])]
            raise Unknown(e, f'numpy call {nm}')
        raise Unknown(e, 'index expression')
