"""Statement-level control-flow graph for one function, with exceptional edges.

Nodes are simple statements, branch tests, loop headers and with-enter points.  ``finally`` bodies
are duplicated per continuation kind (normal / exception / return / break / continue) so that paths
through them stay feasible.  Queries are reachability based (must-pass-through, dominance, once).
"""
import ast
from collections import deque

from . import astx
from .core import AnalysisError

_RAISERS = (ast.Call, ast.Raise, ast.Assert, ast.Yield, ast.YieldFrom, ast.Await, ast.Subscript)


class Node:
    __slots__ = ('id', 'kind', 'ast', 'tag', 'owner')

    def __init__(self, id, kind, node, tag='', owner=None):
        self.id = id
        self.kind = kind      # entry exit raise stmt test iter with match
        self.ast = node       # the statement (stmt/with/iter/test: owning compound statement)
        self.tag = tag        # finally-copy tag
        self.owner = owner

    @property
    def lineno(self):
        return getattr(self.ast, 'lineno', 0)

    def exprs(self):
        """AST expressions evaluated at this node."""
        a = self.ast
        if self.kind == 'stmt':
            if isinstance(a, (ast.FunctionDef, ast.AsyncFunctionDef, ast.ClassDef)):
                return list(a.decorator_list)
            return [a]
        if self.kind == 'test':
            return [a.test]
        if self.kind == 'iter':
            return [a.iter, a.target]
        if self.kind == 'with':
            out = []
            for it in a.items:
                out.append(it.context_expr)
                if it.optional_vars is not None:
                    out.append(it.optional_vars)
            return out
        if self.kind == 'match':
            return [a.subject]
        return []

    def calls(self):
        out = []
        for e in self.exprs():
            out.extend(astx.calls(e))
        return out

    def text(self):
        if self.kind in ('entry', 'exit', 'raise', 'join'):
            return f'<{self.kind}>'
        return astx.src(self.ast)

    def __repr__(self):
        return f'<N{self.id} {self.kind} L{self.lineno} {self.text()[:50]}{self.tag}>'


class _Frame:
    def __init__(self, kind, stmt=None):
        self.kind = kind  # 'loop' | 'try' (handlers active) | 'finally'
        self.stmt = stmt
        self.breaks = []      # dangling edges for loop breaks
        self.copies = {}      # finally: continuation kind -> join node
        self.header = None    # loop header node


class CFG:
    def __init__(self, func_node):
        self.func = func_node
        self.nodes = []
        self.succ = {}
        self.pred = {}
        self.entry = self._new('entry', func_node)
        self.exit = self._new('exit', func_node)
        self.raise_exit = self._new('raise', func_node)
        self._tagn = 0
        outs = self._seq(astx.strip_doc(func_node.body), [(self.entry, None)], [], '')
        self._connect(outs, self.exit)
        self._by_ast = {}
        for n in self.nodes:
            self._by_ast.setdefault(id(n.ast), []).append(n)

    # ------------------------------------------------------------ construction
    def _new(self, kind, node, tag=''):
        n = Node(len(self.nodes), kind, node, tag)
        self.nodes.append(n)
        self.succ[n] = []
        self.pred[n] = []
        return n

    def _edge(self, a, b, label=None):
        if (b, label) not in self.succ[a]:
            self.succ[a].append((b, label))
            self.pred[b].append((a, label))

    def _connect(self, dangling, node):
        for a, lab in dangling:
            self._edge(a, node, lab)

    @staticmethod
    def _can_raise(exprs):
        for e in exprs:
            for n in astx.walk(e):
                if isinstance(n, _RAISERS):
                    if isinstance(n, ast.Subscript) and not isinstance(n.ctx, ast.Load):
                        continue
                    return True
        return False

    @staticmethod
    def _catch_all(handler):
        t = handler.type
        if t is None:
            return True
        if isinstance(t, ast.Name) and t.id in ('Exception', 'BaseException'):
            return True
        if isinstance(t, ast.Tuple):
            return any(isinstance(e, ast.Name) and e.id in ('Exception', 'BaseException')
                       for e in t.elts)
        return False

    def _finally_copy(self, fr, kind, tag):
        """Join node of the (shared) copy of a finally body for continuation *kind*.

        Returns (join, fresh): fresh is True when the copy was just created and its outgoing
        continuation still has to be routed by the caller.
        """
        j = fr.copies.get(kind)
        if j is not None:
            return j, False
        j = self._new('join', fr.stmt, f'{tag}/{kind}')
        fr.copies[kind] = j
        return j, True

    def _raise_from(self, node, frames, tag):
        """Add exceptional edges from *node* given enclosing frames."""
        dangling = [(node, 'exc')]
        i = len(frames) - 1
        while i >= 0:
            fr = frames[i]
            if fr.kind == 'try':
                for h, hentry in fr.handler_entries:
                    self._connect(dangling, hentry)
                if fr.catch_all:
                    return
            elif fr.kind == 'finally':
                j, fresh = self._finally_copy(fr, 'exc', tag)
                self._connect(dangling, j)
                if not fresh:
                    return
                dangling = self._seq(fr.stmt.finalbody, [(j, None)], frames[:i], j.tag)
                if not dangling:
                    return
                dangling = [(a, 'exc') for a, _ in dangling]
            i -= 1
        self._connect(dangling, self.raise_exit)

    def _jump(self, dangling, kind, frames, tag):
        """Route a return/break/continue through enclosing finally frames."""
        i = len(frames) - 1
        while i >= 0:
            fr = frames[i]
            if fr.kind == 'finally':
                j, fresh = self._finally_copy(fr, kind, tag)
                self._connect(dangling, j)
                if not fresh:
                    return
                dangling = self._seq(fr.stmt.finalbody, [(j, None)], frames[:i], j.tag)
                if not dangling:
                    return
            elif fr.kind == 'loop' and kind in ('break', 'continue'):
                if kind == 'break':
                    fr.breaks.extend(dangling)
                else:
                    self._connect(dangling, fr.header)
                return
            i -= 1
        if kind == 'return':
            self._connect(dangling, self.exit)
        else:
            raise AnalysisError(f'{kind} outside loop at line {getattr(self.func, "lineno", 0)}')

    def _simple(self, st, kind, preds, frames, tag):
        n = self._new(kind, st, tag)
        self._connect(preds, n)
        if self._can_raise(n.exprs()) or any(f.kind in ('try',) for f in frames):
            self._raise_from(n, frames, tag)
        return n

    def _seq(self, stmts, preds, frames, tag):
        for st in stmts:
            if not preds:
                break  # unreachable code
            preds = self._stmt(st, preds, frames, tag)
        return preds

    def _stmt(self, st, preds, frames, tag):
        if isinstance(st, (ast.FunctionDef, ast.AsyncFunctionDef, ast.ClassDef)):
            n = self._new('stmt', st, tag)
            self._connect(preds, n)
            return [(n, None)]
        if isinstance(st, ast.If):
            n = self._simple(st, 'test', preds, frames, tag)
            const = st.test.value if isinstance(st.test, ast.Constant) else None
            outs = []
            if const is None or const:
                outs += self._seq(st.body, [(n, 'true')], frames, tag)
            if const is None or not const:
                if st.orelse:
                    outs += self._seq(st.orelse, [(n, 'false')], frames, tag)
                else:
                    outs.append((n, 'false'))
            return outs
        if isinstance(st, ast.While):
            n = self._simple(st, 'test', preds, frames, tag)
            fr = _Frame('loop', st)
            fr.header = n
            body_out = self._seq(st.body, [(n, 'true')], frames + [fr], tag)
            self._connect(body_out, n)
            outs = []
            const_true = isinstance(st.test, ast.Constant) and bool(st.test.value)
            if not const_true:
                if st.orelse:
                    outs += self._seq(st.orelse, [(n, 'false')], frames, tag)
                else:
                    outs.append((n, 'false'))
            return outs + fr.breaks
        if isinstance(st, (ast.For, ast.AsyncFor)):
            n = self._simple(st, 'iter', preds, frames, tag)
            fr = _Frame('loop', st)
            fr.header = n
            body_out = self._seq(st.body, [(n, 'true')], frames + [fr], tag)
            self._connect(body_out, n)
            outs = []
            if st.orelse:
                outs += self._seq(st.orelse, [(n, 'false')], frames, tag)
            else:
                outs.append((n, 'false'))
            return outs + fr.breaks
        if isinstance(st, (ast.With, ast.AsyncWith)):
            n = self._simple(st, 'with', preds, frames, tag)
            return self._seq(st.body, [(n, None)], frames, tag)
        if isinstance(st, ast.Try) or st.__class__.__name__ == 'TryStar':
            outer = frames
            inner = list(frames)
            if st.finalbody:
                ff = _Frame('finally', st)
                inner = inner + [ff]
            # handler entry placeholders
            hframes = inner  # handlers and orelse run under the finally frame only
            tf = _Frame('try', st)
            tf.handler_entries = []
            tf.catch_all = any(self._catch_all(h) for h in st.handlers)
            handler_outs = []
            for h in st.handlers:
                hn = self._new('stmt', h, tag)  # the `except X as e:` point
                hn.kind = 'except'
                tf.handler_entries.append((h, hn))
            body_frames = inner + ([tf] if st.handlers else [])
            body_out = self._seq(st.body, preds, body_frames, tag)
            if st.orelse:
                body_out = self._seq(st.orelse, body_out, hframes, tag)
            for h, hn in tf.handler_entries:
                handler_outs += self._seq(h.body, [(hn, None)], hframes, tag)
            outs = body_out + handler_outs
            if st.finalbody and outs:
                outs = self._seq(st.finalbody, outs, outer, f'{tag}/n')
            return outs
        if isinstance(st, ast.Return):
            n = self._simple(st, 'stmt', preds, frames, tag)
            self._jump([(n, None)], 'return', frames, tag)
            return []
        if isinstance(st, ast.Raise):
            n = self._new('stmt', st, tag)
            self._connect(preds, n)
            self._raise_from(n, frames, tag)
            return []
        if isinstance(st, ast.Break):
            n = self._new('stmt', st, tag)
            self._connect(preds, n)
            self._jump([(n, None)], 'break', frames, tag)
            return []
        if isinstance(st, ast.Continue):
            n = self._new('stmt', st, tag)
            self._connect(preds, n)
            self._jump([(n, None)], 'continue', frames, tag)
            return []
        if isinstance(st, ast.Match):
            n = self._simple(st, 'match', preds, frames, tag)
            outs = []
            wildcard = False
            for c in st.cases:
                outs += self._seq(c.body, [(n, 'case')], frames, tag)
                if isinstance(c.pattern, ast.MatchAs) and c.pattern.pattern is None and c.guard is None:
                    wildcard = True
            if not wildcard:
                outs.append((n, 'false'))
            return outs
        # simple statement
        n = self._simple(st, 'stmt', preds, frames, tag)
        return [(n, None)]

    # ------------------------------------------------------------ lookup
    def nodes_of(self, ast_node):
        """CFG nodes (all finally copies) whose statement is *ast_node*."""
        return list(self._by_ast.get(id(ast_node), []))

    def where(self, pred, kinds=None):
        out = []
        for n in self.nodes:
            if n.kind in ('entry', 'exit', 'raise', 'join'):
                continue
            if kinds and n.kind not in kinds:
                continue
            try:
                if pred(n):
                    out.append(n)
            except AnalysisError:
                raise
        return out

    def calling(self, *names, recv=None):
        """Nodes containing a call whose callee's last name component is in *names*."""
        def p(n):
            for c in n.calls():
                if astx.callee_attr(c) in names:
                    if recv is None or (astx.path(astx.receiver(c)) or '') == recv or \
                            (callable(recv) and recv(astx.receiver(c))):
                        return True
            return False
        return self.where(p)

    def inside(self, n, compound, field=None):
        """True if node n's statement lies lexically inside compound statement (optionally field)."""
        a = n.ast
        if n.kind == 'except':
            a = n.ast
        cur = a
        while cur is not None:
            par = getattr(cur, '_parent', None)
            if par is compound:
                if field is None:
                    return True
                lst = getattr(compound, field, None) or []
                if field == 'handlers':
                    return cur in lst
                return cur in lst
            cur = par
        return False

    # ------------------------------------------------------------ queries
    def reach(self, starts, avoid=(), labels=None, stop=(), edge_ok=None):
        """Nodes reachable from *starts* (inclusive) without entering *avoid* nodes.

        labels: optional predicate on edge label.  stop: nodes that are reached but not expanded.
        """
        avoid = set(avoid)
        stop = set(stop)
        seen = set()
        dq = deque(s for s in starts if s not in avoid)
        seen.update(dq)
        while dq:
            n = dq.popleft()
            if n in stop:
                continue
            for m, lab in self.succ[n]:
                if labels is not None and not labels(lab):
                    continue
                if edge_ok is not None and not edge_ok(n, m, lab):
                    continue
                if m in avoid or m in seen:
                    continue
                seen.add(m)
                dq.append(m)
        return seen

    def path(self, starts, targets, avoid=(), labels=None, edge_ok=None):
        """A shortest path (list of nodes) from starts to any target avoiding nodes, or None."""
        avoid = set(avoid)
        targets = set(targets)
        par = {}
        dq = deque()
        for s in starts:
            if s in avoid:
                continue
            par[s] = None
            dq.append(s)
        while dq:
            n = dq.popleft()
            if n in targets:
                out = []
                while n is not None:
                    out.append(n)
                    n = par[n]
                return out[::-1]
            for m, lab in self.succ[n]:
                if labels is not None and not labels(lab):
                    continue
                if edge_ok is not None and not edge_ok(n, m, lab):
                    continue
                if m in avoid or m in par:
                    continue
                par[m] = n
                dq.append(m)
        return None

    def normal_succ(self, n):
        return [m for m, lab in self.succ[n] if lab != 'exc']

    def must_pass(self, starts, targets, through, labels=None, edge_ok=None):
        """None if every path from starts to targets hits a *through* node, else a witness path."""
        return self.path(starts, targets, avoid=through, labels=labels, edge_ok=edge_ok)

    def dominated_by(self, node, doms, labels=None, edge_ok=None):
        """None if every path entry -> node passes a node in *doms*; else a witness path."""
        if node in doms:
            return None
        return self.path([self.entry], [node], avoid=doms, labels=labels, edge_ok=edge_ok)

    @staticmethod
    def assume(cond_dump, value=True):
        """edge_ok filter: tests whose condition dumps to cond_dump only take their `value` edge.

        Used for correlated guards (`if G: set-up ... if G: tear-down`), assuming G is not changed
        in between (callers state that assumption).
        """
        def ok(n, m, lab):
            if n.kind == 'test' and lab in ('true', 'false') and astx.dump(n.ast.test) == cond_dump:
                return (lab == 'true') == value
            return True
        return ok

    def fmt_path(self, p, limit=8):
        if p is None:
            return ''
        items = [f'L{n.lineno}:{n.text()[:48]}' for n in p if n.kind not in ('entry',)]
        if len(items) > limit:
            items = items[:limit // 2] + ['...'] + items[-limit // 2:]
        return ' -> '.join(items)

    # loops
    def header(self, loop_stmt):
        hs = [n for n in self.nodes_of(loop_stmt)]
        return hs

    def body_nodes(self, loop_stmt):
        return [n for n in self.nodes if n.kind not in ('entry', 'exit', 'raise', 'join')
                and self.inside(n, loop_stmt, 'body')]


def noexc(lab):
    return lab != 'exc'


# ---------------------------------------------------------------- reaching definitions
class ReachingDefs:
    """Reaching definitions of access paths (local names and dotted attribute paths) on a CFG."""

    def __init__(self, cfg, params=True):
        self.cfg = cfg
        self.gen = {}
        for n in cfg.nodes:
            g = {}
            if n.kind == 'stmt' and isinstance(n.ast, (ast.Assign, ast.AugAssign, ast.AnnAssign,
                                                       ast.Delete)):
                for t in astx.assigned_targets(n.ast):
                    p = astx.path(t)
                    if p:
                        g[p] = n
            elif n.kind == 'iter':
                for t in astx.assigned_targets(n.ast):
                    p = astx.path(t)
                    if p:
                        g[p] = n
            elif n.kind == 'with':
                for t in astx.assigned_targets(n.ast):
                    p = astx.path(t)
                    if p:
                        g[p] = n
            elif n.kind == 'except' and getattr(n.ast, 'name', None):
                g[n.ast.name] = n
            if n.kind in ('stmt', 'test', 'iter', 'with'):
                for e in n.exprs():
                    for w in astx.walk(e):
                        if isinstance(w, ast.NamedExpr):
                            g[w.target.id] = n
            self.gen[n] = g
        self.inn = {n: {} for n in cfg.nodes}
        entry_defs = {}
        if params:
            a = cfg.func.args
            for arg in a.posonlyargs + a.args + a.kwonlyargs + [x for x in (a.vararg, a.kwarg) if x]:
                entry_defs[arg.arg] = {cfg.entry}
        out = {n: {} for n in cfg.nodes}
        out[cfg.entry] = entry_defs
        work = deque(cfg.nodes)
        inq = set(cfg.nodes)
        while work:
            n = work.popleft()
            inq.discard(n)
            if n is not cfg.entry:
                merged = {}
                for p, _ in cfg.pred[n]:
                    for var, ds in out[p].items():
                        merged.setdefault(var, set()).update(ds)
                self.inn[n] = merged
                new = {k: set(v) for k, v in merged.items()}
                for var, d in self.gen[n].items():
                    # a definition kills the path itself and any longer path below it
                    for k in list(new):
                        if k == var or k.startswith(var + '.') or k.startswith(var + '['):
                            del new[k]
                    new[var] = {d}
            else:
                new = entry_defs
            if new != out[n]:
                out[n] = new
                for m, _ in cfg.succ[n]:
                    if m not in inq:
                        inq.add(m)
                        work.append(m)
        self.out = out

    def defs(self, node, var):
        """Definition nodes of *var* reaching the entry of *node*."""
        return set(self.inn[node].get(var, ()))

    def value(self, node, var):
        """If exactly one Assign definition of var reaches node, return its value expr else None."""
        ds = self.defs(node, var)
        if len(ds) != 1:
            return None
        d = next(iter(ds))
        if d.kind == 'stmt' and isinstance(d.ast, ast.Assign) and len(d.ast.targets) == 1 and \
                astx.path(d.ast.targets[0]) == var:
            return d.ast.value
        return None


def build(func):
    """CFG for a core.Func or an ast function node."""
    node = getattr(func, 'node', func)
    return CFG(node)
