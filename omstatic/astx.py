"""AST helpers: normalisation, access paths, call names, scoped walks."""
import ast
import copy

_SCOPES = (ast.FunctionDef, ast.AsyncFunctionDef, ast.Lambda, ast.ClassDef)

_FLIP = {ast.Gt: ast.Lt, ast.GtE: ast.LtE}


class _Canon(ast.NodeTransformer):
    """Canonicalise direction of comparisons (a > b -> b < a) and drop redundant parens (free)."""

    def visit_Compare(self, node):
        self.generic_visit(node)
        if len(node.ops) == 1 and type(node.ops[0]) in _FLIP:
            return ast.Compare(left=node.comparators[0], ops=[_FLIP[type(node.ops[0])]()],
                               comparators=[node.left])
        return node

    def visit_UnaryOp(self, node):
        self.generic_visit(node)
        # -(c) for numeric constant -> constant
        if isinstance(node.op, ast.USub) and isinstance(node.operand, ast.Constant) and \
                isinstance(node.operand.value, (int, float)) and not isinstance(node.operand.value, bool):
            return ast.Constant(value=-node.operand.value)
        return node


_LOAD = ast.Load()


def _copy(node):
    """Structural copy of an AST (fields only: parent links and positions are not followed)."""
    if isinstance(node, ast.AST):
        if isinstance(node, ast.expr_context):
            return _LOAD
        new = node.__class__()
        for f in node._fields:
            try:
                v = getattr(node, f)
            except AttributeError:
                continue
            setattr(new, f, _copy(v))
        for a in ('lineno', 'col_offset', 'end_lineno', 'end_col_offset'):
            if hasattr(node, a):
                setattr(new, a, getattr(node, a))
        return new
    if isinstance(node, list):
        return [_copy(x) for x in node]
    return node


def canon(node):
    """Return a canonicalised copy of *node* (comparison direction, Load/Store context erased)."""
    return _Canon().visit(_copy(node))


_DUMP_CACHE = {}


def dump(node):
    """Location-free canonical structural key of an AST node (memoised per node object)."""
    if node is None:
        return 'None'
    k = id(node)
    hit = _DUMP_CACHE.get(k)
    if hit is not None and hit[0] is node:
        return hit[1]
    d = ast.dump(canon(node), annotate_fields=False, include_attributes=False)
    if len(_DUMP_CACHE) > 200000:
        _DUMP_CACHE.clear()
    _DUMP_CACHE[k] = (node, d)
    return d


def same(a, b):
    return dump(a) == dump(b)


def src(node, limit=160):
    """One-line source text of a node (for reports only, never for decisions)."""
    if node is None:
        return ''
    try:
        if isinstance(node, (ast.If, ast.While)):
            kw = 'if' if isinstance(node, ast.If) else 'while'
            s = f'{kw} {ast.unparse(node.test)}:'
        elif isinstance(node, (ast.For, ast.AsyncFor)):
            s = f'for {ast.unparse(node.target)} in {ast.unparse(node.iter)}:'
        elif isinstance(node, (ast.With, ast.AsyncWith)):
            s = 'with ' + ', '.join(ast.unparse(i) for i in node.items) + ':'
        elif isinstance(node, ast.Try):
            s = 'try:'
        elif isinstance(node, (ast.FunctionDef, ast.AsyncFunctionDef)):
            s = f'def {node.name}(...)'
        elif isinstance(node, ast.ClassDef):
            s = f'class {node.name}'
        else:
            s = ast.unparse(node)
    except Exception:  # pragma: no cover
        s = type(node).__name__
    s = ' '.join(s.split())
    return s if len(s) <= limit else s[:limit - 3] + '...'


def walk(node, into_scopes=False):
    """ast.walk that does not descend into nested function/class/lambda scopes."""
    todo = [node]
    first = True
    while todo:
        n = todo.pop()
        if not first and not into_scopes and isinstance(n, _SCOPES):
            continue
        first = False
        yield n
        todo.extend(reversed(list(ast.iter_child_nodes(n))))


def walk_stmts(body):
    """All statements in a body, recursively (not into nested scopes), in source order."""
    for st in body:
        yield st
        if isinstance(st, _SCOPES):
            continue
        for fld in ('body', 'orelse', 'finalbody'):
            sub = getattr(st, fld, None)
            if sub and isinstance(sub, list) and sub and isinstance(sub[0], ast.stmt):
                yield from walk_stmts(sub)
        if isinstance(st, ast.Try):
            for h in st.handlers:
                yield from walk_stmts(h.body)
        if isinstance(st, ast.Match):
            for c in st.cases:
                yield from walk_stmts(c.body)


def path(expr):
    """Dotted access path of a Name/Attribute/Subscript(const)/Call-free chain, else None.

    ``self._vectors['output']['linear']`` -> "self._vectors['output']['linear']"
    Subscripts with non-constant index are rendered with ``[*]``.
    """
    if isinstance(expr, ast.Name):
        return expr.id
    if isinstance(expr, ast.Attribute):
        p = path(expr.value)
        return None if p is None else f'{p}.{expr.attr}'
    if isinstance(expr, ast.Subscript):
        p = path(expr.value)
        if p is None:
            return None
        if isinstance(expr.slice, ast.Constant):
            return f'{p}[{expr.slice.value!r}]'
        return f'{p}[*]'
    if isinstance(expr, ast.Call):
        # self._system() is the repo's weakref idiom: treat `x()` with no args as a path element
        if not expr.args and not expr.keywords:
            p = path(expr.func)
            return None if p is None else f'{p}()'
    return None


def call_name(call):
    """Dotted name of the callee of a Call (``self._run_apply``), or None."""
    if not isinstance(call, ast.Call):
        return None
    return path(call.func)


def calls(node, into_scopes=False):
    return [n for n in walk(node, into_scopes) if isinstance(n, ast.Call)]


def callee_attr(call):
    """Last component of the callee name (method/function name)."""
    f = call.func
    if isinstance(f, ast.Attribute):
        return f.attr
    if isinstance(f, ast.Name):
        return f.id
    return None


def receiver(call):
    """Receiver expression of a method call, else None."""
    return call.func.value if isinstance(call.func, ast.Attribute) else None


def names(node):
    return {n.id for n in walk(node) if isinstance(n, ast.Name)}


def attrs(node):
    return {n.attr for n in walk(node) if isinstance(n, ast.Attribute)}


def mentions(node, *idents):
    """True if any identifier (Name id or Attribute attr or str constant) occurs in node."""
    want = set(idents)
    for n in walk(node):
        if isinstance(n, ast.Name) and n.id in want:
            return True
        if isinstance(n, ast.Attribute) and n.attr in want:
            return True
        if isinstance(n, ast.Constant) and isinstance(n.value, str) and n.value in want:
            return True
    return False


def const_str(node):
    return node.value if isinstance(node, ast.Constant) and isinstance(node.value, str) else None


def kwarg(call, name):
    for k in call.keywords:
        if k.arg == name:
            return k.value
    return None


def arg(call, pos, name=None):
    """Positional-or-keyword argument of a call."""
    if pos is not None and pos < len(call.args) and not any(isinstance(a, ast.Starred) for a in call.args[:pos + 1]):
        return call.args[pos]
    if name is not None:
        return kwarg(call, name)
    return None


def assigned_targets(stmt):
    """Target expressions written by a simple statement (Assign/AugAssign/AnnAssign/For/With/Delete)."""
    out = []

    def flat(t):
        if isinstance(t, (ast.Tuple, ast.List)):
            for e in t.elts:
                flat(e)
        elif isinstance(t, ast.Starred):
            flat(t.value)
        else:
            out.append(t)
    if isinstance(stmt, ast.Assign):
        for t in stmt.targets:
            flat(t)
    elif isinstance(stmt, (ast.AugAssign, ast.AnnAssign)):
        flat(stmt.target)
    elif isinstance(stmt, (ast.For, ast.AsyncFor)):
        flat(stmt.target)
    elif isinstance(stmt, (ast.With, ast.AsyncWith)):
        for it in stmt.items:
            if it.optional_vars is not None:
                flat(it.optional_vars)
    elif isinstance(stmt, ast.Delete):
        for t in stmt.targets:
            flat(t)
    return out


def is_docstring(stmt):
    return isinstance(stmt, ast.Expr) and isinstance(stmt.value, ast.Constant) and \
        isinstance(stmt.value.value, str)


def strip_doc(body):
    return body[1:] if body and is_docstring(body[0]) else body


def enclosing(node, kinds):
    """Nearest ancestor of given kinds (needs parent links set by core.Module)."""
    p = getattr(node, '_parent', None)
    while p is not None and not isinstance(p, kinds):
        p = getattr(p, '_parent', None)
    return p


def ancestors(node):
    p = getattr(node, '_parent', None)
    while p is not None:
        yield p
        p = getattr(p, '_parent', None)


def stmt_of(node):
    """The statement that contains an expression node."""
    n = node
    while n is not None and not isinstance(n, ast.stmt):
        n = getattr(n, '_parent', None)
    return n


def in_body(node, owner, field):
    """True if *node* is (transitively) inside owner.<field> (a statement list)."""
    for st in getattr(owner, field, []) or []:
        if node is st:
            return True
        for sub in walk(st, into_scopes=True):
            if sub is node:
                return True
    return False
